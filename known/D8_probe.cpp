// D8 probe: BronsonAVLTreeMap after a purely sequential history - true subtree heights vs. check_consistency()
#include <cds/init.h>
#include <cds/urcu/general_buffered.h>
#include <cds/container/bronson_avltree_map_rcu.h>
#include <cstdio>
#include <cstdlib>
#include <algorithm>

typedef cds::urcu::gc< cds::urcu::general_buffered<> > rcu_type;
struct traits: public cds::container::bronson_avltree::traits { typedef cds::atomicity::item_counter item_counter; };
typedef cds::container::BronsonAVLTreeMap< rcu_type, int, int, traits > base_map;

struct probe_map: public base_map {
    typedef base_map::node_type node_t;
    int worst = 0; int bad_key = 0;
    int height( node_t* p ) {
        if ( !p ) return 0;
        int l = height( base_map::child( p, base_map::left_child, cds::opt::v::relaxed_ordering::memory_order_relaxed ));
        int r = height( base_map::child( p, base_map::right_child, cds::opt::v::relaxed_ordering::memory_order_relaxed ));
        int d = std::abs( l - r );
        if ( d > worst ) { worst = d; bad_key = p->m_key; }
        return 1 + std::max( l, r );
    }
    int probe() { worst = 0; height( base_map::child( base_map::m_pRoot, base_map::right_child, cds::opt::v::relaxed_ordering::memory_order_relaxed )); return worst; }
};

int main( int argc, char** argv )
{
    cds::Initialize();
    int rc = 0;
    {
        rcu_type rcu;
        cds::threading::Manager::attachThread();
        for ( unsigned seed = 1; seed <= 5 && rc == 0; ++seed ) {
            probe_map m;
            srand( seed );
            for ( int step = 0; step < 4000; ++step ) {
                int k = rand() % 220;
                if ( rand() % 3 ) m.insert( k, k ); else m.erase( k );
                int w = m.probe();
                if ( w > 1 ) {
                    bool cc = m.check_consistency();
                    printf( "seed %u step %d: node with key %d has |hL-hR| = %d at a quiescent point; check_consistency() = %d\n", seed, step, m.bad_key, w, (int) cc );
                    rc = 1; break;
                }
            }
        }
        if ( rc == 0 ) printf( "balanced at every quiescent point probed\n" );
        cds::threading::Manager::detachThread();
    }
    cds::Terminate();
    return rc;
}
