// D6 reproducer: DHP scan() extends the retired array although the compaction moved the cursor back:
// the cells between the cursor and the end of the old tail block keep stale retired pointers that the next scan disposes again.
#include <cds/init.h>
#include <cds/gc/dhp.h>
#include <cstdio>
#include <vector>
#include <atomic>

struct Obj { int id; std::atomic<int> disposed{0}; };
struct Disposer { void operator()( Obj* p ) const { p->disposed.fetch_add( 1 ); } };

int main()
{
    cds::Initialize();
    int rc = 0;
    {
        cds::gc::DHP dhp;      // default: retired blocks of 256 cells
        cds::threading::Manager::attachThread();
        {
            const int N = 256;
            std::vector<Obj> objs( N );
            for ( int i = 0; i < N; ++i ) objs[i].id = i;

            // guard all objects but the last one (the same thread may hold the guards: scan() reads every thread's hazards)
            std::vector<cds::gc::DHP::Guard> guards( N - 1 );
            for ( int i = 0; i < N - 1; ++i )
                guards[i].assign( &objs[i] );

            // retire all N: the N-th retire fills the only block -> scan(): 1 freed (< 25%), 255 survive -> extend()
            for ( int i = 0; i < N; ++i )
                cds::gc::DHP::retire<Disposer>( &objs[i] );

            printf( "after 1st scan: object %d disposed %d time(s)\n", N - 1, objs[N-1].disposed.load());

            // release the guards and force another scan
            for ( auto& g : guards ) g.clear();
            cds::gc::DHP::scan();

            int bad = 0;
            for ( int i = 0; i < N; ++i ) {
                int d = objs[i].disposed.load();
                if ( d != 1 ) { ++bad; printf( "object %d disposed %d time(s)\n", i, d ); }
            }
            if ( bad ) { printf( "FAIL: %d object(s) not disposed exactly once\n", bad ); rc = 1; }
            else printf( "PASS\n" );
        }
        cds::threading::Manager::detachThread();
    }
    cds::Terminate();
    return rc;
}
