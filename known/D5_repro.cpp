// Reproducer of known finding D5 (property C17): CuckooSet::resize() silently drops an element
// whose every probe set in the doubled table is already full: it falls through both placement
// loops to the next element.  Documentation only - not part of any registered check.
//
//   g++ -std=gnu++11 -O1 -mcx16 -I/repo known/D5_repro.cpp -o /var/tmp/d5 -L/repo/_build/bin -lcds -lpthread -Wl,-rpath,/repo/_build/bin && /var/tmp/d5
//   expected output on the unrepaired library:  LOST key 5 after inserting 11 (size()=12)
#include <cstring>
#include <cds/intrusive/cuckoo_set.h>
#include <cstdio>
#include <vector>

namespace ci = cds::intrusive;
static const int N = 12;
// low-entropy hash functions (values 0..3), list probe sets of size 2, threshold 1, initial capacity 4
static unsigned const H1[N] = { 2, 3, 1, 1, 3, 3, 1, 2, 3, 2, 2, 3 };
static unsigned const H2[N] = { 0, 3, 2, 2, 1, 2, 3, 1, 0, 2, 2, 1 };

struct item : public ci::cuckoo::node< ci::cuckoo::list, 0 > { int key; };
struct hash1 { size_t operator()( item const& i ) const { return H1[i.key]; } size_t operator()( int k ) const { return H1[k]; } };
struct hash2 { size_t operator()( item const& i ) const { return H2[i.key]; } size_t operator()( int k ) const { return H2[k]; } };
struct eq {
    bool operator()( item const& a, item const& b ) const { return a.key == b.key; }
    bool operator()( item const& a, int b ) const { return a.key == b; }
    bool operator()( int a, item const& b ) const { return a == b.key; }
};
struct traits : public ci::cuckoo::traits {
    typedef ci::cuckoo::base_hook< ci::cuckoo::probeset_type< ci::cuckoo::list > > hook;
    typedef cds::opt::hash_tuple< hash1, hash2 > hash;
    typedef eq equal_to;
    typedef cds::atomicity::item_counter item_counter;
};
typedef ci::CuckooSet< item, traits > set_t;

int main()
{
    set_t s( 4, 2, 1 );
    std::vector<item> items( N );
    int rc = 0;
    for ( int k = 0; k < N && !rc; ++k ) {
        items[k].key = k;
        if ( !s.insert( items[k] )) { printf( "insert(%d) failed\n", k ); return 2; }
        for ( int j = 0; j <= k; ++j )
            if ( !s.contains( j )) {
                printf( "LOST key %d after inserting %d (size()=%zu)\n", j, k, s.size());
                rc = 1;
                break;
            }
    }
    if ( !rc ) printf( "all keys present\n" );
    s.clear();
    return rc;
}
