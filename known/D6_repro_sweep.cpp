#include <cds/init.h>
#include <cds/gc/dhp.h>
#include <cstdio>
#include <vector>
#include <atomic>
#include <memory>
struct Obj { std::atomic<int> disposed{0}; };
struct Disposer { void operator()( Obj* p ) const { p->disposed.fetch_add( 1 ); } };
int main()
{
    cds::Initialize();
    int rc = 0;
    int ks[] = {0, 1, 2, 63, 64, 65, 128, 255, 256};
    for ( int k : ks ) {
        for ( int N : {256, 512, 700} ) {
            if ( k > N ) continue;
            std::vector<Obj> objs( N + 600 );
            {
                cds::gc::DHP dhp;
                cds::threading::Manager::attachThread();
                {
                    std::vector<cds::gc::DHP::Guard> guards( N - k );
                    for ( int i = 0; i < N - k; ++i ) guards[i].assign( &objs[i] );   // the last k are unguarded
                    for ( int i = 0; i < N; ++i ) cds::gc::DHP::retire<Disposer>( &objs[i] );
                    for ( int i = N; i < N + 300; ++i ) cds::gc::DHP::retire<Disposer>( &objs[i] );
                    for ( auto& g : guards ) g.clear();
                    for ( int i = N + 300; i < N + 600; ++i ) cds::gc::DHP::retire<Disposer>( &objs[i] );
                    cds::gc::DHP::scan();
                }
                cds::threading::Manager::detachThread();
            }
            int bad = 0;
            for ( auto& o : objs ) if ( o.disposed.load() != 1 ) ++bad;
            if ( bad ) { printf( "k=%d N=%d: %d object(s) not disposed exactly once\n", k, N, bad ); rc = 1; }
        }
    }
    printf( rc ? "FAIL\n" : "PASS\n" );
    cds::Terminate();
    return rc;
}
