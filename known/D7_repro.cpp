// D7 reproducer: BronsonAVLTreeMap::update( key, val, /*bInsert=*/false ) inserts the key when the key's node is still in the tree as a
// routing node (erased while it had two children).  Contract: with bInsert == false only an existing key may be updated -> (false,false).
#include <cds/init.h>
#include <cds/urcu/general_buffered.h>
#include <cds/container/bronson_avltree_map_rcu.h>
#include <cstdio>

typedef cds::urcu::gc< cds::urcu::general_buffered<> > rcu_type;
struct traits: public cds::container::bronson_avltree::traits {
    typedef cds::atomicity::item_counter item_counter;
};
typedef cds::container::BronsonAVLTreeMap< rcu_type, int, int*, traits > map_type;

int main()
{
    cds::Initialize();
    int rc = 0;
    {
        rcu_type rcu;
        cds::threading::Manager::attachThread();
        {
            map_type m;
            int* v[8]; for (int i = 0; i < 8; ++i) v[i] = new int(i);
            // 2 becomes the root with two children (1 and 3)
            m.insert( 2, v[2] ); m.insert( 1, v[1] ); m.insert( 3, v[3] );
            bool erased = m.erase( 2 );                 // node 2 has two children: it stays as a routing node without value
            bool has = m.contains( 2 );
            auto r = m.update( 2, v[7], false );        // bInsert = false: key 2 is absent -> must be (false,false), map unchanged
            bool has2 = m.contains( 2 );
            printf( "erase(2)=%d contains(2)=%d; update(2, v, false) = (%d,%d); contains(2) afterwards = %d, size = %zu\n",
                    erased, has, r.first, r.second, has2, m.size());
            if ( !erased || has ) { printf( "precondition failed\n" ); rc = 2; }
            else if ( r.first || r.second || has2 || m.size() != 2 ) { printf( "FAIL: update with bInsert=false inserted an absent key\n" ); rc = 1; }
            else printf( "PASS\n" );
        }
        cds::threading::Manager::detachThread();
    }
    cds::Terminate();
    return rc;
}
