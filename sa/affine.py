"""E6 - affine normal forms over expression trees (DESIGN.md §3 E6).

An expression is normalised to  sum(coef * atom) + const  over the integers
(the uses here never rely on wrap-around).  Atoms are: fields of *this
(by name), parameters, and opaque sub-expressions (by text).  Const member
functions of the same class called on *this* whose body is a single return are
inlined.  Used only for agreement rules."""
from .dataflow import rdefs


class NotAffine(Exception):
    pass


def add(a, b, k=1):
    out = dict(a)
    for x, c in b.items():
        out[x] = out.get(x, 0) + k * c
        if out[x] == 0:
            del out[x]
    return out


def scale(a, k):
    return {x: c * k for x, c in a.items() if c * k != 0}


def const_of(a):
    if all(x == 1 for x in a):
        return a.get(1, 0)
    return None


class Affine:
    def __init__(self, db, subst=None, inline_depth=3):
        self.db = db
        self.subst = subst or {}     # atom -> affine dict
        self.inline_depth = inline_depth

    def atom(self, name):
        if name in self.subst:
            return dict(self.subst[name])
        return {name: 1}

    def norm(self, F, n, env=None, depth=0):
        """returns dict atom->coef with key 1 for the constant"""
        env = env or {}
        n = F.deref(n)
        if n is None:
            raise NotAffine("null")
        k = n.get("k")
        if "cv" in n and k not in ("ref", "member"):
            return {1: n["cv"]} if n["cv"] else {}
        if k in ("w", "defarg"):
            return self.norm(F, n["sub"], env, depth)
        if k == "cast":
            return self.norm(F, n["sub"], env, depth)
        if k == "lit":
            if "cv" in n:
                return {1: n["cv"]} if n["cv"] else {}
            raise NotAffine("literal")
        if k == "sizeof":
            return {1: n["cv"]}
        if k == "member":
            b = F.strip(n["base"])
            if "cv" in n:
                return {1: n["cv"]} if n["cv"] else {}
            if b is not None and b.get("k") == "this":
                return self.atom("this." + n["n"])
            return self.atom("(%s)" % F.text(n))
        if k == "ref":
            if "cv" in n:
                return {1: n["cv"]} if n["cv"] else {}
            if n["d"] in env:
                return dict(env[n["d"]])
            if n.get("dk") == "parm":
                return self.atom("param." + n["n"])
            if n.get("dk") == "local":
                ds = [d for d in rdefs(F).all_defs(n["d"]) if d.kind in ("init", "assign")]
                upd = [d for d in rdefs(F).all_defs(n["d"]) if d.kind in ("update", "maydef")]
                if len(ds) == 1 and not upd and ds[0].rhs is not None:
                    return self.norm(F, ds[0].rhs, env, depth)
            return self.atom("var." + n["n"])
        if k == "un":
            if n["op"] == "-":
                return scale(self.norm(F, n["sub"], env, depth), -1)
            if n["op"] == "+":
                return self.norm(F, n["sub"], env, depth)
            if n["op"] in ("&", "*"):
                return self.atom("(%s)" % F.text(n))
            raise NotAffine("unary " + n["op"])
        if k == "bin":
            op = n["op"]
            if op in ("+", "-"):
                a = self.norm(F, n["lhs"], env, depth)
                b = self.norm(F, n["rhs"], env, depth)
                return add(a, b, 1 if op == "+" else -1)
            if op == "*":
                a = self.norm(F, n["lhs"], env, depth)
                b = self.norm(F, n["rhs"], env, depth)
                ca, cb = const_of(a), const_of(b)
                if cb is not None:
                    return scale(a, cb)
                if ca is not None:
                    return scale(b, ca)
                raise NotAffine("product of two non-constants")
            if op == "<<":
                a = self.norm(F, n["lhs"], env, depth)
                cb = const_of(self.norm(F, n["rhs"], env, depth))
                if cb is not None:
                    return scale(a, 1 << cb)
            return self.atom("(%s)" % F.text(n))
        if k == "call":
            q = n.get("q", "")
            if n.get("mem") and not n.get("args") and depth < self.inline_depth:
                obj = F.strip(n.get("obj"))
                G = self.db.get(n.get("m"))
                if obj is not None and obj.get("k") == "this" and G is not None:
                    rets = [e for _, _, e in G.all_elements() if e.get("k") == "ret" and "v" in e]
                    if len(rets) == 1:
                        return self.norm(G, rets[0]["v"], {}, depth + 1)
            return self.atom("call(%s)" % F.text(n))
        return self.atom("(%s)" % F.text(n))


def fmt(a):
    parts = []
    for x in sorted((k for k in a if k != 1), key=str):
        parts.append("%+d*%s" % (a[x], x))
    if a.get(1):
        parts.append("%+d" % a[1])
    return " ".join(parts) or "0"
