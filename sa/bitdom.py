"""E5 - bit-provenance abstract interpretation (DESIGN.md §3 E5).

Abstract value: (width, bits) with bits[i] in
    0, 1, ('i', k)  = input bit k, ('n', k) = NOT input bit k,
    ('q', k) = "0 or input bit k" (subset), 'T' = unknown.
One symbolic integer input.  Decides a function for *all* inputs at once; any
construct outside the supported fragment yields 'T' bits, and a claimed
obligation with 'T' in a specified position is reported undecided, never passed.
"""
from .cfg import cfg_of
from .dataflow import local_ref

T = 'T'
X = 'X'   # definite boolean function of several input bits that is neither a constant nor a single (negated) input bit


class Undecided(Exception):
    pass


def const(w, v):
    return [(v >> i) & 1 for i in range(w)]


def inp(w, base=0):
    return [('i', base + i) for i in range(w)]


def top(w):
    return [T] * w


def is_known(b):
    return b == 0 or b == 1


def b_not(a):
    if a == X:
        return X
    if a == 0:
        return 1
    if a == 1:
        return 0
    if a == T:
        return T
    if a[0] == 'i':
        return ('n', a[1])
    if a[0] == 'n':
        return ('i', a[1])
    return T


def b_and(a, b):
    if a == 0 or b == 0:
        return 0
    if a == 1:
        return b
    if b == 1:
        return a
    if a == X or b == X:
        return T
    if a == b:
        return a
    if a == T and b == T:
        return T
    for x, y in ((a, b), (b, a)):
        if x != T and y != T:
            if x[1] == y[1]:
                kinds = {x[0], y[0]}
                if kinds == {'i', 'n'}:
                    return 0
                if kinds == {'i', 'q'} or kinds == {'q'}:
                    return ('q', x[1])
                if kinds == {'n', 'q'}:
                    return 0
            return T
    # one is T
    x = a if b == T else b
    if x[0] in ('i', 'q'):
        return ('q', x[1])
    return T


def b_or(a, b):
    if a == 1 or b == 1:
        return 1
    if a == 0:
        return b
    if b == 0:
        return a
    if a == X or b == X:
        return T
    if a == b:
        return a
    if a == T or b == T:
        return T
    if a[1] == b[1]:
        kinds = {a[0], b[0]}
        if kinds == {'i', 'n'}:
            return 1
        if kinds == {'i', 'q'}:
            return ('i', a[1])
    return T


def b_xor(a, b):
    if a == 0:
        return b
    if b == 0:
        return a
    if a == 1:
        return b_not(b)
    if b == 1:
        return b_not(a)
    if a == T or b == T or a == X or b == X:
        return T
    if a == b and a[0] in ('i', 'n'):
        return 0
    if a[1] == b[1] and {a[0], b[0]} == {'i', 'n'}:
        return 1
    return T


def join(a, b):
    if a == b:
        return a
    if a == T or b == T or a == X or b == X:
        return T
    for x, y in ((a, b), (b, a)):
        if x == 0 and y != 1 and y[0] in ('i', 'q'):
            return ('q', y[1])
        if x != 0 and x != 1 and y != 0 and y != 1 and x[1] == y[1] and {x[0], y[0]} == {'i', 'q'}:
            return ('q', x[1])
    return T


def v_and(a, b):
    return [b_and(x, y) for x, y in zip(a, b)]


def v_or(a, b):
    return [b_or(x, y) for x, y in zip(a, b)]


def v_xor(a, b):
    return [b_xor(x, y) for x, y in zip(a, b)]


def v_not(a):
    return [b_not(x) for x in a]


def v_const(a):
    if all(is_known(x) for x in a):
        return sum(x << i for i, x in enumerate(a))
    return None


def v_shl(a, n):
    w = len(a)
    if n >= w:
        return [0] * w
    return [0] * n + a[:w - n]


def v_shr(a, n, signed=False):
    w = len(a)
    fill = a[-1] if signed else 0
    if n >= w:
        return [fill] * w
    return a[n:] + [fill] * n


def v_add(a, b):
    """ripple-carry addition in the bit domain: exact whenever every sum/carry bit stays a constant or a
    single (negated) input bit - in particular when no carry can occur; other bits become unknown"""
    w = len(a)
    ca, cb = v_const(a), v_const(b)
    if ca is not None and cb is not None:
        return const(w, (ca + cb) & ((1 << w) - 1))
    out = []
    c = 0
    for x, y in zip(a, b):
        xy = b_xor(x, y)
        out.append(b_xor(xy, c))
        c = b_or(b_and(x, y), b_and(c, xy))
    return out


def v_neg(a):
    w = len(a)
    return v_add(v_not(a), const(w, 1))


def v_sub(a, b):
    w = len(a)
    ca, cb = v_const(a), v_const(b)
    if ca is not None and cb is not None:
        return const(w, (ca - cb) & ((1 << w) - 1))
    if cb == 0:
        return list(a)
    return top(w)


def v_mul(a, b):
    w = len(a)
    ca, cb = v_const(a), v_const(b)
    if ca is not None and cb is not None:
        return const(w, (ca * cb) & ((1 << w) - 1))
    if ca is not None:
        a, b, ca, cb = b, a, cb, ca
    if cb is None:
        return top(w)
    acc = const(w, 0)
    for j in range(w):
        if (cb >> j) & 1:
            acc = v_add(acc, v_shl(a, j))
    return acc


def v_mod(a, m):
    """x % m for m = 2^k - 1 by digit folding when the k-bit digits have
    disjoint possibly-set positions and fewer than k bits may be set"""
    w = len(a)
    ca = v_const(a)
    if ca is not None and m:
        return const(w, ca % m)
    k = (m + 1).bit_length() - 1
    if m <= 0 or (1 << k) - 1 != m:
        return top(w)
    digit = [0] * k
    possibly = 0
    for i, x in enumerate(a):
        if x == 0:
            continue
        pos = i % k
        if digit[pos] != 0:
            return top(w)          # two digits may both contribute: carries possible
        digit[pos] = x
        possibly += 1
    if possibly >= k:
        return top(w)              # the folded value could be exactly m (m % m == 0)
    return digit + [0] * (w - k)


def v_cast(a, w, src_signed):
    if w <= len(a):
        return a[:w]
    fill = a[-1] if src_signed else 0
    return a + [fill] * (w - len(a))


class BitInterp:
    """evaluate one function of the facts DB in the bit domain"""

    def __init__(self, db, max_depth=6, fields=None, hook=None):
        self.db = db
        self.max_depth = max_depth
        self.inlined = []
        self.fields = dict(fields or {})     # this->name -> bit vector
        self.hook = hook                     # hook(F, call node, arg vectors) -> vector or None

    def run(self, F, args, depth=0):
        """args: list of bit vectors for the parameters; returns result vector"""
        if depth > self.max_depth:
            raise Undecided("inlining depth exceeded at %s" % F.q)
        if depth == 0:
            self.top_cls = F.cls
        cfg = cfg_of(F)
        if cfg.back_edges():
            raise Undecided("%s contains a loop (data-dependent trip count is outside the domain)" % F.q)
        env_in = {}
        env0 = {}
        for p, a in zip(F.params, args):
            env0[p["d"]] = a
        env_in[F.entry] = env0
        order = sorted(cfg.live_blocks(), reverse=True)   # clang numbers blocks in reverse topological order
        result = None
        self.statics = {}
        for b in order:
            if b not in env_in:
                continue
            env = dict(env_in[b])
            memo = {}
            blk = F.blocks[b]
            for e in blk.elems:
                k = e.get("k")
                if k == "asm":
                    raise Undecided("%s contains inline asm" % F.q)
                if k == "ret":
                    v = self.val(F, e["v"], env, memo, depth) if "v" in e else None
                    result = v if result is None else [join(x, y) for x, y in zip(result, v)]
                    continue
                # only statements with effects are executed eagerly; every other
                # element is evaluated on demand when its parent needs it
                if k == "decl" or (k == "bin" and e.get("op", "").endswith("=") and e["op"] not in ("==", "!=", "<=", ">=")) \
                        or (k == "un" and e.get("op") in ("++", "--")):
                    if k == "un":
                        raise Undecided("%s: increment/decrement" % F.q)
                    v = self.exec(F, e, env, memo, depth)
                    if "id" in e and v is not None:
                        memo[e["id"]] = v
            for s in blk.real_succ():
                if s in env_in:
                    old = env_in[s]
                    merged = {}
                    for var in set(old) | set(env):
                        if var in old and var in env and isinstance(old[var], list) and isinstance(env[var], list) \
                                and len(old[var]) == len(env[var]):
                            merged[var] = [join(x, y) for x, y in zip(old[var], env[var])]
                        elif var in old and var in env and old[var] == env[var]:
                            merged[var] = old[var]
                    env_in[s] = merged
                else:
                    env_in[s] = dict(env)
        if result is None:
            raise Undecided("%s: no return value computed" % F.q)
        return result

    def width(self, n):
        return n.get("iw")

    def exec(self, F, e, env, memo, depth):
        k = e.get("k")
        if k == "decl":
            for v in e["vars"]:
                if v.get("static") and "init" in v:
                    self.statics[v["d"]] = (F, v["init"])
                    env[v["d"]] = ("table", F, v["init"])
                elif "init" in v:
                    env[v["d"]] = self.val(F, v["init"], env, memo, depth)
            return None
        if k == "bin" and e.get("op", "").endswith("=") and e["op"] not in ("==", "!=", "<=", ">="):
            d = local_ref(F, e["lhs"])
            rhs = self.val(F, e["rhs"], env, memo, depth)
            if e["op"] != "=":
                old = self.val(F, e["lhs"], env, memo, depth)
                w = e.get("cw") or len(old)
                res = self.binop(e["op"][:-1], v_cast(old, w, bool(F.deref(e["lhs"]).get("is"))), v_cast(rhs, w, False), False)
                rhs = v_cast(res, len(old), False)
            if d is None:
                l = F.strip(e["lhs"])
                if l.get("k") == "member" and F.strip(l["base"]).get("k") == "this" and F.cls == self.top_cls:
                    self.fields[l["n"]] = rhs
                    return rhs
                raise Undecided("%s: store to a non-local lvalue" % F.q)
            env[d] = rhs
            return rhs
        return self.val(F, e, env, memo, depth)

    def val(self, F, n, env, memo, depth):
        if n is None:
            raise Undecided("missing expression")
        if "r" in n and "k" not in n:
            if n["r"] in memo:
                return memo[n["r"]]
            n = F.elems[n["r"]]
        k = n.get("k")
        if "id" in n and n["id"] in memo:
            return memo[n["id"]]
        w = n.get("iw")
        if "cv" in n and w and k != "ref":
            return const(w, n["cv"] & ((1 << w) - 1))
        if "cvs" in n and w:
            return const(w, int(n["cvs"]) & ((1 << w) - 1))
        if k in ("w", "defarg"):
            return self.val(F, n["sub"], env, memo, depth)
        if k == "ref":
            if n["d"] in env:
                return env[n["d"]]
            if "cv" in n and w:
                return const(w, n["cv"])
            raise Undecided("%s: read of unknown variable %s" % (F.q, n["n"]))
        if k == "member":
            base = F.strip(n["base"])
            if base is not None and base.get("k") == "this" and n["n"] in self.fields and F.cls == self.top_cls:
                return self.fields[n["n"]]
            if "cv" in n and w:
                return const(w, n["cv"])
            raise Undecided("%s: read of member %s" % (F.q, n.get("n")))
        if k == "cast":
            v = self.val(F, n["sub"], env, memo, depth)
            if isinstance(v, tuple):
                return v     # array-to-pointer decay of a table
            if not w:
                return v
            src = F.deref(n["sub"])
            return v_cast(v, w, bool(src.get("is")))
        if k == "un":
            op = n["op"]
            v = self.val(F, n["sub"], env, memo, depth)
            if op == "~":
                return v_not(v)
            if op == "-":
                return v_neg(v)
            if op == "+":
                return v
            if op == "!":
                return top(w or 1)
            raise Undecided("%s: unary %s" % (F.q, op))
        if k == "bin":
            op = n["op"]
            a = self.val(F, n["lhs"], env, memo, depth)
            b = self.val(F, n["rhs"], env, memo, depth)
            signed = bool(F.deref(n["lhs"]).get("is"))
            return self.binop(op, a, b, signed, w)
        if k == "cond":
            a = self.val(F, n["a"], env, memo, depth)
            b = self.val(F, n["b"], env, memo, depth)
            return [join(x, y) for x, y in zip(a, b)]
        if k == "subscript":
            base = self.val(F, n["base"], env, memo, depth)
            idx = self.val(F, n["idx"], env, memo, depth)
            if isinstance(base, tuple) and base[0] == "table":
                return self.lookup(base[1], base[2], idx, w)
            raise Undecided("%s: subscript of a non-constant array" % F.q)
        if k == "call":
            return self.call(F, n, env, memo, depth)
        if k == "ctor" and not n.get("args"):
            return ("obj",)
        raise Undecided("%s: unsupported expression kind %s at line %s" % (F.q, k, n.get("l")))

    def binop(self, op, a, b, signed, w=None):
        if isinstance(a, tuple) or isinstance(b, tuple):
            raise Undecided("arithmetic on non-integer value")
        if op in ("<<", ">>"):
            cb = v_const(b)
            if cb is None:
                # shift by an unknown amount: a one-hot/unknown pattern
                return top(len(a))
            return v_shl(a, cb) if op == "<<" else v_shr(a, cb, signed)
        if len(a) != len(b):
            m = max(len(a), len(b))
            a, b = v_cast(a, m, False), v_cast(b, m, False)
        if op == "&":
            return v_and(a, b)
        if op == "|":
            return v_or(a, b)
        if op == "^":
            return v_xor(a, b)
        if op == "+":
            return v_add(a, b)
        if op == "-":
            return v_sub(a, b)
        if op == "*":
            return v_mul(a, b)
        if op == "%":
            cb = v_const(b)
            if cb is None:
                return top(len(a))
            return v_mod(a, cb)
        if op == ",":
            return b
        return top(w or len(a))

    def lookup(self, F, init, idx, w):
        """table[idx]: per output bit, find the index bit it copies (over all entries)"""
        init = F.strip(init)
        if init.get("k") != "initlist":
            raise Undecided("table initialiser is not a constant list")
        vals = []
        for a in init["args"]:
            a = F.deref(a)
            v = None
            x = a
            for _ in range(6):
                if "cv" in x:
                    v = x["cv"]
                    break
                if x.get("k") in ("cast", "w"):
                    x = F.deref(x["sub"])
                else:
                    break
            if v is None:
                raise Undecided("non-constant table entry")
            vals.append(v)
        n = len(vals)
        nb = (n - 1).bit_length()
        if 1 << nb != n:
            raise Undecided("table size %d is not a power of two" % n)
        # index bits above nb must be 0
        for x in idx[nb:]:
            if x != 0:
                raise Undecided("table index may exceed the table")
        w = w or 8
        out = []
        for j in range(w):
            col = [(v >> j) & 1 for v in vals]
            if all(c == 0 for c in col):
                out.append(0)
                continue
            if all(c == 1 for c in col):
                out.append(1)
                continue
            found = None
            for m in range(nb):
                if all(col[i] == ((i >> m) & 1) for i in range(n)):
                    found = idx[m]
                    break
                if all(col[i] == 1 - ((i >> m) & 1) for i in range(n)):
                    found = b_not(idx[m])
                    break
            if found is None:
                pure = [x for x in idx[:nb] if x not in (0, 1, T, X) and x[0] == 'i']
                distinct = len(pure) == nb and len(set(p[1] for p in pure)) == nb
                found = X if distinct else T
            out.append(found)
        return out

    def call(self, F, n, env, memo, depth):
        q = n.get("q")
        if self.hook is not None:
            r = self.hook(F, n, None)
            if r is not None:
                return r
        args = [self.val(F, a, env, memo, depth) for a in n.get("args", [])]
        if q in ("cds::details::size_t_cast",) and len(args) == 1:
            return args[0]
        G = self.db.get(n.get("m"))
        if G is None:
            raise Undecided("%s: callee %s has no body in the parsed units" % (F.q, q))
        if len(G.params) != len(args):
            raise Undecided("%s: call arity mismatch for %s" % (F.q, q))
        for a in args:
            if isinstance(a, tuple):
                raise Undecided("non-integer argument")
        self.inlined.append(G.q)
        saved = self.statics
        r = BitInterp.run(self, G, args, depth + 1)
        self.statics = saved
        return r


def fmt(v):
    out = []
    for i, b in enumerate(v):
        if b == 0 or b == 1:
            out.append(str(b))
        elif b == T:
            out.append("?")
        elif b == X:
            out.append("#")
        else:
            out.append("%s%d" % ({'i': 'x', 'n': '!x', 'q': 'x?'}[b[0]], b[1]))
    return "[" + " ".join(out) + "]"
