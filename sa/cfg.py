"""CFG utilities over facts.Func: dominance, reachability, edge guards,
reaching definitions, acyclic path enumeration."""
from collections import deque


class PathBoundExceeded(Exception):
    pass


def _doms(nodes, preds, root):
    """iterative dominator sets"""
    dom = {n: None for n in nodes}
    dom[root] = {root}
    order = list(nodes)
    changed = True
    while changed:
        changed = False
        for n in order:
            if n == root:
                continue
            ps = [dom[p] for p in preds(n) if dom.get(p) is not None]
            if not ps:
                continue
            new = set.intersection(*ps) | {n}
            if dom[n] != new:
                dom[n] = new
                changed = True
    return dom


class CFG:
    def __init__(self, F):
        self.F = F
        self.blocks = F.blocks
        self._dom = None
        self._pdom = None
        self._reach = {}
        self._back = None

    def succ(self, b):
        return self.blocks[b].real_succ()

    def pred(self, b):
        return self.blocks[b].preds

    # ----- reachability ---------------------------------------------------
    def reachable_from(self, b, cut_edges=(), cut_blocks=()):
        seen = set()
        if b in cut_blocks:
            return seen
        dq = deque([b])
        seen.add(b)
        cut_edges = set(cut_edges)
        cut_blocks = set(cut_blocks)
        while dq:
            x = dq.popleft()
            for s in self.succ(x):
                if (x, s) in cut_edges or s in cut_blocks or s in seen:
                    continue
                seen.add(s)
                dq.append(s)
        return seen

    def live_blocks(self):
        if "live" not in self._reach:
            self._reach["live"] = self.reachable_from(self.F.entry)
        return self._reach["live"]

    # ----- dominance --------------------------------------------------------
    def dom(self):
        if self._dom is None:
            live = self.live_blocks()
            self._dom = _doms(sorted(live, reverse=True),
                              lambda n: [p for p in self.pred(n) if p in live], self.F.entry)
        return self._dom

    def pdom(self):
        """post-dominators w.r.t. the function exit; blocks that cannot reach
        the exit (noreturn/abort) are ignored"""
        if self._pdom is None:
            # nodes that can reach exit
            can = set()
            dq = deque([self.F.exit])
            can.add(self.F.exit)
            while dq:
                x = dq.popleft()
                for p in self.pred(x):
                    if p not in can:
                        can.add(p)
                        dq.append(p)
            self._can_exit = can
            self._pdom = _doms(sorted(can), lambda n: [s for s in self.succ(n) if s in can], self.F.exit)
        return self._pdom

    def block_dominates(self, a, b):
        d = self.dom().get(b)
        return d is not None and a in d

    def site_dominates(self, sa, sb):
        """site = (block, index): every entry->sb path passes sa first"""
        if sa[0] == sb[0]:
            return sa[1] <= sb[1]
        return self.block_dominates(sa[0], sb[0])

    def site_postdominates(self, sa, sb):
        """every path from sb to the normal exit passes sa"""
        if sa[0] == sb[0] and sa[1] >= sb[1]:
            return True
        pd = self.pdom().get(sb[0])
        if pd is None:
            return True   # sb cannot reach the exit at all
        return sa[0] in pd and sa[0] != sb[0]

    # ----- back edges -------------------------------------------------------
    def back_edges(self):
        if self._back is None:
            dom = self.dom()
            be = set()
            for b in self.live_blocks():
                for s in self.succ(b):
                    if dom.get(b) and s in dom[b]:
                        be.add((b, s))
            self._back = be
        return self._back

    def loops(self):
        """natural loops: header -> set of blocks"""
        res = {}
        for (t, h) in self.back_edges():
            body = res.setdefault(h, {h})
            st = [t]
            while st:
                x = st.pop()
                if x in body:
                    continue
                body.add(x)
                st.extend(self.pred(x))
        return res

    # ----- guards -----------------------------------------------------------
    def cond_edges(self, b):
        """for a two-way conditional block: (true_succ, false_succ) using
        possibly-pruned successors too"""
        blk = self.blocks[b]
        if len(blk.succ) != 2:
            return None
        return blk.succ[0], blk.succ[1]

    def guarded_by_edge(self, target_block, edge, acyclic=False):
        """every entry->target path takes `edge` (a (from,to) pair)"""
        cut = {edge}
        if acyclic:
            cut |= self.back_edges()
        return target_block not in self.reachable_from(self.F.entry, cut_edges=cut)

    def guards_of(self, site):
        """list of (block, outcome index, term) such that every entry->site
        path takes successor #outcome of that block's terminator"""
        res = []
        tb = site[0]
        for b, blk in self.blocks.items():
            if len(blk.succ) < 2 or not blk.term or b not in self.live_blocks():
                continue
            for i, s in enumerate(blk.succ):
                if s is None or s < 0:
                    continue
                # every path must take edge (b, s): remove all *other* edges... no:
                # the site must be unreachable when edge (b,s) is removed
                if tb == b:
                    continue
                # multi-edges to the same successor: removing (b,s) removes all of them
                if sum(1 for x in blk.succ if x == s) > 1:
                    continue
                if tb not in self.reachable_from(self.F.entry, cut_edges={(b, s)}):
                    res.append((b, i, blk.term))
        return res

    # ----- path enumeration -------------------------------------------------
    def paths(self, start, stops=None, bound=4096, cut_back=True, region=None):
        """acyclic block paths from `start`; a path ends at the exit block, at
        a block in `stops` (included) or at a dead end (noreturn).  With
        cut_back the loop back edges are not followed (path ends with marker
        ('back', header))."""
        stops = set(stops or ())
        back = self.back_edges() if cut_back else set()
        out = []
        stack = [(start, (start,))]
        while stack:
            b, path = stack.pop()
            if b == self.F.exit or (b in stops and len(path) > 1):
                out.append(path)
                if len(out) > bound:
                    raise PathBoundExceeded("%s: more than %d paths" % (self.F.q, bound))
                continue
            succs = self.succ(b)
            nxt = []
            for s in succs:
                if region is not None and s not in region:
                    nxt.append(("leave", s))
                elif (b, s) in back:
                    nxt.append(("back", s))
                elif s in path:
                    nxt.append(("back", s))
                else:
                    nxt.append(s)
            if not nxt:
                out.append(path + (("dead", b),))
                continue
            for s in nxt:
                if isinstance(s, tuple):
                    out.append(path + (s,))
                    if len(out) > bound:
                        raise PathBoundExceeded("%s: more than %d paths" % (self.F.q, bound))
                else:
                    stack.append((s, path + (s,)))
        return out


def cfg_of(F):
    c = F._cache.get("cfg")
    if c is None:
        c = CFG(F)
        F._cache["cfg"] = c
    return c
