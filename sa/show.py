"""debug helper: python3 -m sa.show <tu glob> <name regex> [--files RE] [--debug-build]"""
import sys, re
from . import run

def main():
    tu = sys.argv[1]
    rx = sys.argv[2]
    files = "^%s/(cds|src)/|^%s/drivers/" % (run.REPO, run.VERIF)
    release = True
    if "--debug-build" in sys.argv:
        release = False
    if "--files" in sys.argv:
        files = sys.argv[sys.argv.index("--files") + 1]
    db, info = run.extract([tu], files, rx, release=release)
    print(info)
    for f in db.funcs.values():
        print(f.dump())
        print()

main()
