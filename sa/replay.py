"""python3 -m sa.replay <violation.json>: re-evaluate the rule named in a
violation file on /repo's current tree and print the offending construct"""
import json
import os
import sys

sys.path.insert(0, os.path.dirname(os.path.dirname(os.path.abspath(__file__))))
from sa import engine


def main():
    v = json.load(open(sys.argv[1]))
    print("replaying rule %s of %s (function %s)" % (v["rule"], v["property"], v["function"]))
    print("recorded: %s: %s" % (v["site"], v["what"]))
    if v.get("detail"):
        print("          %s" % v["detail"])
    site = v.get("site") or ""
    if ":" in site:
        f, _, l = site.rpartition(":")
        try:
            l = int(l)
            lines = open(f).read().splitlines()
            for i in range(max(0, l - 4), min(len(lines), l + 3)):
                print("%s%5d| %s" % (">" if i + 1 == l else " ", i + 1, lines[i]))
        except (OSError, ValueError):
            pass
    return engine.run_property(v["property"], v.get("tier", "quick"), only_rule=v["rule"])


if __name__ == "__main__":
    sys.exit(main())
