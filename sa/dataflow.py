"""Reaching definitions of locals/params and value-origin ("roots") chase."""
from .cfg import cfg_of

ASSIGN_OPS = {"=", "+=", "-=", "*=", "/=", "%=", "&=", "|=", "^=", "<<=", ">>="}


def local_ref(F, n):
    """decl id if n (stripped) is a reference to a local/param, else None"""
    n = F.strip(n)
    if isinstance(n, dict) and n.get("k") == "ref" and n.get("dk") in ("local", "parm", "slocal"):
        return n["d"]
    return None


def addr_of_local(F, n):
    n = F.strip(n)
    if isinstance(n, dict) and n.get("k") == "un" and n.get("op") == "&":
        return local_ref(F, n["sub"])
    return None


class Def:
    __slots__ = ("var", "site", "kind", "rhs", "node")

    def __init__(self, var, site, kind, rhs, node):
        self.var = var
        self.site = site
        self.kind = kind      # init / assign / update (x op= .., ++x) / maydef (passed by ref) / param / uninit
        self.rhs = rhs
        self.node = node

    def __repr__(self):
        return "Def(%s@%s %s)" % (self.var, self.site, self.kind)


def defs_in_element(F, e):
    """definitions performed by one CFG element (shallow: the element itself)"""
    out = []
    k = e.get("k")
    site = e.get("_site")
    if k == "decl":
        for v in e["vars"]:
            if "init" in v:
                out.append(Def(v["d"], site, "init", v["init"], e))
            else:
                out.append(Def(v["d"], site, "uninit", None, e))
    elif k == "bin" and e.get("op") in ASSIGN_OPS:
        d = local_ref(F, e["lhs"])
        if d is not None:
            out.append(Def(d, site, "assign" if e["op"] == "=" else "update", e["rhs"], e))
    elif k == "un" and e.get("op") in ("++", "--"):
        d = local_ref(F, e["sub"])
        if d is not None:
            out.append(Def(d, site, "update", None, e))
    elif k == "call":
        if e.get("mem") and e.get("op") in ASSIGN_OPS | {"++", "--"}:
            d = local_ref(F, e.get("obj"))
            if d is not None:
                args = e.get("args", [])
                out.append(Def(d, site, "assign" if e["op"] == "=" else "update", args[0] if (args and e["op"] == "=") else None, e))
        for d in written_locals(F, e):
            out.append(Def(d, site, "maydef", None, e))
    elif k == "ctor":
        for d in written_locals(F, e):
            out.append(Def(d, site, "maydef", None, e))
    return out


def written_locals(F, e):
    """locals a call may overwrite: bound to a non-const reference parameter,
    or whose address is passed as pointer to non-const"""
    res = []
    args = e.get("args", [])
    for i in e.get("nc", []):
        if i < len(args):
            d = local_ref(F, args[i])
            if d is not None:
                res.append(d)
    for i in e.get("ncp", []):
        if i < len(args):
            d = addr_of_local(F, args[i])
            if d is None:
                d = decayed_local_array(F, args[i])
            if d is not None:
                res.append(d)
    return res


def decayed_local_array(F, n):
    """decl id of a local array passed as pointer (array-to-pointer decay)"""
    for _ in range(6):
        n = F.deref(n)
        if not isinstance(n, dict):
            return None
        if n.get("k") == "cast":
            if n.get("ck") == "ArrayToPointerDecay":
                return local_ref(F, n["sub"])
            n = n["sub"]
            continue
        if n.get("k") == "w":
            n = n["sub"]
            continue
        return None
    return None


class ReachingDefs:
    def __init__(self, F):
        self.F = F
        self.cfg = cfg_of(F)
        self.block_defs = {}   # block -> list of (idx, Def) in order
        allvars = set()
        for bid, blk in F.blocks.items():
            lst = []
            for i, e in enumerate(blk.elems):
                for d in defs_in_element(F, e):
                    lst.append((i, d))
                    allvars.add(d.var)
            self.block_defs[bid] = lst
        self.param_defs = {}
        for p in F.params:
            self.param_defs[p["d"]] = Def(p["d"], (F.entry, -1), "param", None, p)
            allvars.add(p["d"])
        # dataflow: IN[b] = dict var -> frozenset(defs)
        self.IN = {b: {} for b in F.blocks}
        self.OUT = {b: {} for b in F.blocks}
        entry_state = {v: frozenset([d]) for v, d in self.param_defs.items()}
        work = list(sorted(self.cfg.live_blocks(), reverse=True))
        inq = set(work)
        while work:
            b = work.pop(0)
            inq.discard(b)
            if b == F.entry:
                st = dict(entry_state)
            else:
                st = {}
                for p in F.blocks[b].preds:
                    for v, ds in self.OUT[p].items():
                        if v in st:
                            st[v] = st[v] | ds
                        else:
                            st[v] = ds
            self.IN[b] = st
            out = dict(st)
            for i, d in self.block_defs[b]:
                if d.kind == "maydef":
                    out[d.var] = out.get(d.var, frozenset()) | frozenset([d])
                else:
                    out[d.var] = frozenset([d])
            if out != self.OUT[b]:
                self.OUT[b] = out
                for s in self.cfg.succ(b):
                    if s not in inq:
                        inq.add(s)
                        work.append(s)

    def at(self, var, site):
        """definitions of var reaching (just before) site=(block, idx)"""
        b, idx = site
        cur = self.IN[b].get(var, frozenset())
        for i, d in self.block_defs[b]:
            if i >= idx:
                break
            if d.var != var:
                continue
            if d.kind == "maydef":
                cur = cur | frozenset([d])
            else:
                cur = frozenset([d])
        return cur

    def all_defs(self, var):
        res = []
        for b, lst in self.block_defs.items():
            for i, d in lst:
                if d.var == var:
                    res.append(d)
        if var in self.param_defs:
            res.append(self.param_defs[var])
        return res


def rdefs(F):
    r = F._cache.get("rdefs")
    if r is None:
        r = ReachingDefs(F)
        F._cache["rdefs"] = r
    return r


def is_loop_carried(F, var):
    """var has an 'update' def (++x, x += ..) or more than one assigning def"""
    ds = [d for d in rdefs(F).all_defs(var)]
    if any(d.kind in ("update",) for d in ds):
        return True
    real = [d for d in ds if d.kind in ("init", "assign", "param", "maydef")]
    return len(real) > 1


def roots(F, node, site=None, expand_loop_vars=False, _seen=None, depth=0):
    """Set of leaf descriptors the value of `node` is built from, after
    expanding single-definition locals through their initialisers.
    Descriptors: ('var', declid, name) for params / multi-def locals,
    ('this',), ('call', q, text), ('member', text), ('lit', v), ('global', q).
    Member selection, casts, address-of/deref, arithmetic with constants and
    pointer projections are transparent."""
    if _seen is None:
        _seen = set()
    out = set()
    n = F.strip(node)
    if not isinstance(n, dict) or depth > 30:
        return out
    k = n.get("k")
    if site is None:
        site = F.site_of(n) or site
    if k == "ref":
        dk = n.get("dk")
        if dk in ("local", "parm", "slocal"):
            var = n["d"]
            if dk == "parm":
                return {("var", var, n["n"])}
            if not expand_loop_vars and is_loop_carried(F, var):
                return {("var", var, n["n"])}
            if var in _seen:
                return {("var", var, n["n"])}
            use_site = F.site_of(n) or site
            ds = rdefs(F).at(var, use_site) if use_site else frozenset(rdefs(F).all_defs(var))
            if not ds:
                ds = frozenset(rdefs(F).all_defs(var))
            res = set()
            for d in ds:
                if d.kind in ("init", "assign") and d.rhs is not None:
                    res |= roots(F, d.rhs, d.site, expand_loop_vars, _seen | {var}, depth + 1)
                else:
                    res.add(("var", var, n["n"]))
            return res
        if dk == "enum":
            return {("lit", n.get("cv", n.get("q")))}
        return {("global", n.get("q", n["n"]))}
    if k == "this":
        return {("this",)}
    if k == "lit" or k == "sizeof":
        return {("lit", n.get("cv", "null" if n.get("null") else "?"))}
    if k == "member":
        base = roots(F, n["base"], site, expand_loop_vars, _seen, depth + 1)
        return {("member", r, n["n"]) for r in base} if base else {("member", None, n["n"])}
    if k == "un":
        return roots(F, n["sub"], site, expand_loop_vars, _seen, depth + 1)
    if k == "cast":
        return roots(F, n["sub"], site, expand_loop_vars, _seen, depth + 1)
    if k == "bin":
        if n["op"] == ",":
            return roots(F, n["rhs"], site, expand_loop_vars, _seen, depth + 1)
        l = roots(F, n["lhs"], site, expand_loop_vars, _seen, depth + 1)
        r = roots(F, n["rhs"], site, expand_loop_vars, _seen, depth + 1)
        if n["op"] in ASSIGN_OPS:
            return r if n["op"] == "=" else l | r
        return {x for x in (l | r) if x[0] != "lit"} or (l | r)
    if k == "cond":
        return roots(F, n["a"], site, expand_loop_vars, _seen, depth + 1) | \
            roots(F, n["b"], site, expand_loop_vars, _seen, depth + 1)
    if k == "subscript":
        base = roots(F, n["base"], site, expand_loop_vars, _seen, depth + 1)
        idx = roots(F, n["idx"], site, expand_loop_vars, _seen, depth + 1)
        return {("elem", b, frozenset(idx)) for b in base}
    if k == "call":
        q = n.get("q", "?")
        obj = ()
        if n.get("mem") and "obj" in n:
            obj = frozenset(roots(F, n["obj"], site, expand_loop_vars, _seen, depth + 1))
        args = tuple(frozenset(roots(F, a, site, expand_loop_vars, _seen, depth + 1))
                     for a in n.get("args", []))
        return {("call", q, obj, args)}
    if k == "ctor":
        args = n.get("args", [])
        if len(args) == 1:
            return roots(F, args[0], site, expand_loop_vars, _seen, depth + 1)
        return {("ctor", n.get("q"), tuple(frozenset(roots(F, a, site, expand_loop_vars, _seen, depth + 1)) for a in args))}
    if k == "new":
        return {("new", n.get("at"), n.get("l"))}
    if k == "initlist" and len(n.get("args", [])) == 1:
        return roots(F, n["args"][0], site, expand_loop_vars, _seen, depth + 1)
    return {("expr", F.text(n))}


def root_vars(rootset):
    """decl ids of the variables at the leaves of a roots() result"""
    out = set()

    def rec(r):
        if not isinstance(r, tuple):
            return
        if r and r[0] == "var":
            out.add(r[1])
            return
        for x in r:
            if isinstance(x, tuple):
                rec(x)
            elif isinstance(x, frozenset):
                for y in x:
                    rec(y)
    for r in rootset:
        rec(r)
    return out
