"""python3 -m sa.check <property> [--tier quick|thorough] [--rule Rxx.y]"""
import os
import sys

sys.path.insert(0, os.path.dirname(os.path.dirname(os.path.abspath(__file__))))
from sa import engine


def main():
    args = sys.argv[1:]
    if not args:
        print(__doc__)
        return 2
    prop = args[0]
    tier = os.environ.get("VERIF_TIER", "quick")
    rule = None
    if "--tier" in args:
        tier = args[args.index("--tier") + 1]
    if "--rule" in args:
        rule = args[args.index("--rule") + 1]
    if tier not in ("quick", "thorough"):
        tier = "quick"
    return engine.run_property(prop, tier, only_rule=rule)


if __name__ == "__main__":
    sys.exit(main())
