"""Lane domain: abstract interpretation of SWAR ("SIMD within a register") arithmetic over one fully symbolic input.

A value of width W is an exact integer sum of *lanes*.  A lane is (s, form): the quantity form * 2**s where form is an affine expression
c + sum(coef_i * b_i) over the input bits b_i (independent 0/1 unknowns) with 0 <= min(form), and the lane occupies the bit range
[s, s + bitlength(max(form))).  Lanes of one value have pairwise disjoint ranges inside [0, W).  Because the input bits are independent,
min and max of a form are attained, so "the field can reach 16 but only 4 bits are kept" is a definite loss (LaneOverflow), not a may-alarm.

Exact transfer functions: add / sub (lanes merged where ranges overlap; a lane that could go negative borrows from the next higher lane),
mask / shift / truncate (a lane must lie entirely inside or outside the cut, unless each of its bits is a single input bit - then it is split;
a cut through the *reachable* high bits of a summed lane is LaneOverflow; any other partial cut is Undecided), multiplication by a constant
(shifted sum).  Everything else is Undecided - the obligation then fails as 'analysis broken' rather than passing or alarming."""
from .bitdom import BitInterp, Undecided


class LaneOverflow(Exception):
    pass


class Form:
    __slots__ = ("c", "t")

    def __init__(self, c=0, t=None):
        self.c = c
        self.t = dict((k, v) for k, v in (t or {}).items() if v != 0)

    def max(self):
        return self.c + sum(v for v in self.t.values() if v > 0)

    def min(self):
        return self.c + sum(v for v in self.t.values() if v < 0)

    def scaled(self, k):
        return Form(self.c * k, dict((b, v * k) for b, v in self.t.items()))

    def plus(self, o):
        t = dict(self.t)
        for b, v in o.t.items():
            t[b] = t.get(b, 0) + v
        return Form(self.c + o.c, t)

    def bit_exact(self):
        """every bit position of the lane is one input bit: distinct powers of two, no constant"""
        if self.c != 0:
            return False
        seen = set()
        for v in self.t.values():
            if v <= 0 or v & (v - 1) or v in seen:
                return False
            seen.add(v)
        return True

    def key(self):
        return (self.c, tuple(sorted(self.t.items())))

    def __repr__(self):
        parts = ([str(self.c)] if self.c else []) + ["%s%sb%d" % ("+" if v > 0 else "-", "" if abs(v) == 1 else "%d*" % abs(v), b) for b, v in sorted(self.t.items())]
        return " ".join(parts) or "0"


def _nbits(f):
    return max(f.max(), 0).bit_length()


class LV:
    """lane value"""
    __slots__ = ("w", "lanes")

    def __init__(self, w, lanes):
        self.w = w
        self.lanes = _normalise(w, lanes)

    def __len__(self):
        return self.w

    def __repr__(self):
        return "LV%d[%s]" % (self.w, "; ".join("@%d: %r" % (l[0], l[1]) for l in self.lanes))


def _normalise(w, lanes):
    """merge overlapping lanes; a lane that may be negative borrows from the next higher one; drop what lies beyond the width.
    A lane is (s, form, parts): parts lists the fields a partially overlapping merge was made of (None for a plain field)"""
    ls = sorted([l if len(l) == 3 else (l[0], l[1], None) for l in lanes if l[1].t or l[1].c], key=lambda x: x[0])
    out = []
    for s, f, parts in ls:
        if out:
            ps, pf, pp = out[-1]
            pend = ps + max(_nbits(pf), _nbits(pf.scaled(-1)), 1)
            if s < pend or pf.min() < 0:
                np_ = None
                if s != ps and pf.min() >= 0 and f.min() >= 0:
                    np_ = (pp or ((ps, pf),)) + (parts or ((s, f),))
                elif pp or parts:
                    np_ = (pp or ((ps, pf),)) + (parts or ((s, f),))
                out[-1] = (ps, pf.plus(f.scaled(1 << (s - ps))), np_)
                continue
        out.append((s, f, parts))
    res = []
    for s, f, parts in out:
        if f.min() < 0 and len(out) == 1 and s == 0:
            # the whole value is one affine form: kept as an exact (possibly negative) integer; any later cut of it is Undecided
            res.append((s, f, None))
            continue
        if f.min() < 0:
            raise Undecided("a lane may become negative (borrow across lanes): %r at bit %d" % (f, s))
        if s >= w:
            continue
        if s + _nbits(f) > w:
            if f.bit_exact():
                f = Form(0, dict((b, v) for b, v in f.t.items() if (v << s) < (1 << w)))
                parts = None
            else:
                raise Undecided("a summed lane crosses the width %d: %r at bit %d" % (w, f, s))
        if f.t or f.c:
            res.append((s, f, parts))
    # a second pass is needed when a merge grew a lane into its successor
    for i in range(len(res) - 1):
        if res[i][0] + _nbits(res[i][1]) > res[i + 1][0]:
            return _normalise(w, res)
    return res


def inp(w):
    return LV(w, [(i, Form(0, {i: 1})) for i in range(w)])


def const(w, v):
    v &= (1 << w) - 1
    return LV(w, [(i, Form(1)) for i in range(w) if (v >> i) & 1])


def as_const(a):
    v = 0
    for s, f, _ in a.lanes:
        if f.t:
            return None
        v += f.c << s
    return v


def _overflow(s, f, keep, what):
    n = _nbits(f)
    ks = [keep(s + j) for j in range(n)]
    m = 0
    while m < n and ks[m]:
        m += 1
    if 0 < m < n and not ks[m] and f.t:
        raise LaneOverflow("%s keeps %d bit(s) of a field at bit %d that holds %r and reaches %d (needs %d bits): for some inputs its high part is lost "
                           "or runs into the neighbouring field" % (what, m, s, f, f.max(), n))


def cut(a, keep, what):
    """keep(bitpos) -> bool : generic mask.  Returns lanes restricted to the kept bit positions"""
    out = []
    for s, f, parts in a.lanes:
        n = _nbits(f)
        ks = [keep(s + j) for j in range(n)]
        if f.min() < 0:
            # exact signed form (the whole value): only an identity cut keeps it exact
            if all(keep(j) for j in range(a.w)):
                out.append((s, f, parts))
                continue
            raise Undecided("%s applied to a value that may be negative: %r" % (what, f))
        if all(ks):
            out.append((s, f, parts))
        elif not any(ks):
            continue
        elif f.bit_exact():
            out.append((s, Form(0, dict((b, v) for b, v in f.t.items() if keep(s + v.bit_length() - 1))), None))
        elif not f.t:
            out.append((s, Form(sum(1 << j for j in range(n) if ks[j] and (f.c >> j) & 1)), None))
        else:
            if f.min() >= 0:
                for ps, pf in (parts or ((s, f),)):
                    _overflow(ps, pf, keep, what)
            raise Undecided("%s cuts through a summed lane: %r at bit %d" % (what, f, s))
    return out


def v_and(a, b):
    ca, cb = as_const(a), as_const(b)
    if ca is not None and cb is not None:
        return const(max(a.w, b.w), ca & cb)
    if cb is None and ca is not None:
        a, b, cb = b, a, ca
    if cb is None:
        raise Undecided("AND of two non-constant values")
    return LV(a.w, cut(a, lambda i: (cb >> i) & 1 == 1, "the mask 0x%X" % cb))


def v_shr(a, k):
    ls = cut(a, lambda i: i >= k, "the right shift by %d" % k)
    out = []
    for s, f, parts in ls:
        if s >= k:
            out.append((s - k, f, tuple((ps - k, pf) for ps, pf in parts) if parts else None))
        else:
            # bit-exact remainder whose low terms were removed: rescale
            d = k - s
            out.append((0, Form(f.c >> d, dict((b, v >> d) for b, v in f.t.items())), None))
    return LV(a.w, out)


def v_shl(a, k):
    ls = cut(a, lambda i: i + k < a.w, "the left shift by %d" % k)
    return LV(a.w, [(s + k, f, tuple((ps + k, pf) for ps, pf in parts) if parts else None) for s, f, parts in ls])


def v_add(a, b):
    w = max(a.w, b.w)
    return LV(w, list(a.lanes) + list(b.lanes))


def v_sub(a, b):
    w = max(a.w, b.w)
    return LV(w, list(a.lanes) + [(s, f.scaled(-1), None) for s, f, _ in b.lanes])


def v_mul(a, b):
    ca, cb = as_const(a), as_const(b)
    if cb is None and ca is not None:
        a, b, cb = b, a, ca
    if cb is None:
        raise Undecided("product of two non-constant values")
    w = max(a.w, b.w)
    lanes = []
    k = 0
    while cb >> k:
        if (cb >> k) & 1:
            lanes += v_shl(LV(w, a.lanes), k).lanes
        k += 1
    return LV(w, lanes)


def v_or(a, b):
    # disjoint supports: OR == ADD
    ra = set(i for s, f, _ in a.lanes for i in range(s, s + _nbits(f)))
    rb = set(i for s, f, _ in b.lanes for i in range(s, s + _nbits(f)))
    if ra & rb:
        raise Undecided("OR of overlapping fields")
    return v_add(a, b)


def v_cast(a, w):
    if w >= a.w:
        return LV(w, a.lanes)
    return LV(w, cut(a, lambda i: i < w, "the truncation to %d bits" % w))


class LaneInterp(BitInterp):
    """BitInterp's statement walker with the lane domain's values"""

    def val(self, F, n, env, memo, depth):
        if n is None:
            raise Undecided("missing expression")
        if "r" in n and "k" not in n:
            if n["r"] in memo:
                return memo[n["r"]]
            n = F.elems[n["r"]]
        k = n.get("k")
        if "id" in n and n["id"] in memo:
            return memo[n["id"]]
        w = n.get("iw")
        if "cv" in n and w and k != "ref":
            return const(w, n["cv"])
        if "cvs" in n and w:
            return const(w, int(n["cvs"]))
        if k in ("w", "defarg"):
            return self.val(F, n["sub"], env, memo, depth)
        if k == "ref":
            if n["d"] in env:
                return env[n["d"]]
            if "cv" in n and w:
                return const(w, n["cv"])
            raise Undecided("%s: read of unknown variable %s" % (F.q, n["n"]))
        if k == "cast":
            v = self.val(F, n["sub"], env, memo, depth)
            return v_cast(v, w) if w else v
        if k == "bin":
            a = self.val(F, n["lhs"], env, memo, depth)
            b = self.val(F, n["rhs"], env, memo, depth)
            return self.binop(n["op"], a, b, False, w)
        if k == "call":
            return self.call(F, n, env, memo, depth)
        raise Undecided("%s: unsupported expression kind %s at line %s" % (F.q, k, n.get("l")))

    def binop(self, op, a, b, signed, w=None):
        if op in ("<<", ">>"):
            cb = as_const(b)
            if cb is None:
                raise Undecided("shift by a non-constant amount")
            return v_shl(a, cb) if op == "<<" else v_shr(a, cb)
        m = max(a.w, b.w)
        a, b = v_cast(a, m), v_cast(b, m)
        if op == "&":
            return v_and(a, b)
        if op == "|":
            return v_or(a, b)
        if op == "+":
            return v_add(a, b)
        if op == "-":
            return v_sub(a, b)
        if op == "*":
            return v_mul(a, b)
        raise Undecided("operator %s is outside the lane domain" % op)

    def exec(self, F, e, env, memo, depth):
        k = e.get("k")
        if k == "decl":
            for v in e["vars"]:
                if "init" in v:
                    env[v["d"]] = self.val(F, v["init"], env, memo, depth)
            return None
        if k == "bin" and e.get("op", "").endswith("=") and e["op"] not in ("==", "!=", "<=", ">="):
            from .bitdom import local_ref
            d = local_ref(F, e["lhs"])
            rhs = self.val(F, e["rhs"], env, memo, depth)
            if d is None:
                raise Undecided("%s: store to a non-local lvalue" % F.q)
            if e["op"] != "=":
                old = self.val(F, e["lhs"], env, memo, depth)
                cw = e.get("cw") or old.w
                rhs = v_cast(self.binop(e["op"][:-1], v_cast(old, cw), v_cast(rhs, cw), False), old.w)
            env[d] = rhs
            return rhs
        return self.val(F, e, env, memo, depth)

    def call(self, F, n, env, memo, depth):
        args = [self.val(F, a, env, memo, depth) for a in n.get("args", [])]
        G = self.db.get(n.get("m"))
        if G is None:
            raise Undecided("%s: callee %s has no body in the parsed units" % (F.q, n.get("q")))
        if len(G.params) != len(args):
            raise Undecided("%s: call arity mismatch for %s" % (F.q, n.get("q")))
        self.inlined.append(G.q)
        return BitInterp.run(self, G, args, depth + 1)
