"""Rule evaluation context, reporting, evidence and exit codes."""
import importlib
import json
import os
import sys
import time

from . import run
from .run import AnalysisBroken, VERIF, REPO
from .cfg import PathBoundExceeded


class Ctx:
    def __init__(self, prop, tier):
        self.prop = prop
        self.tier = tier
        self.db = None          # release facts
        self.bdb = None         # belief (-UNDEBUG) facts, when requested
        self.obligations = []   # dicts
        self.violations = []
        self.notes = []
        self.counts = {}        # rule id -> number of obligations checked
        self.info = {}
        self.paths = 0

    # ---- recording ---------------------------------------------------------
    def _rec(self, rule, F, what, node, ok, detail, sig):
        line = None
        file = None
        if isinstance(node, dict):
            line = node.get("l")
            file = node.get("f")
        if F is not None:
            file = file or F.file
            if line is None:
                line = F.line
        rec = {
            "rule": rule,
            "function": F.q if F is not None else None,
            "instantiation": (F.qt[:400] if F is not None else None),
            "site": "%s:%s" % (file, line) if file else None,
            "what": what,
            "ok": ok,
        }
        if detail:
            rec["detail"] = detail
        rec["sig"] = sig or what
        self.counts[rule] = self.counts.get(rule, 0) + 1
        self.obligations.append(rec)
        if not ok:
            self.violations.append(rec)
        return rec

    def ok(self, rule, F, what, node=None, sig=None):
        return self._rec(rule, F, what, node, True, None, sig)

    def bad(self, rule, F, what, node=None, detail=None, sig=None):
        return self._rec(rule, F, what, node, False, detail, sig)

    def check(self, cond, rule, F, what, node=None, detail=None, sig=None):
        if cond:
            self.ok(rule, F, what, node, sig)
        else:
            self.bad(rule, F, what, node, detail, sig)
        return bool(cond)

    def broken(self, msg):
        raise AnalysisBroken(msg)

    def need(self, q, file=None, db=None, gc=None, min_count=1):
        """anchor functions: missing anchors are 'analysis broken'"""
        fs = (db or self.db).find(q=q, file=file)
        if gc:
            fs = [f for f in fs if f.gc_kind() == gc]
        if len(fs) < min_count:
            raise AnalysisBroken("anchor function %s not found in the parsed units (found %d, need %d)" % (q, len(fs), min_count))
        return fs


def load_known():
    p = os.path.join(VERIF, "known_findings.json")
    if not os.path.exists(p):
        return []
    with open(p) as f:
        return json.load(f).get("findings", [])


def is_known(v, known):
    for k in known:
        if k.get("status") != "open":
            continue
        if k["property"] == v["_prop"] and k["rule"] == v["rule"] and k["function"] == v["function"] \
                and k["sig"] == v["sig"]:
            return k
    return None


def write_evidence(prop, tier, level, ctx, wall, nviol, mod, extra=None, broken=None):
    if os.environ.get("VERIF_NO_EVIDENCE"):
        return
    evdir = os.path.join(VERIF, "evidence")
    os.makedirs(evdir, exist_ok=True)
    rules_nontrivial = sorted(r for r, c in ctx.counts.items() if c > 0)
    discharged = sum(1 for o in ctx.obligations if o["ok"])
    samples = []
    seen_rules = set()
    for o in ctx.obligations:
        if o["rule"] in seen_rules:
            continue
        seen_rules.add(o["rule"])
        samples.append({k: o[k] for k in ("rule", "function", "site", "what", "ok")})
    distinct = len(set((o["rule"], o["function"], o["sig"]) for o in ctx.obligations))
    cov = {
        "explanation": getattr(mod, "EXPLANATION", ""),
        "evaluations": len(ctx.obligations),
        "distinct_nontrivial": distinct,
        "rule": "one evaluation = one rule instance applied to one instantiated function/site of /repo's current source; "
                "distinct = distinct (rule, function, site signature) triples; a rule instance that matches no site is not counted "
                "and fails the run (floor)",
        "obligations": len(ctx.obligations),
        "discharged": discharged,
        "checker_cmd": "python3 -m sa.check %s --tier %s" % (prop, tier),
        "trusted_base": ["clang 14 front end (AST, CFG)", "/verif/tools/cdsfacts.cc extractor",
                         "/verif/sa engines", "/verif/rules/%s.py rule table" % prop],
        "samples": samples[:40],
        "rules": {r: ctx.counts[r] for r in rules_nontrivial},
        "floors": getattr(mod, "FLOORS", {}),
        "translation_units": ctx.info.get("tu_list", []),
        "functions_analysed": ctx.info.get("functions", 0),
        "paths_enumerated": ctx.paths,
        "exhaustive": False,
    }
    if extra:
        cov.update(extra)
    if broken:
        cov["analysis_broken"] = broken
    ev = {
        "property_id": prop,
        "tier": tier,
        "seed": int(os.environ.get("VERIF_SEED", "0") or 0),
        "level": level,
        "coverage": cov,
        "assumptions": getattr(mod, "ASSUMPTIONS", []),
        "wall_s": round(wall, 2),
        "violations": nviol,
    }
    with open(os.path.join(evdir, prop + ".json"), "w") as f:
        json.dump(ev, f, indent=1)


def run_property(prop, tier, only_rule=None, quiet=False):
    t0 = time.time()
    mod = importlib.import_module("rules." + prop)
    level = getattr(mod, "LEVEL", "other")
    ctx = Ctx(prop, tier)
    try:
        tus = mod.TUS[tier] if tier in mod.TUS else mod.TUS["quick"]
        mi = getattr(mod, "MAX_INST", {})
        mi = mi.get(tier, 0) if isinstance(mi, dict) else int(mi)
        db, info = run.extract(tus, mod.FILES, getattr(mod, "NAMES", "."), release=True, max_inst=mi)
        ctx.db = db
        ctx.info = info
        if info.get("tus_without_matching_functions"):
            raise AnalysisBroken("translation unit(s) contributed no function at all (wrong flags or a vanished anchor?): %s"
                                 % ", ".join(info["tus_without_matching_functions"]))
        if mi:
            ctx.info["max_class_specializations_per_template"] = mi
        if getattr(mod, "NEED_BELIEF", False):
            btus = getattr(mod, "BELIEF_TUS", mod.TUS)
            btus = btus[tier] if tier in btus else btus["quick"]
            bdb, binfo = run.extract(btus, mod.FILES, getattr(mod, "NAMES", "."), release=False, max_inst=mi)
            ctx.bdb = bdb
            ctx.info["belief_tus"] = binfo["tus"]
            ctx.info["functions"] += binfo["functions"]
        for rule in mod.RULES:
            rid = getattr(rule, "rule_id", rule.__name__)
            if only_rule and not (rid.startswith(only_rule) or only_rule.startswith(rid)):
                continue
            rule(ctx)
        if not only_rule:
            floors = getattr(mod, "FLOORS", {})
            for rid, fl in floors.items():
                if isinstance(fl, dict):
                    fl = fl.get(tier, fl.get("quick", 1))
                if ctx.counts.get(rid, 0) < fl and not ctx.violations:
                    raise AnalysisBroken("rule %s matched %d site(s), floor is %d - an anchor vanished or a rule went vacuous"
                                         % (rid, ctx.counts.get(rid, 0), fl))
    except (AnalysisBroken, PathBoundExceeded) as e:
        msg = "ANALYSIS-BROKEN property=%s: %s" % (prop, e)
        print(msg)
        if not ctx.violations:
            write_evidence(prop, tier, level, ctx, time.time() - t0, len(ctx.violations), mod, broken=str(e))
            return 2
        # violations found before the analysis broke are still reported (exit 1)
    known = load_known()
    viodir = os.path.join(VERIF, "evidence", "violations")
    if os.environ.get("VERIF_NO_EVIDENCE"):
        viodir = os.path.join(VERIF, "build", "selftest-violations")
    new = []
    known_hit = {}
    # one report per distinct (rule, function, site, sig): template instantiations of the same source construct are folded
    folded = {}
    for v in ctx.violations:
        key = (v["rule"], v["function"], v["site"], v["sig"])
        if key in folded:
            folded[key]["instances"] = folded[key].get("instances", 1) + 1
        else:
            folded[key] = v
    for v in folded.values():
        v["_prop"] = prop
        k = is_known(v, known)
        if k:
            known_hit[k["id"]] = k
        else:
            new.append(v)
    for k in known_hit.values():
        print("KNOWN-FINDING: property=%s %s" % (prop, k["summary"]))
    if new:
        os.makedirs(viodir, exist_ok=True)
    for i, v in enumerate(new):
        path = os.path.join(viodir, "%s-%d.json" % (prop, i))
        with open(path, "w") as f:
            json.dump({"property": prop, "tier": tier, "rule": v["rule"], "function": v["function"],
                       "instantiation": v["instantiation"], "site": v["site"], "what": v["what"],
                       "detail": v.get("detail"), "sig": v["sig"]}, f, indent=1)
        print("  rule %s violated in %s" % (v["rule"], v["function"]))
        print("    at %s: %s" % (v["site"], v["what"]))
        if v.get("detail"):
            print("    %s" % v["detail"])
        if v.get("instantiation") and v["instantiation"] != v["function"]:
            print("    instantiation: %s%s" % (v["instantiation"][:200], " (+%d more instantiations)" % (v["instances"] - 1) if v.get("instances", 1) > 1 else ""))
        print("VIOLATION property=%s replay=%s" % (prop, path))
    wall = time.time() - t0
    write_evidence(prop, tier, level, ctx, wall, len(new), mod,
                   extra={"known_findings_reported": sorted(known_hit)})
    if not quiet:
        print("%s %s: %d obligations over %d functions of %d TUs (%d rules), %d violation(s), %d known finding(s), %.1fs"
              % (prop, tier, len(ctx.obligations), ctx.info.get("functions", 0), ctx.info.get("tus", 0),
                 len(ctx.counts), len(new), len(known_hit), wall))
        for r in sorted(ctx.counts):
            print("   %-10s %4d site(s)" % (r, ctx.counts[r]))
    return 1 if new else 0
