"""Path enumeration with value numbering (PATHTABLE engine, DESIGN §3 E1/E9).

Every acyclic path of a function (each block at most once; a back edge ends
the path with outcome 'back') is walked once.  Along a path every expression
gets a *symbolic value* (hashable term); values of locals are tracked
flow-sensitively; results of calls and atomic loads are fresh per occurrence,
so two syntactically equal loads are different values unless they are the very
same evaluation.  Branches whose condition value is a known constant, or was
already decided earlier on the same path, are pruned (flag-aware paths).

Nothing is executed and no solver is involved: this is value numbering on
paths of the CFG.
"""
from .cfg import cfg_of, PathBoundExceeded
from .dataflow import defs_in_element, ASSIGN_OPS, local_ref, written_locals

import re as _re
CAS_RE = _re.compile(r"^std::(atomic|__atomic_base)::compare_exchange_(weak|strong)$")
NULL = ("null",)


def C(v):
    return ("c", v)


TRUE = C(1)
FALSE = C(0)


def is_const(sv):
    return isinstance(sv, tuple) and sv and sv[0] == "c"


def truth(sv):
    """True/False/None for a symbolic value used as condition"""
    if not isinstance(sv, tuple) or not sv:
        return None
    if sv[0] == "c":
        return bool(sv[1])
    if sv[0] == "null":
        return False
    if sv[0] in ("new", "addr", "this"):
        return True
    if sv[0] == "pair":
        return None
    return None


def fold_bin(op, a, b):
    if a == NULL:
        a = C(0) if is_const(b) else a
    if b == NULL:
        b = C(0) if is_const(a) else b
    if is_const(a) and is_const(b) and isinstance(a[1], int) and isinstance(b[1], int):
        x, y = a[1], b[1]
        try:
            if op == "+": return C(x + y)
            if op == "-": return C(x - y)
            if op == "*": return C(x * y)
            if op == "&": return C(x & y)
            if op == "|": return C(x | y)
            if op == "^": return C(x ^ y)
            if op == "<<" and 0 <= y < 128: return C(x << y)
            if op == ">>" and 0 <= y < 128: return C(x >> y)
            if op == "==": return C(int(x == y))
            if op == "!=": return C(int(x != y))
            if op == "<": return C(int(x < y))
            if op == "<=": return C(int(x <= y))
            if op == ">": return C(int(x > y))
            if op == ">=": return C(int(x >= y))
            if op == "&&": return C(int(bool(x) and bool(y)))
            if op == "||": return C(int(bool(x) or bool(y)))
            if op == "/" and y != 0: return C(int(x / y))
            if op == "%" and y != 0: return C(x % y)
        except (OverflowError, ValueError):
            pass
    if op in ("==", "!=") and a == b and a[0] not in ("unk",):
        return C(int(op == "=="))
    if op in ("==", "!="):
        ta, tb = truth(a), truth(b)
        # address-like value compared with null
        if a == NULL and tb is True: return C(int(op == "!="))
        if b == NULL and ta is True: return C(int(op == "!="))
    if op == "&&":
        if truth(a) is False or truth(b) is False: return FALSE
        if truth(a) is True: return ("bool", b)
        if truth(b) is True: return ("bool", a)
    if op == "||":
        if truth(a) is True or truth(b) is True: return TRUE
        if truth(a) is False: return ("bool", b)
        if truth(b) is False: return ("bool", a)
    return ("op", op, a, b)


def norm_cond(sv):
    """(atom, polarity): the condition holds iff atom is 'truthy' == polarity"""
    pol = True
    while True:
        if isinstance(sv, tuple) and sv:
            if sv[0] == "bool":
                sv = sv[1]
                continue
            if sv[0] == "un" and sv[1] == "!":
                sv = sv[2]
                pol = not pol
                continue
            if sv[0] == "op" and sv[1] in ("==", "!="):
                a, b = sv[2], sv[3]
                if b in (NULL, C(0)) or a in (NULL, C(0)):
                    other = a if b in (NULL, C(0)) else b
                    if sv[1] == "==":
                        pol = not pol
                    sv = other
                    continue
                if b == C(1) and False:
                    pass
                # canonical operand order
                if repr(a) > repr(b):
                    a, b = b, a
                if sv[1] == "!=":
                    return ("op", "==", a, b), not pol
                return ("op", "==", a, b), pol
        return sv, pol


def known_truth(sv, assume):
    atom, pol = norm_cond(sv)
    t = truth(atom)
    if t is not None:
        return t == pol
    if atom in assume:
        return assume[atom] == pol
    return None


def simplify_cond(sv, assume):
    """resolve the operands of && / || that earlier branches on the same path
    already decided (clang branches on each operand separately, then on the
    whole expression)"""
    if isinstance(sv, tuple) and len(sv) == 4 and sv[0] == "op" and sv[1] in ("&&", "||"):
        a = simplify_cond(sv[2], assume)
        b = simplify_cond(sv[3], assume)
        ta, tb = known_truth(a, assume), known_truth(b, assume)
        if sv[1] == "&&":
            if ta is False or tb is False:
                return FALSE
            if ta is True and tb is True:
                return TRUE
            if ta is True:
                return b
            if tb is True:
                return a
        else:
            if ta is True or tb is True:
                return TRUE
            if ta is False and tb is False:
                return FALSE
            if ta is False:
                return b
            if tb is False:
                return a
        return ("op", sv[1], a, b)
    if isinstance(sv, tuple) and len(sv) == 2 and sv[0] == "bool":
        inner = simplify_cond(sv[1], assume)
        if inner is not sv[1]:
            return ("bool", inner) if not is_const(inner) else inner
    return sv


def resolve_cas(st, atom, succeeded):
    """a branch decided the result `atom` of a compare_exchange: fix the value of its expected variable"""
    for var, v in list(st.env.items()):
        if isinstance(v, tuple) and len(v) == 3 and v[0] == "casexp" and v[2] == atom:
            st.env[var] = v[1] if succeeded else ("casfail", v[2])


class Event:
    __slots__ = ("kind", "site", "node", "q", "obj", "args", "val", "extra")

    def __init__(self, kind, site, node, q=None, obj=None, args=(), val=None, extra=None):
        self.kind = kind      # call / store / branch / ret / ctor / dtor / new / delete / throw / end
        self.site = site
        self.node = node
        self.q = q
        self.obj = obj
        self.args = args
        self.val = val
        self.extra = extra

    def __repr__(self):
        return "Ev(%s %s %s)" % (self.kind, self.q or "", self.extra if self.extra is not None else "")


class Path:
    __slots__ = ("blocks", "events", "outcome", "ret", "env")

    def __init__(self, blocks, events, outcome, ret, env):
        self.blocks = blocks
        self.events = events
        self.outcome = outcome    # 'return' / 'back' / 'dead' (noreturn) / 'throw'
        self.ret = ret
        self.env = env

    def calls(self, qpred):
        return [e for e in self.events if e.kind in ("call", "ctor") and e.q and qpred(e.q)]


class PathSim:
    def __init__(self, F, bound=4096, havoc_loops=True, start=None, region=None,
                 call_hook=None, max_visits=1, watch_reads=(), entry_values=False):
        self.F = F
        self.cfg = cfg_of(F)
        self.bound = bound
        self.havoc_loops = havoc_loops
        self.start = F.entry if start is None else start
        self.region = region
        self.call_hook = call_hook
        self.max_visits = max_visits
        self.watch_reads = set(watch_reads)
        self.entry_values = entry_values     # also explore each loop's first iteration with the values its variables have on entry
        self.paths = []
        self._loop_havoc = None

    # ---- which variables to havoc at a loop header ------------------------
    def loop_havoc(self):
        if self._loop_havoc is not None:
            return self._loop_havoc
        res = {}
        loops = self.cfg.loops()
        for h, body in loops.items():
            vars_ = set()
            for b in body:
                for e in self.F.blocks[b].elems:
                    for d in defs_in_element(self.F, e):
                        # does this def reach the header again without leaving the loop?
                        reach = self.cfg.reachable_from(b, cut_blocks=set(self.F.blocks) - body)
                        if h in reach and (b != h or True):
                            # b can get back to header inside the loop
                            if self._can_reach_header_after(b, e, h, body):
                                vars_.add(d.var)
            res[h] = vars_
        self._loop_havoc = res
        return res

    def _can_reach_header_after(self, b, e, h, body):
        # from block b (after element e) can control return to header h staying in body?
        for s in self.cfg.succ(b):
            if s == h:
                return True
            if s in body and h in self.cfg.reachable_from(s, cut_blocks=set(self.F.blocks) - body):
                return True
        return False

    # ---- driver -------------------------------------------------------------
    def run(self):
        env = {}
        for p in self.F.params:
            env[p["d"]] = ("p", p["d"], p["n"])
        st = _State(env)
        self._walk(self.start, st, (), {})
        return self.paths

    def _emit_path(self, st, blocks, outcome, ret=None):
        self.paths.append(Path(blocks, list(st.events), outcome, ret, dict(st.env)))
        if len(self.paths) > self.bound:
            raise PathBoundExceeded("%s: more than %d paths" % (self.F.q, self.bound))

    def _walk(self, b, st, blocks, visits, _skip_fork=False):
        F = self.F
        if self.region is not None and b not in self.region:
            st.events.append(Event("end", (b, 0), None, extra=("leave", b)))
            self._emit_path(st, blocks, "leave")
            return
        cnt = visits.get(b, 0)
        if cnt >= self.max_visits:
            st.events.append(Event("end", (b, 0), None, extra=("back", b)))
            self._emit_path(st, blocks, "back")
            return
        visits = dict(visits)
        visits[b] = cnt + 1
        blocks = blocks + (b,)
        blk = F.blocks[b]
        if self.havoc_loops and b in self.cfg.loops():
            hv = self.loop_havoc().get(b, ())
            if self.entry_values and hv and not _skip_fork:
                # first iteration: the loop-carried variables still hold their entry values
                self._walk(b, st.fork(), blocks[:-1], {k: v for k, v in visits.items() if k != b} if cnt == 0 else dict(visits, **{b: cnt}), _skip_fork=True)
            if not _skip_fork or not self.entry_values:
                for v in hv:
                    st.env[v] = ("phi", v, b, cnt)
        if b == F.exit:
            self._emit_path(st, blocks, "return", st.retval)
            return
        for i, e in enumerate(blk.elems):
            r = self._exec(e, st, (b, i))
            if r == "noreturn":
                self._emit_path(st, blocks, "dead")
                return
            if r == "throw":
                self._emit_path(st, blocks, "throw")
                return
        succs = blk.succ
        if not blk.real_succ():
            self._emit_path(st, blocks, "dead")
            return
        if blk.term and len(succs) >= 2 and blk.term["k"] != "CXXTryStmt":
            term = blk.term
            condn = term.get("cond")
            if term["k"] == "SwitchStmt":
                csv = self._val(condn, st) if condn else ("unk",)
                # successor blocks carry the case labels
                chosen = None
                if is_const(csv):
                    for s in succs:
                        if s is None or s < 0:
                            continue
                        lab = F.blocks[s].label or {}
                        if "case" in lab and lab["case"] == csv[1]:
                            chosen = s
                    if chosen is None:
                        for s in succs:
                            if s is not None and s >= 0 and (F.blocks[s].label or {}).get("default"):
                                chosen = s
                        if chosen is None and succs[-1] is not None and succs[-1] >= 0:
                            chosen = succs[-1]
                done = set()
                for s in succs:
                    if s is None or s < 0 or s in done:
                        continue
                    if chosen is not None and s != chosen:
                        continue
                    done.add(s)
                    lab = F.blocks[s].label or {}
                    st2 = st.fork()
                    out = lab.get("case", "default")
                    st2.events.append(Event("branch", (b, len(blk.elems)), condn, val=csv, extra=("switch", out)))
                    self._walk(s, st2, blocks, visits)
                return
            csv = self._val(condn, st) if condn is not None else ("unk", b)
            csv = simplify_cond(csv, st.assume)
            atom, pol = norm_cond(csv)
            t = truth(atom)
            known = None
            if t is not None:
                known = (t == pol)
            elif atom in st.assume:
                known = (st.assume[atom] == pol)
            for idx, s in enumerate(succs[:2]):
                outcome = (idx == 0)
                if known is not None and outcome != known:
                    continue
                if s is None or s < 0:
                    continue
                st2 = st.fork()
                if known is None:
                    st2.assume[atom] = (outcome == pol)
                resolve_cas(st2, atom, outcome == pol)
                st2.events.append(Event("branch", (b, len(blk.elems)), condn, val=csv, extra=(term["k"], outcome)))
                self._walk(s, st2, blocks, visits)
            return
        # unconditional (or try): follow the first real successor
        nxt = blk.real_succ()
        if blk.term and blk.term["k"] == "CXXTryStmt":
            nxt = nxt[:1]
        if len(nxt) == 1:
            self._walk(nxt[0], st, blocks, visits)
        else:
            for s in nxt:
                self._walk(s, st.fork(), blocks, visits)

    # ---- evaluation ---------------------------------------------------------
    def _val(self, n, st):
        """symbolic value of node n in state st (n may be an element ref)"""
        F = self.F
        if n is None:
            return ("unk",)
        if "r" in n and "k" not in n:
            eid = n["r"]
            if eid in st.memo:
                return st.memo[eid]
            # not evaluated on this path (short-circuit) - evaluate structurally without events
            return self._pure(F.elems[eid], st)
        return self._pure(n, st)

    def _pure(self, n, st):
        """value of an inline (non-element) node or of an element evaluated
        out of order; never records events"""
        F = self.F
        k = n.get("k")
        if "id" in n and n["id"] in st.memo:
            return st.memo[n["id"]]
        if "cv" in n and k not in ("ref",):
            return C(n["cv"])
        if k in ("w", "defarg"):
            return self._val(n["sub"], st)
        if k == "lit":
            if n.get("null"):
                return NULL
            if "b" in n:
                return C(int(n["b"]))
            if n.get("zero"):
                return C(0)
            return ("lit", n.get("l"), n.get("t"))
        if k == "sizeof":
            return ("sizeof", n.get("l"))
        if k == "ref":
            dk = n.get("dk")
            if dk in ("local", "parm", "slocal"):
                if n.get("lv") and self._is_ref_binding(n):
                    pass
                return st.env.get(n["d"], ("init", n["d"], n["n"]))
            if "cv" in n:
                return C(n["cv"])
            if dk == "enum":
                return ("enum", n.get("q"))
            if dk == "func":
                return ("func", n.get("q"), n.get("m"))
            return ("global", n.get("q", n["n"]))
        if k == "this":
            return ("this",)
        if k == "cast":
            ck = n.get("ck")
            v = self._val(n["sub"], st)
            if ck in ("PointerToBoolean", "IntegralToBoolean", "MemberPointerToBoolean"):
                t = truth(v)
                if t is not None:
                    return C(int(t))
                return ("bool", v)
            if ck == "NullToPointer":
                return NULL
            if ck == "IntegralCast" and is_const(v) and "iw" in n and isinstance(v[1], int):
                w = n["iw"]
                x = v[1] & ((1 << w) - 1)
                if n.get("is") and x >> (w - 1):
                    x -= 1 << w
                return C(x)
            return v
        if k == "member":
            base = self._val(n["base"], st)
            if "q" in n:       # static member variable
                return ("global", n["q"])
            key = ("fld", base, n["n"])
            if key in st.fields:
                return st.fields[key]
            return ("fld", base, n["n"], st.epoch)
        if k == "un":
            op = n["op"]
            v = self._val(n["sub"], st)
            if op == "!":
                t = truth(v)
                if t is not None:
                    return C(int(not t))
                if isinstance(v, tuple) and len(v) == 3 and v[0] == "un" and v[1] == "!":
                    return ("bool", v[2])
                return ("un", "!", v)
            if op == "-" and is_const(v):
                return C(-v[1])
            if op == "~" and is_const(v) and "iw" in n:
                return C((~v[1]) & ((1 << n["iw"]) - 1))
            if op == "&":
                # the address of a parameter does not depend on the value the loop havoc gave it
                sn = n["sub"]
                for _ in range(4):
                    sn = self.F.deref(sn)
                    if isinstance(sn, dict) and sn.get("k") == "w":
                        sn = sn["sub"]
                    else:
                        break
                if isinstance(sn, dict) and sn.get("k") == "ref" and sn.get("dk") == "parm" and isinstance(v, tuple) and v[:1] == ("phi",):
                    return ("addr", ("p", sn["d"], sn["n"]))
                return ("addr", v)
            if op == "*":
                if isinstance(v, tuple) and v and v[0] == "addr":
                    return v[1]
                return ("deref", v)
            if op in ("++", "--"):
                return ("un", op, v)
            return ("un", op, v)
        if k == "bin":
            op = n["op"]
            if op == ",":
                return self._val(n["rhs"], st)
            a = self._val(n["lhs"], st)
            b = self._val(n["rhs"], st)
            if op in ASSIGN_OPS:
                return b if op == "=" else fold_bin(op[:-1], a, b)
            return fold_bin(op, a, b)
        if k == "cond":
            c = self._val(n["c"], st)
            atom, pol = norm_cond(c)
            t = truth(atom)
            if t is None and atom in st.assume:
                t = st.assume[atom]
            if t is not None:
                return self._val(n["a"] if (t == pol) else n["b"], st)
            a = self._val(n["a"], st)
            b = self._val(n["b"], st)
            if a == b:
                return a
            return ("ite", c, a, b)
        if k == "subscript":
            return ("elem", self._val(n["base"], st), self._val(n["idx"], st), st.epoch)
        if k == "ctor":
            args = tuple(self._val(a, st) for a in n.get("args", []))
            cls = n.get("cls", "")
            if cls == "std::pair" and len(args) == 2:
                return ("pair", args[0], args[1])
            if n.get("copymove") and len(args) == 1:
                return args[0]
            return ("obj", cls, args, n.get("l"))
        if k == "initlist":
            args = tuple(self._val(a, st) for a in n.get("args", []))
            if len(args) == 1:
                return args[0]
            if len(args) == 2 and n.get("t", "").startswith("std::pair<"):
                return ("pair", args[0], args[1])
            return ("initlist", args)
        if k == "call":
            # evaluated out of order: opaque but deterministic by node identity
            return ("callv", n.get("q"), n.get("l"), id(n))
        if k == "new":
            return ("new", n.get("at"), n.get("l"))
        if k == "lambda":
            return ("lambda", n.get("m"))
        return ("unk", k, n.get("l"))

    def _is_ref_binding(self, n):
        return False

    def _exec(self, e, st, site):
        """execute CFG element e: compute its value, record events/effects"""
        F = self.F
        k = e.get("k")
        eid = e.get("id")
        val = None
        if k == "call":
            val = self._call(e, st, site)
            if val == "noreturn":
                return "noreturn"
        elif k == "ctor":
            args = tuple(self._val(a, st) for a in e.get("args", []))
            val = self._pure_ctor(e, args)
            st.events.append(Event("ctor", site, e, q=e.get("q"), args=args, val=val))
            self._havoc_refargs(e, st)
        elif k == "decl":
            for v in e["vars"]:
                if "init" in v:
                    iv = self._val(v["init"], st)
                    st.env[v["d"]] = iv
                    init = F.strip(v["init"])
                    if isinstance(init, dict) and init.get("k") == "ctor" and not init.get("copymove"):
                        st.events.append(Event("var", site, e, q=init.get("q"), obj=v["d"], args=iv[2] if iv and iv[0] == "obj" else (),
                                               val=iv, extra=(v["n"], v.get("cls"))))
                else:
                    st.env[v["d"]] = ("uninit", v["d"])
        elif k == "bin" and e.get("op") in ASSIGN_OPS:
            rhs = self._val(e["rhs"], st)
            lhs_n = F.strip(e["lhs"])
            if e["op"] != "=":
                old = self._val(e["lhs"], st)
                rhs = fold_bin(e["op"][:-1], old, rhs)
            d = local_ref(F, e["lhs"])
            if d is not None:
                st.env[d] = rhs
            else:
                lv = self._lvalue(lhs_n, st)
                st.events.append(Event("store", site, e, obj=lv, val=rhs))
                st.epoch += 1
                if lv is not None and lv[0] == "fld":
                    st.fields[(lv[0], lv[1], lv[2])] = rhs
            val = rhs
        elif k == "un" and e.get("op") in ("++", "--"):
            d = local_ref(F, e["sub"])
            old = self._val(e["sub"], st)
            new = fold_bin("+" if e["op"] == "++" else "-", old, C(1))
            if d is not None:
                st.env[d] = new
            else:
                lv = self._lvalue(F.strip(e["sub"]), st)
                st.events.append(Event("store", site, e, obj=lv, val=new, extra=e["op"]))
                st.epoch += 1
                if lv is not None and lv[0] == "fld":
                    st.fields[(lv[0], lv[1], lv[2])] = new
            val = old if e.get("post") else new
        elif k == "ret":
            v = self._val(e["v"], st) if "v" in e else None
            st.retval = v
            st.events.append(Event("ret", site, e, val=v))
        elif k == "autodtor":
            st.events.append(Event("dtor", site, e, q=e.get("q"), obj=e["d"], extra=(e["n"], e.get("cls"))))
        elif k == "new":
            if len(e.get("place", [])) == 1:
                # placement new: the result is the storage it was given
                val = self._val(e["place"][0], st)
                st.events.append(Event("new", site, e, val=val, extra="placement"))
            else:
                val = ("new", e.get("at"), e.get("l"), st.fresh())
                st.events.append(Event("new", site, e, val=val))
        elif k == "delete":
            st.events.append(Event("delete", site, e, val=self._val(e["sub"], st)))
        elif k == "throw":
            st.events.append(Event("throw", site, e))
            return "throw"
        elif k == "init":
            v = self._val(e.get("init"), st) if e.get("init") else None
            st.events.append(Event("store", site, e, obj=("fld", ("this",), e.get("field")), val=v, extra="init"))
            if e.get("field"):
                st.fields[("fld", ("this",), e["field"])] = v
        elif k == "asm":
            st.events.append(Event("asm", site, e))
            st.epoch += 1
        else:
            if self.watch_reads and k == "cast" and e.get("ck") == "LValueToRValue":
                sub = F.deref(e["sub"])
                while isinstance(sub, dict) and sub.get("k") == "w":
                    sub = F.deref(sub["sub"])
                if isinstance(sub, dict) and sub.get("k") == "member" and sub.get("n") in self.watch_reads:
                    st.events.append(Event("read", site, e, obj=self._lvalue(sub, st), extra=sub["n"]))
            val = self._pure(e, st)
        if eid is not None and val is not None:
            st.memo[eid] = val
        return None

    def _pure_ctor(self, e, args):
        cls = e.get("cls", "")
        if cls == "std::pair" and len(args) == 2:
            return ("pair", args[0], args[1])
        if e.get("copymove") and len(args) == 1:
            return args[0]
        return ("obj", cls, args, e.get("l"))

    def _lvalue(self, n, st):
        F = self.F
        if not isinstance(n, dict):
            return None
        k = n.get("k")
        if k == "member":
            return ("fld", self._val(n["base"], st), n["n"])
        if k == "subscript":
            return ("elem", self._val(n["base"], st), self._val(n["idx"], st))
        if k == "un" and n.get("op") == "*":
            return ("deref", self._val(n["sub"], st))
        if k == "ref":
            return ("global", n.get("q", n["n"]))
        if k == "call":
            return ("callres", self._val(n, st))
        return ("lv", F.text(n))

    def _havoc_refargs(self, e, st):
        for d in written_locals(self.F, e):
            st.env[d] = ("out", d, e.get("q"), st.fresh())

    def _call(self, e, st, site):
        F = self.F
        q = e.get("q")
        args = tuple(self._val(a, st) for a in e.get("args", []))
        obj = self._val(e["obj"], st) if e.get("mem") and "obj" in e else None
        if q is None:
            fnv = self._val(e.get("fn"), st)
            q = "(indirect)"
            obj = fnv
        val = None
        if self.call_hook is not None:
            val = self.call_hook(self, e, q, obj, args, st, site)
        # pure helpers modelled structurally
        if val is None:
            if q in ("std::make_pair",) and len(args) == 2:
                val = ("pair", args[0], args[1])
            elif q in ("std::move", "std::forward", "std::addressof") and len(args) == 1:
                val = args[0] if q != "std::addressof" else ("addr", args[0])
            elif q == "__builtin_expect" and len(args) == 2:
                val = args[0]
            elif e.get("op") in ("==", "!=") and ((e.get("mem") and len(args) == 1) or (not e.get("mem") and len(args) == 2)):
                # user-defined equality (marked_ptr, iterators): structural comparison of the operands
                a, b = (obj, args[0]) if e.get("mem") else (args[0], args[1])
                val = fold_bin(e["op"], a, b)
            elif q == "std::pair::operator=" and False:
                pass
        if val is None and e.get("mem") and e.get("op") == "=" and len(args) == 1:
            # x = y on a class-type object: the expression's value is the assigned value
            d = local_ref(F, e.get("obj"))
            if d is not None:
                st.env[d] = args[0]
            else:
                lv = self._lvalue(F.strip(e.get("obj")), st)
                if lv is not None and lv[0] == "fld":
                    st.fields[(lv[0], lv[1], lv[2])] = args[0]
                st.epoch += 1
            st.events.append(Event("call", site, e, q=q, obj=obj, args=args, val=args[0]))
            return args[0]
        rec_val = val
        if val is None:
            if e.get("constm") and not e.get("nc") and self._is_pure_getter(q):
                val = ("get", q, obj, args, st.epoch)
            else:
                val = ("call", q, st.fresh())
        ev = Event("call", site, e, q=q, obj=obj, args=args, val=val)
        st.events.append(ev)
        if rec_val is None:
            # side effects: by-ref locals are overwritten; member state may change
            if q and CAS_RE.search(q) and e.get("args"):
                # compare_exchange(expected&, desired): expected keeps its value on success and is overwritten on failure;
                # which of the two holds is decided when a branch tests the call's result
                d = local_ref(F, e["args"][0])
                if d is not None:
                    st.env[d] = ("casexp", st.env.get(d, ("init", d)), val)
                else:
                    self._havoc_refargs(e, st)
            else:
                self._havoc_refargs(e, st)
            if e.get("mem") and e.get("op") in ASSIGN_OPS | {"++", "--"}:
                d = local_ref(F, e.get("obj"))
                if d is not None:
                    if e["op"] == "=" and args:
                        st.env[d] = args[0]
                    else:
                        st.env[d] = ("upd", e["op"], obj, args, st.fresh())
            if not e.get("constm"):
                st.epoch += 1
                if st.fields:
                    st.fields = {k2: v2 for k2, v2 in st.fields.items()
                                 if isinstance(k2[1], tuple) and k2[1] and k2[1][0] in ("obj", "uninit", "out", "this")}
                if e.get("mem"):
                    d = local_ref(F, e.get("obj"))
                    if d is not None and not (e.get("op") in ASSIGN_OPS | {"++", "--"}):
                        # non-const method on a local object: its value changes
                        old = st.env.get(d)
                        st.env[d] = ("mut", old, q, st.fresh()) if self._mutates_local(q) else old
        if e.get("noret"):
            return "noreturn"
        return val

    def _is_pure_getter(self, q):
        return False

    def _mutates_local(self, q):
        return False


class _State:
    __slots__ = ("env", "memo", "events", "assume", "epoch", "fields", "retval", "_fresh")

    def __init__(self, env):
        self.env = env
        self.memo = {}
        self.events = []
        self.assume = {}
        self.epoch = 0
        self.fields = {}
        self.retval = None
        self._fresh = [0]

    def fresh(self):
        self._fresh[0] += 1
        return self._fresh[0]

    def fork(self):
        s = _State(dict(self.env))
        s.memo = dict(self.memo)
        s.events = list(self.events)
        s.assume = dict(self.assume)
        s.epoch = self.epoch
        s.fields = dict(self.fields)
        s.retval = self.retval
        s._fresh = [self._fresh[0]]
        return s


def simulate(F, **kw):
    key = ("pathsim", tuple(sorted((k, repr(v)) for k, v in kw.items() if k != "call_hook")))
    if "call_hook" not in kw and key in F._cache:
        return F._cache[key]
    ps = PathSim(F, **kw)
    paths = ps.run()
    if "call_hook" not in kw:
        F._cache[key] = paths
    return paths
