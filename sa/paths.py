"""debug: python3 -m sa.paths <tu glob> <name regex>"""
import sys
from . import run
from .pathsim import simulate

def short(sv, d=0):
    if d > 6: return "…"
    if isinstance(sv, tuple):
        return "(" + " ".join(short(x, d+1) for x in sv) + ")"
    if isinstance(sv, frozenset):
        return "{" + ",".join(short(x, d+1) for x in sv) + "}"
    s = str(sv)
    return s if len(s) < 60 else s[:25] + "…" + s[-30:]

def main():
    db, info = run.extract([sys.argv[1]], "^%s/(cds|src)/|^%s/drivers/" % (run.REPO, run.VERIF), sys.argv[2])
    for F in db.funcs.values():
        print("==", F.q, F.loc(), F.qt[:200])
        ps = simulate(F)
        print("  %d paths" % len(ps))
        for i, p in enumerate(ps[:int(sys.argv[3]) if len(sys.argv) > 3 else 50]):
            print("  path %d blocks=%s outcome=%s ret=%s" % (i, p.blocks, p.outcome, short(p.ret)))
            for e in p.events:
                if e.kind == "call":
                    print("      call %s obj=%s args=%s -> %s" % (e.q, short(e.obj), short(e.args), short(e.val)))
                elif e.kind == "branch":
                    print("      branch %s %s   [%s]" % (e.extra, short(e.val), F.text(e.node) if e.node else ""))
                elif e.kind == "store":
                    print("      store %s := %s" % (short(e.obj), short(e.val)))
                else:
                    print("      %s %s %s %s" % (e.kind, e.q or "", short(e.val), e.extra or ""))
main()
