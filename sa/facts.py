"""Loader and object model for cdsfacts JSON (DESIGN.md §2)."""
import json
import re

INTERNED = ("t", "m", "qt", "ct", "ret", "fta", "at", "base", "st")


def strip_targs(s):
    """remove every balanced <...> group from a C++ type/name string"""
    out = []
    depth = 0
    i = 0
    n = len(s)
    while i < n:
        c = s[i]
        if c == '<':
            # operator< / operator<< / operator<= are not template brackets
            if depth == 0 and ''.join(out).endswith('operator'):
                out.append(c)
            else:
                depth += 1
        elif c == '>':
            if depth > 0:
                depth -= 1
            else:
                out.append(c)
        elif depth == 0:
            out.append(c)
        i += 1
    return ''.join(out)


class Block:
    __slots__ = ("id", "succ", "psucc", "term", "label", "elems", "noret", "preds")

    def __init__(self, d):
        self.id = d["id"]
        self.succ = d["succ"]
        self.psucc = d.get("psucc")
        self.term = d.get("term")
        self.label = d.get("label")
        self.elems = d["E"]
        self.noret = d.get("noret", False)
        self.preds = []

    def real_succ(self):
        return [s for s in self.succ if s is not None and s >= 0]


class Func:
    def __init__(self, d, tu):
        self.tu = tu
        self.m = d["m"]
        self.q = d["q"]
        self.qt = d.get("qt", self.q)
        self.file = d["file"]
        self.line = d["line"]
        self.ret = d.get("ret")
        self.cls = d.get("cls")
        self.ct = d.get("ct", "")
        self.kind = d.get("kind")
        self.fta = d.get("fta", "")
        self.params = d.get("params", [])
        self.entry = d["entry"]
        self.exit = d["exit"]
        self.is_static = d.get("static", False)
        self.blocks = {}
        for b in d["B"]:
            self.blocks[b["id"]] = Block(b)
        for b in self.blocks.values():
            for s in b.real_succ():
                self.blocks[s].preds.append(b.id)
        self.elems = {}      # element id -> node
        self.site = {}       # element id -> (block id, index)
        for b in self.blocks.values():
            for i, e in enumerate(b.elems):
                e["_site"] = (b.id, i)
                if "id" in e:
                    self.elems[e["id"]] = e
                    self.site[e["id"]] = (b.id, i)
        self._cache = {}

    # ---- identity -------------------------------------------------------
    @property
    def name(self):
        return self.q

    def loc(self):
        return "%s:%d" % (self.file, self.line)

    def gc_kind(self):
        """HP / DHP / RCU / nogc / None from the class (or function) template args"""
        s = self.ct + " " + self.qt
        if "cds::gc::nogc" in s:
            return "nogc"
        if "cds::urcu::gc<" in s:
            return "RCU"
        # order matters: generic_DHP vs generic_HP
        if re.search(r"cds::gc::dhp::|cds::gc::DHP\b", s):
            return "DHP"
        if re.search(r"cds::gc::hp::|cds::gc::HP\b", s):
            return "HP"
        return None

    # ---- nodes ----------------------------------------------------------
    def deref(self, n):
        while isinstance(n, dict) and "r" in n and "k" not in n:
            n = self.elems[n["r"]]
        return n

    def strip(self, n, casts=True):
        """deref and skip transparent wrappers (and implicit / no-op casts)"""
        while True:
            n = self.deref(n)
            if not isinstance(n, dict):
                return n
            k = n.get("k")
            if k == "w" or k == "defarg":
                n = n["sub"]
                continue
            if casts and k == "cast" and (n.get("impl") or n.get("ck") in ("NoOp", "LValueToRValue")):
                n = n["sub"]
                continue
            return n

    def children(self, n):
        n = self.deref(n)
        if not isinstance(n, dict):
            return
        for key in ("fn", "obj", "base", "sub", "lhs", "rhs", "c", "a", "b", "idx", "v", "init", "ctor", "asize"):
            if key in n and isinstance(n[key], dict):
                yield n[key]
        for key in ("args", "ch", "place", "outs", "ins"):
            if key in n:
                for a in n[key]:
                    if isinstance(a, dict):
                        yield a
        if n.get("k") == "decl":
            for v in n["vars"]:
                if isinstance(v.get("init"), dict):
                    yield v["init"]

    def walk(self, n):
        """all nodes of the fully expanded tree rooted at n (pre-order)"""
        n = self.deref(n)
        if not isinstance(n, dict):
            return
        yield n
        for c in self.children(n):
            yield from self.walk(c)

    def all_elements(self):
        for b in self.blocks.values():
            for i, e in enumerate(b.elems):
                yield b.id, i, e

    def site_of(self, n):
        n = self.deref(n)
        return n.get("_site")

    def top_elements(self):
        """elements that are not a sub-expression of another element of the
        same block (statement roots)"""
        key = "top"
        if key not in self._cache:
            res = []
            for b in self.blocks.values():
                used = set()
                for e in b.elems:
                    for c in self._refs(e):
                        used.add(c)
                for i, e in enumerate(b.elems):
                    if "id" not in e or e["id"] not in used:
                        res.append((b.id, i, e))
            self._cache[key] = res
        return self._cache[key]

    def _refs(self, n):
        """element ids referenced (directly, through inline nodes) by n"""
        out = []

        def rec(x):
            if not isinstance(x, dict):
                return
            if "r" in x and "k" not in x:
                out.append(x["r"])
                return
            for key, v in x.items():
                if key.startswith("_"):
                    continue
                if isinstance(v, dict):
                    rec(v)
                elif isinstance(v, list):
                    for a in v:
                        if isinstance(a, dict):
                            rec(a)
        for key, v in n.items():
            if key.startswith("_"):
                continue
            if isinstance(v, dict):
                rec(v)
            elif isinstance(v, list):
                for a in v:
                    if isinstance(a, dict):
                        rec(a)
        return out

    # ---- pretty printing ------------------------------------------------
    def text(self, n, depth=0):
        n = self.deref(n)
        if n is None:
            return "<null>"
        if not isinstance(n, dict):
            return str(n)
        if depth > 40:
            return "..."
        k = n.get("k")
        T = lambda x: self.text(x, depth + 1)
        if k == "w" or k == "defarg":
            return T(n["sub"])
        if k == "cast":
            if n.get("impl") or n.get("ck") in ("NoOp",):
                return T(n["sub"])
            return "(%s)%s" % (short_type(n.get("t", "?")), T(n["sub"]))
        if k == "ref":
            return n["n"]
        if k == "this":
            return "this"
        if k == "lit":
            if n.get("null"):
                return "nullptr"
            if "b" in n:
                return "true" if n["b"] else "false"
            if "cv" in n:
                return str(n["cv"])
            if "cvs" in n:
                return n["cvs"]
            return "<lit>"
        if k == "sizeof":
            return "sizeof=%s" % n.get("cv", "?")
        if k == "member":
            base = self.strip(n["base"])
            if not n["n"]:
                return T(n["base"])
            if base and base.get("k") == "this":
                return n["n"]
            return "%s%s%s" % (T(n["base"]), "->" if n.get("arrow") else ".", n["n"])
        if k == "un":
            if n.get("post"):
                return "%s%s" % (T(n["sub"]), n["op"])
            return "%s%s" % (n["op"], T(n["sub"]))
        if k == "bin":
            return "(%s %s %s)" % (T(n["lhs"]), n["op"], T(n["rhs"]))
        if k == "cond":
            return "(%s ? %s : %s)" % (T(n["c"]), T(n["a"]), T(n["b"]))
        if k == "subscript":
            return "%s[%s]" % (T(n["base"]), T(n["idx"]))
        if k == "call":
            args = ", ".join(T(a) for a in n.get("args", []))
            q = n.get("q")
            if q is None:
                return "(*%s)(%s)" % (T(n.get("fn")), args)
            short = q.split("::")[-1]
            if n.get("mem"):
                obj = self.strip(n.get("obj"))
                if "op" in n:
                    if n["op"] == "()":
                        return "%s(%s)" % (T(n["obj"]), args)
                    if n["op"] == "[]":
                        return "%s[%s]" % (T(n["obj"]), args)
                    if n["op"] in ("->", "*") and not n.get("args"):
                        return "%s%s" % (n["op"] if n["op"] == "*" else "", T(n["obj"])) + ("->" if n["op"] == "->" else "")
                    if not n.get("args"):
                        return "%s%s" % (n["op"], T(n["obj"]))
                    return "(%s %s %s)" % (T(n["obj"]), n["op"], args)
                if obj is not None and obj.get("k") == "this":
                    return "%s(%s)" % (short, args)
                return "%s%s%s(%s)" % (T(n["obj"]), "->" if n.get("arrow") else ".", short, args)
            if "op" in n and len(n.get("args", [])) == 2:
                return "(%s %s %s)" % (T(n["args"][0]), n["op"], T(n["args"][1]))
            return "%s(%s)" % (strip_ns(q), args)
        if k == "ctor":
            args = ", ".join(T(a) for a in n.get("args", []))
            return "%s{%s}" % (strip_ns(n.get("cls", n.get("q", "?"))), args)
        if k == "decl":
            parts = []
            for v in n["vars"]:
                if "init" in v:
                    parts.append("%s %s = %s" % (short_type(v["t"]), v["n"], T(v["init"])))
                else:
                    parts.append("%s %s" % (short_type(v["t"]), v["n"]))
            return "; ".join(parts)
        if k == "ret":
            return "return %s" % (T(n["v"]) if "v" in n else "")
        if k == "new":
            return "new %s(%s)" % (short_type(n.get("at", "?")), T(n["ctor"]) if "ctor" in n else "")
        if k == "delete":
            return "delete %s" % T(n["sub"])
        if k == "lambda":
            return "[lambda]"
        if k == "autodtor":
            return "~%s /*%s*/" % (n["n"], strip_ns(n.get("cls", "")))
        if k == "init":
            return "init %s(%s)" % (n.get("field", n.get("base", "?")), T(n.get("init")))
        if k == "initlist":
            return "{%s}" % ", ".join(T(a) for a in n.get("args", []))
        if k == "throw":
            return "throw"
        if k == "asm":
            return "asm(%r)" % n.get("text", "")
        if k == "stmt":
            return "<%s>" % n.get("cls")
        return "<%s>" % k

    def dump(self):
        lines = ["%s  [%s:%d]  %s" % (self.q, self.file, self.line, self.kind)]
        lines.append("  qt: %s" % self.qt[:300])
        for bid in sorted(self.blocks, reverse=True):
            b = self.blocks[bid]
            hdr = "  B%d -> %s" % (bid, b.succ)
            if b.psucc:
                hdr += " (pruned: %s)" % b.psucc
            if b.label:
                hdr += " label=%s" % {k: v for k, v in b.label.items() if k != "lhs"}
            if bid == self.entry:
                hdr += " ENTRY"
            if bid == self.exit:
                hdr += " EXIT"
            if b.noret:
                hdr += " NORETURN"
            lines.append(hdr)
            tops = set(i for (bb, i, e) in self.top_elements() if bb == bid)
            for i, e in enumerate(b.elems):
                if i in tops:
                    lines.append("     %3d: [%s] %s" % (i, e.get("l", ""), self.text(e)))
            if b.term:
                c = b.term.get("cond")
                lines.append("     T: %s (%s)" % (b.term["k"], self.text(c) if c else ""))
        return "\n".join(lines)


def strip_ns(q):
    q = strip_targs(q)
    parts = q.split("::")
    return "::".join(parts[-2:]) if len(parts) > 2 else q


def short_type(t):
    t = strip_targs(t)
    t = re.sub(r"\b(?:[A-Za-z_]\w*::)+", "", t)
    return t


def load_tu(path):
    """load one cdsfacts output file; returns (tu name, errors flag, [Func])"""
    with open(path) as f:
        d = json.load(f)
    S = d["S"]

    def fix(n):
        if isinstance(n, dict):
            for k in INTERNED:
                v = n.get(k)
                if isinstance(v, int) and not isinstance(v, bool):
                    n[k] = S[v]
            for v in n.values():
                if isinstance(v, (dict, list)):
                    fix(v)
        elif isinstance(n, list):
            for v in n:
                if isinstance(v, (dict, list)):
                    fix(v)
    funcs = []
    for fd in d["F"]:
        fix(fd)
        funcs.append(Func(fd, d["tu"]))
    return d["tu"], d.get("errors", False), funcs


class FactsDB:
    def __init__(self):
        self.funcs = {}      # mangled -> Func (first seen wins)
        self.by_q = {}
        self.tus = []
        self.errors = []
        self.empty_tus = []

    def add_tu(self, path):
        tu, err, funcs = load_tu(path)
        self.tus.append(tu)
        if err:
            self.errors.append(tu)
        if not funcs:
            self.empty_tus.append(tu)
        for f in funcs:
            if f.m in self.funcs:
                continue
            self.funcs[f.m] = f
            self.by_q.setdefault(f.q, []).append(f)

    def find(self, q=None, regex=None, file=None):
        if q is not None:
            res = list(self.by_q.get(q, []))
        else:
            rx = re.compile(regex)
            res = [f for qq, fs in self.by_q.items() if rx.search(qq) for f in fs]
        if file:
            res = [f for f in res if f.file.endswith(file)]
        return res

    def get(self, mangled):
        return self.funcs.get(mangled)

    def __len__(self):
        return len(self.funcs)
