"""Drive cdsfacts over a set of translation units of /repo (parallel, cached
by a content hash of the repository sources, so a changed tree is always
re-parsed)."""
import glob
import hashlib
import os
import shutil
import subprocess
import sys
import time
from concurrent.futures import ThreadPoolExecutor

from .facts import FactsDB

VERIF = os.path.dirname(os.path.dirname(os.path.abspath(__file__)))
REPO = os.environ.get("VERIF_REPO_ROOT", "/repo")
TOOL = os.path.join(VERIF, "build", "cdsfacts")
CACHE = os.environ.get("VERIF_CACHE") or os.path.join(VERIF, "build", "cache")
RESOURCE_DIR = "/usr/lib/llvm-14/lib/clang/14.0.6"
SYS_PREFIX = "/root/miniconda/include"   # gtest / boost headers used by the unit tests


def base_flags(release=True):
    fl = ["-resource-dir", RESOURCE_DIR,
          "-I" + REPO, "-I" + os.path.join(REPO, "test/include"), "-I" + os.path.join(REPO, "test/stress"),
          "-I" + os.path.join(VERIF, "drivers"),
          "-isystem", SYS_PREFIX,
          "-std=gnu++11", "-mcx16",
          "-DGTEST_LANG_CXX11", "-DCDSTEST_GTEST_INSTANTIATE_TEST_CASE_P_HAS_4TH_ARG",
          "-DCDSTEST_HAVE_BYTESWAP_H", "-DCDSUNIT_ENABLE_BOOST_CONTAINER",    # test/unit/striped-{set,map}/CMakeLists.txt define it
          "-Wno-everything", "-ferror-limit=0"]
    fl.append("-DNDEBUG" if release else "-UNDEBUG")
    return fl


# per-TU deviations from the common flags (reason given)
TU_FLAGS = {
    # uses the digit separator 50'000'000, which g++ accepts in C++11 mode (the build) and clang does not
    "test/unit/misc/bit_reversal.cpp": ["-std=gnu++14"],
}

_tree_hash = None


def tree_hash():
    """content hash of every source file a parse can depend on"""
    global _tree_hash
    if _tree_hash is not None:
        return _tree_hash
    h = hashlib.sha1()
    roots = [os.path.join(REPO, d) for d in ("cds", "src", "test/include", "test/unit", "test/stress")]
    roots.append(os.path.join(VERIF, "drivers"))
    files = [os.path.join(VERIF, "tools", "cdsfacts.cc")]
    for r in roots:
        for dp, dn, fn in os.walk(r):
            for f in fn:
                files.append(os.path.join(dp, f))
    files.sort()
    for f in files:
        h.update(f.encode())
        try:
            with open(f, "rb") as fh:
                h.update(fh.read())
        except OSError:
            h.update(b"<unreadable>")
    _tree_hash = h.hexdigest()
    return _tree_hash


def expand_tus(patterns):
    """patterns are globs relative to REPO (or absolute, e.g. verif drivers)"""
    out = []
    for p in patterns:
        pp = p if os.path.isabs(p) else os.path.join(REPO, p)
        m = sorted(glob.glob(pp))
        out.extend(m)
    seen = set()
    res = []
    for f in out:
        if f not in seen:
            seen.add(f)
            res.append(f)
    return res


def _one(args):
    tu, files_re, names_re, release, outdir, max_inst = args
    key = hashlib.sha1(("%s|%s|%s|%s|%s|%s|%s" % (tu, files_re, names_re, release, tree_hash(), max_inst, " ".join(base_flags(release)))).encode()).hexdigest()
    out = os.path.join(outdir, key + ".json")
    if os.path.exists(out) and os.path.getsize(out) > 0:
        return tu, out, 0.0, "", True
    tmp = out + ".tmp%d" % os.getpid()
    cmd = [TOOL, "--files=" + files_re, "--names=" + names_re, "--max-inst=%d" % max_inst, "-o", tmp, tu, "--"] + base_flags(release)
    cmd.append("-I" + os.path.dirname(tu))
    for suffix, extra in TU_FLAGS.items():
        if tu.endswith(suffix):
            cmd = [c for c in cmd if not c.startswith("-std=")] + extra
    t = time.time()
    p = subprocess.run(cmd, stdout=subprocess.PIPE, stderr=subprocess.PIPE, universal_newlines=True)
    dt = time.time() - t
    if p.returncode != 0 or not os.path.exists(tmp):
        if os.path.exists(tmp):
            os.remove(tmp)
        return tu, None, dt, p.stderr[-4000:], False
    os.replace(tmp, out)
    return tu, out, dt, p.stderr[-2000:], False


class AnalysisBroken(Exception):
    pass


def cache_dir():
    """one sub-directory per tree state: a run never loses its files to a run on another state"""
    return os.path.join(CACHE, tree_hash()[:16])


def prune_cache(keep_hash):
    """drop cached facts of other tree states (bounded disk use); states touched in the last 20 minutes are left alone"""
    os.makedirs(CACHE, exist_ok=True)
    keep = keep_hash[:16]
    now = time.time()
    for d in os.listdir(CACHE):
        p = os.path.join(CACHE, d)
        if d == keep:
            continue
        try:
            if os.path.isdir(p):
                if now - os.path.getmtime(p) > 1200:
                    shutil.rmtree(p, ignore_errors=True)
            else:
                os.remove(p)
        except OSError:
            pass
    os.makedirs(os.path.join(CACHE, keep), exist_ok=True)
    try:
        os.utime(os.path.join(CACHE, keep), None)
    except OSError:
        pass


def extract(tu_patterns, files_re, names_re=".", release=True, jobs=None, log=None, max_inst=0):
    """returns (FactsDB, info dict). Raises AnalysisBroken if a TU fails."""
    if not os.path.exists(TOOL):
        raise AnalysisBroken("extractor %s not built (run MANIFEST.setup_cmd)" % TOOL)
    # the extractor uses llvm::Regex (POSIX ERE): no \w / \d classes
    files_re = files_re.replace("\\w", "[A-Za-z0-9_]").replace("\\d", "[0-9]")
    names_re = names_re.replace("\\w", "[A-Za-z0-9_]").replace("\\d", "[0-9]")
    tus = expand_tus(tu_patterns)
    if not tus:
        raise AnalysisBroken("no translation unit matches %r" % (tu_patterns,))
    os.makedirs(CACHE, exist_ok=True)
    prune_cache(tree_hash())
    jobs = jobs or min(16, os.cpu_count() or 4)
    t0 = time.time()
    work = [(tu, files_re, names_re, release, cache_dir(), max_inst) for tu in tus]
    results = []
    with ThreadPoolExecutor(max_workers=jobs) as ex:
        for r in ex.map(_one, work):
            results.append(r)
    db = FactsDB()
    failed = []
    cached = 0
    for tu, out, dt, err, was_cached in results:
        if out is None:
            failed.append((tu, err))
            continue
        cached += 1 if was_cached else 0
        db.add_tu(out)
    empty = [t.replace(REPO + "/", "") for t in db.empty_tus] if hasattr(db, "empty_tus") else []
    info = {"tus": len(tus), "tus_cached": cached, "functions": len(db), "tus_without_matching_functions": empty,
            "extract_s": round(time.time() - t0, 2), "tu_list": [t.replace(REPO + "/", "") for t in tus]}
    if failed:
        raise AnalysisBroken("extractor failed on %d TU(s): %s\n%s" % (
            len(failed), ", ".join(t for t, _ in failed), failed[0][1]))
    if db.errors:
        raise AnalysisBroken("parse errors in: %s" % ", ".join(db.errors))
    return db, info
