"""Query helpers shared by the rule tables."""
import re
from sa.pathsim import norm_cond

from .cfg import cfg_of
from .pathsim import PathSim, simulate, norm_cond, truth, NULL, C, is_const

ATOMIC_Q = re.compile(r"^std::(atomic|__atomic_base|atomic_flag|__atomic_flag_base)::(\w+|operator.*)$")


def atomic_op(e):
    """'load'/'store'/'exchange'/'compare_exchange_weak'/... for a call node or event on std::atomic"""
    q = e.get("q") if isinstance(e, dict) else e.q
    if not q:
        return None
    m = ATOMIC_Q.match(q)
    if not m:
        return None
    op = m.group(2)
    if op == "operator(conv)":
        return "load"
    if op == "operator=":
        return "store"
    return op


def calls_in(F, qre, top_only=False):
    """all call/ctor element nodes of F whose callee qualified name matches"""
    rx = re.compile(qre) if isinstance(qre, str) else qre
    res = []
    for b, i, e in F.all_elements():
        if e.get("k") in ("call", "ctor") and e.get("q") and rx.search(e["q"]):
            res.append(e)
    return res


def strip_sv(sv):
    """base of a field/deref/element chain"""
    while isinstance(sv, tuple) and sv:
        if sv[0] in ("fld", "deref", "elem", "addr", "bool"):
            sv = sv[1]
            continue
        if sv[0] == "get" and sv[2] is not None:
            sv = sv[2]
            continue
        break
    return sv


def sv_has(sv, pred):
    if pred(sv):
        return True
    if isinstance(sv, (tuple, frozenset)):
        return any(sv_has(x, pred) for x in sv if isinstance(x, (tuple, frozenset)))
    return False


def sv_field_path(sv):
    """names of the field chain, outermost last: p->a.b -> ['a','b']"""
    names = []
    while isinstance(sv, tuple) and sv and sv[0] in ("fld", "deref", "elem", "addr"):
        if sv[0] == "fld" and sv[2]:
            names.append(sv[2])
        sv = sv[1]
    return list(reversed(names))


def innermost_loop_of(F, block):
    cfg = cfg_of(F)
    best = None
    for h, body in cfg.loops().items():
        if block in body and (best is None or len(body) < len(best[1])):
            best = (h, body)
    return best


def iteration_paths(F, header, body, bound=4096):
    """paths of one iteration of the loop (header .. back edge / loop exit)"""
    ps = PathSim(F, bound=bound, start=header, region=set(body), havoc_loops=True)
    return ps.run()


def branch_events(path):
    return [e for e in path.events if e.kind == "branch"]


def cond_atoms(path):
    """list of (atom SV, truth assumed) for the branches taken along the path"""
    out = []
    for e in path.events:
        if e.kind == "branch" and isinstance(e.extra, tuple) and e.extra[0] != "switch":
            atom, pol = norm_cond(e.val)
            out.append((atom, e.extra[1] == pol, e))
    return out


def node_line(n):
    return n.get("l") if isinstance(n, dict) else None


def guard_conditions(F, site):
    """[(cond node, outcome bool, text)] of the two-way branches every
    entry->site path must take"""
    cfg = cfg_of(F)
    res = []
    for b, idx, term in cfg.guards_of(site):
        blk = F.blocks[b]
        if len(blk.succ) != 2:
            continue
        c = term.get("cond")
        res.append((c, idx == 0, F.text(c) if c else "", b))
    return res


def path_calls(path, qre):
    rx = re.compile(qre) if isinstance(qre, str) else qre
    return [e for e in path.events if e.kind in ("call", "ctor") and e.q and rx.search(e.q)]


def parent_map(F):
    """id(node) -> parent node, over the fully linked expression forest of F"""
    pm = F._cache.get("parents")
    if pm is not None:
        return pm
    pm = {}

    def rec(n):
        for c in F.children(n):
            cd = F.deref(c)
            if isinstance(cd, dict) and id(cd) not in pm:
                pm[id(cd)] = n
                rec(cd)
    for _, _, e in F.all_elements():
        rec(e)
    F._cache["parents"] = pm
    return pm


def widening_shifts(F):
    """E7: shifts 'L << n' evaluated in a type narrower than the integer type
    their value is implicitly converted to (directly or through same-width
    arithmetic), with a non-constant amount or a constant amount >= width-1.
    returns list of (shift node, narrow width, wide width, cast node)"""
    pm = parent_map(F)
    out = []
    for _, _, e in F.all_elements():
        if e.get("k") != "bin" or e.get("op") != "<<" or not e.get("iw"):
            continue
        L = e["iw"]
        amt = F.deref(e["rhs"])
        c = None
        x = amt
        for _ in range(6):
            if "cv" in x:
                c = x["cv"]
                break
            if x.get("k") in ("cast", "w"):
                x = F.deref(x["sub"])
            else:
                break
        lhs_const = None
        x = F.deref(e["lhs"])
        for _ in range(6):
            if "cv" in x:
                lhs_const = x["cv"]
                break
            if x.get("k") in ("cast", "w"):
                x = F.deref(x["sub"])
            else:
                break
        if c is not None and c < L - 1:
            continue
        # climb through same-width arithmetic
        cur = e
        while True:
            p = pm.get(id(cur))
            if p is None:
                break
            k = p.get("k")
            if k == "w":
                cur = p
                continue
            if k in ("bin", "un") and p.get("iw") == L and p.get("op") in ("-", "+", "~", "&", "|", "^"):
                cur = p
                continue
            if k == "cast" and p.get("impl") and not p.get("pex") and p.get("ck") == "IntegralCast" and p.get("iw", 0) > L:
                out.append((e, L, p["iw"], p, lhs_const, c))
            break
    return out


def path_end(p):
    """('return'|'leave'|'dead'|'throw', None) or ('back', header block)"""
    if p.outcome == "back":
        for e in reversed(p.events):
            if e.kind == "end":
                return ("back", e.extra[1])
    return (p.outcome, None)


def sv_mentions(sv, target):
    """target SV occurs somewhere inside sv"""
    if sv == target:
        return True
    if isinstance(sv, (tuple, frozenset)):
        return any(sv_mentions(x, target) for x in sv if isinstance(x, (tuple, frozenset)))
    return False


def sv_affine(sv, depth=0):
    """affine normal form of a symbolic value: dict atom -> coefficient (key 1 = constant); casts are transparent"""
    if depth > 40 or not isinstance(sv, tuple) or not sv:
        return {sv: 1}
    if sv[0] == "c" and isinstance(sv[1], int):
        return {1: sv[1]} if sv[1] else {}
    if sv[0] == "null":
        return {}
    if sv[0] == "op" and sv[1] in ("+", "-"):
        a = sv_affine(sv[2], depth + 1)
        b = sv_affine(sv[3], depth + 1)
        out = dict(a)
        k = 1 if sv[1] == "+" else -1
        for x, c in b.items():
            out[x] = out.get(x, 0) + k * c
            if out[x] == 0:
                del out[x]
        return out
    if sv[0] == "op" and sv[1] == "*":
        a = sv_affine(sv[2], depth + 1)
        b = sv_affine(sv[3], depth + 1)
        if set(b) <= {1}:
            return {x: c * b.get(1, 0) for x, c in a.items() if c * b.get(1, 0)}
        if set(a) <= {1}:
            return {x: c * a.get(1, 0) for x, c in b.items() if c * a.get(1, 0)}
    if sv[0] == "bool":
        return sv_affine(sv[1], depth + 1)
    return {sv: 1}


def aff_sub(a, b):
    out = dict(a)
    for x, c in b.items():
        out[x] = out.get(x, 0) - c
        if out[x] == 0:
            del out[x]
    return out


def zero_facts(p):
    """affine expressions known to be zero on the path: from  a == b  taken true and from  x  (or x != 0) taken false"""
    out = []
    for atom, tv, bev in cond_atoms(p):
        if isinstance(atom, tuple) and len(atom) == 4 and atom[0] == "op" and atom[1] == "==":
            if tv:
                out.append((aff_sub(sv_affine(atom[2]), sv_affine(atom[3])), bev))
        elif isinstance(atom, tuple) and atom and atom[0] == "op" and atom[1] in ("<", "<=", ">", ">=", "&&", "||", "&", "|"):
            continue
        elif tv is False:
            out.append((sv_affine(atom), bev))
    return out


def noepoch(sv):
    """drop the memory-epoch component of field/element reads (identity of the location, not of the read)"""
    if isinstance(sv, tuple):
        if len(sv) == 4 and sv[0] == "fld":
            return ("fld", noepoch(sv[1]), sv[2])
        if len(sv) == 4 and sv[0] == "elem":
            return ("elem", noepoch(sv[1]), noepoch(sv[2]))
        return tuple(noepoch(x) for x in sv)
    return sv


def lock_state(p, lock_pred):
    """per event index: number of locks (matching lock_pred on the lock object SV) held *before* that event.
    Recognises x.lock()/x.unlock()/x.try_lock() (decided true) and RAII guards (unique_lock/lock_guard/scoped_lock variables) over x."""
    ev = p.events
    held = 0
    out = []
    raii = {}     # var decl id -> 1
    raii_sv = {}  # object SV of the RAII variable -> var decl id
    trylocks = {}
    for i, e in enumerate(ev):
        out.append(held)
        if e.kind == "call" and e.q:
            name = e.q.split("::")[-1]
            if name in ("lock", "unlock") and e.obj in raii_sv and raii_sv[e.obj] in raii:
                # explicit unlock()/lock() through a unique_lock object
                k = raii_sv[e.obj]
                if name == "unlock" and raii[k] == 1:
                    raii[k] = 0
                    held -= 1
                elif name == "lock" and raii[k] == 0:
                    raii[k] = 1
                    held += 1
            elif name == "lock" and e.obj is not None and lock_pred(e.obj):
                held += 1
            elif name == "unlock" and e.obj is not None and lock_pred(e.obj):
                held -= 1
            elif name == "try_lock" and e.obj is not None and lock_pred(e.obj):
                trylocks[e.val] = i
        elif e.kind == "var" and e.extra and re.search(r"(unique_lock|lock_guard|scoped_lock)$", str(e.extra[1])):
            if any(lock_pred(a) for a in (e.args or ())):
                raii[e.obj] = 1
                raii_sv[e.val] = e.obj
                held += 1
        elif e.kind == "dtor" and e.obj in raii:
            held -= raii.pop(e.obj)
        elif e.kind == "branch" and trylocks:
            atom, pol = norm_cond(e.val)
            if atom in trylocks and isinstance(e.extra, tuple) and (e.extra[1] == pol):
                held += 1
                del trylocks[atom]
    out.append(held)
    return out
