// cdsfacts: fact extractor for the libcds static checks (see DESIGN.md §2).
//
// For every non-dependent function definition (template instantiations
// included, lambdas included) whose definition file matches --files and whose
// stripped qualified name matches --names, emit the clang CFG with
// per-element expression trees as JSON.  Nothing is executed; the tool only
// parses.
//
//   cdsfacts --files=RE --names=RE -o out.json file.cpp -- <compile flags>
//
// JSON (compact keys; strings interned in "S" and referenced as integers for
// the keys t, m, qt, ct):
//   {"tu":..., "S":[...], "F":[ function... ]}
//   function: {"m":mangled,"q":stripped qualified name,"qt":full name,
//              "file":..,"line":..,"ret":type,"cls":stripped record name,
//              "ct":record type with args,"kind":"fn|ctor|dtor|conv|lambda",
//              "params":[{"d":declid,"n":name,"t":type}],
//              "entry":b,"exit":b,
//              "B":[{"id":b,"succ":[b|-1...],"psucc":[...],
//                    "term":{"k":..,"cond":node},"label":{..},"E":[node...]}]}
//   node: {"id":e (only CFG elements),"k":kind,"t":type,"l":line,...}
//         a child that is itself a CFG element is {"r":e}.
#include "clang/AST/ASTConsumer.h"
#include "clang/AST/ASTContext.h"
#include "clang/AST/Mangle.h"
#include "clang/AST/RecursiveASTVisitor.h"
#include "clang/AST/ExprCXX.h"
#include "clang/AST/StmtCXX.h"
#include "clang/Analysis/CFG.h"
#include "clang/Frontend/CompilerInstance.h"
#include "clang/Frontend/FrontendAction.h"
#include "clang/Lex/Lexer.h"
#include "clang/Tooling/CommonOptionsParser.h"
#include "clang/Tooling/Tooling.h"
#include "llvm/Support/CommandLine.h"
#include "llvm/Support/JSON.h"
#include "llvm/Support/Regex.h"
#include "llvm/Support/raw_ostream.h"
#include <map>
#include <set>
#include <string>
#include <unordered_map>

using namespace clang;
using namespace clang::tooling;
namespace json = llvm::json;

static llvm::cl::OptionCategory Cat("cdsfacts options");
static llvm::cl::opt<std::string> OutFile("o", llvm::cl::desc("output file"),
                                          llvm::cl::init("-"), llvm::cl::cat(Cat));
static llvm::cl::opt<std::string> FilesRE("files", llvm::cl::desc("regex on definition file"),
                                          llvm::cl::init("^/repo/(cds|src)/"), llvm::cl::cat(Cat));
static llvm::cl::opt<std::string> NamesRE("names", llvm::cl::desc("regex on stripped qualified name"),
                                          llvm::cl::init("."), llvm::cl::cat(Cat));
static llvm::cl::opt<unsigned> MaxInst("max-inst", llvm::cl::desc("emit members of at most N specializations of each class template (0 = all)"),
                                       llvm::cl::init(0), llvm::cl::cat(Cat));

namespace {

struct Interner {
  std::vector<std::string> Strs;
  std::unordered_map<std::string, unsigned> Map;
  unsigned get(const std::string &S) {
    auto It = Map.find(S);
    if (It != Map.end()) return It->second;
    unsigned N = Strs.size();
    Strs.push_back(S);
    Map.emplace(S, N);
    return N;
  }
};

// qualified name with all template argument lists removed
static std::string strippedName(const NamedDecl *D) {
  std::string Out;
  llvm::SmallVector<const DeclContext *, 8> Ctxs;
  for (const DeclContext *DC = D->getDeclContext(); DC; DC = DC->getParent()) {
    if (isa<TranslationUnitDecl>(DC)) break;
    Ctxs.push_back(DC);
  }
  for (auto It = Ctxs.rbegin(); It != Ctxs.rend(); ++It) {
    const DeclContext *DC = *It;
    if (const auto *NS = dyn_cast<NamespaceDecl>(DC)) {
      if (NS->isInline()) continue;
      if (NS->isAnonymousNamespace()) Out += "(anon)::";
      else Out += NS->getNameAsString() + "::";
    } else if (const auto *RD = dyn_cast<RecordDecl>(DC)) {
      if (const auto *CRD = dyn_cast<CXXRecordDecl>(RD)) {
        if (CRD->isLambda()) { Out += "(lambda)::"; continue; }
      }
      if (RD->getIdentifier()) Out += RD->getNameAsString() + "::";
      else if (const TypedefNameDecl *TD = RD->getTypedefNameForAnonDecl())
        Out += TD->getNameAsString() + "::";
      else Out += "(anon)::";
    } else if (const auto *FD = dyn_cast<FunctionDecl>(DC)) {
      Out += strippedName(FD) + "::";
    } else if (const auto *ED = dyn_cast<EnumDecl>(DC)) {
      if (ED->isScoped()) Out += ED->getNameAsString() + "::";
    }
  }
  if (const auto *CD = dyn_cast<CXXConstructorDecl>(D)) {
    Out += CD->getParent()->getNameAsString();
  } else if (const auto *DD = dyn_cast<CXXDestructorDecl>(D)) {
    Out += "~" + DD->getParent()->getNameAsString();
  } else if (isa<CXXConversionDecl>(D)) {
    Out += "operator(conv)";
  } else {
    Out += D->getNameAsString();
  }
  return Out;
}

class Emitter {
public:
  Emitter(ASTContext &Ctx, Interner &In, json::OStream &J)
      : Ctx(Ctx), SM(Ctx.getSourceManager()), In(In), J(J),
        PP(Ctx.getPrintingPolicy()) {
    PP.SuppressTagKeyword = true;
    PP.Bool = true;
    PP.FullyQualifiedName = true;
    PP.SuppressUnwrittenScope = true;
    PP.PrintCanonicalTypes = true;
    MC.reset(ItaniumMangleContext::create(Ctx, Ctx.getDiagnostics()));
  }

  std::string mangled(const FunctionDecl *FD) {
    std::string S;
    llvm::raw_string_ostream OS(S);
    if (FD->isDependentContext()) { return "dep:" + strippedName(FD); }
    if (const auto *CD = dyn_cast<CXXConstructorDecl>(FD))
      MC->mangleName(GlobalDecl(CD, Ctor_Complete), OS);
    else if (const auto *DD = dyn_cast<CXXDestructorDecl>(FD))
      MC->mangleName(GlobalDecl(DD, Dtor_Complete), OS);
    else if (MC->shouldMangleDeclName(FD))
      MC->mangleName(GlobalDecl(FD), OS);
    else
      OS << FD->getNameAsString();
    OS.flush();
    return S;
  }

  std::string typeStr(QualType T) {
    if (T.isNull()) return "?";
    return T.getCanonicalType().getAsString(PP);
  }

  unsigned lineOf(SourceLocation L) {
    if (L.isInvalid()) return 0;
    return SM.getExpansionLineNumber(L);
  }
  std::string fileOf(SourceLocation L) {
    if (L.isInvalid()) return "";
    PresumedLoc P = SM.getPresumedLoc(SM.getExpansionLoc(L));
    if (P.isInvalid()) return "";
    return P.getFilename();
  }

  void emitFunction(const FunctionDecl *FD) {
    const Stmt *Body = FD->getBody();
    if (!Body) return;
    CFG::BuildOptions BO;
    BO.setAllAlwaysAdd();
    BO.AddImplicitDtors = true;
    BO.AddInitializers = true;
    BO.AddTemporaryDtors = false;
    BO.AddEHEdges = false;
    BO.PruneTriviallyFalseEdges = true;
    std::unique_ptr<CFG> G = CFG::buildCFG(FD, const_cast<Stmt *>(Body), &Ctx, BO);
    if (!G) return;

    ElemId.clear();
    unsigned NextId = 0;
    for (const CFGBlock *B : *G)
      for (const CFGElement &E : *B)
        if (auto S = E.getAs<CFGStmt>())
          if (!ElemId.count(S->getStmt())) ElemId[S->getStmt()] = NextId++;
    CurFile = fileOf(FD->getLocation());

    J.object([&] {
      J.attribute("m", In.get(mangled(FD)));
      J.attribute("q", strippedName(FD));
      {
        std::string S; llvm::raw_string_ostream OS(S);
        FD->getNameForDiagnostic(OS, PP, true); OS.flush();
        J.attribute("qt", In.get(S));
      }
      J.attribute("file", CurFile);
      J.attribute("line", lineOf(FD->getLocation()));
      J.attribute("ret", In.get(typeStr(FD->getReturnType())));
      const char *Kind = "fn";
      if (isa<CXXConstructorDecl>(FD)) Kind = "ctor";
      else if (isa<CXXDestructorDecl>(FD)) Kind = "dtor";
      else if (isa<CXXConversionDecl>(FD)) Kind = "conv";
      if (const auto *MD = dyn_cast<CXXMethodDecl>(FD)) {
        const CXXRecordDecl *RD = MD->getParent();
        if (RD->isLambda()) Kind = "lambda";
        J.attribute("cls", strippedName(RD));
        J.attribute("ct", In.get(typeStr(Ctx.getRecordType(RD))));
        if (MD->isStatic()) J.attribute("static", true);
        if (MD->isConst()) J.attribute("const", true);
      }
      J.attribute("kind", Kind);
      if (const auto *TA = FD->getTemplateSpecializationArgs()) {
        std::string S; llvm::raw_string_ostream OS(S);
        printTemplateArgumentList(OS, TA->asArray(), PP); OS.flush();
        J.attribute("fta", In.get(S));
      }
      J.attributeArray("params", [&] {
        for (const ParmVarDecl *P : FD->parameters())
          J.object([&] {
            J.attribute("d", (int64_t)P->getID());
            J.attribute("n", P->getNameAsString());
            J.attribute("t", In.get(typeStr(P->getType())));
          });
      });
      J.attribute("entry", G->getEntry().getBlockID());
      J.attribute("exit", G->getExit().getBlockID());
      J.attributeArray("B", [&] {
        for (const CFGBlock *B : *G) emitBlock(B);
      });
    });
  }

private:
  ASTContext &Ctx;
  SourceManager &SM;
  Interner &In;
  json::OStream &J;
  PrintingPolicy PP;
  std::unique_ptr<ItaniumMangleContext> MC;
  llvm::DenseMap<const Stmt *, unsigned> ElemId;
  std::string CurFile;

  void emitBlock(const CFGBlock *B) {
    J.object([&] {
      J.attribute("id", B->getBlockID());
      J.attributeArray("succ", [&] {
        for (auto I = B->succ_begin(); I != B->succ_end(); ++I) {
          const CFGBlock *S = I->getReachableBlock();
          J.value(S ? (int64_t)S->getBlockID() : (int64_t)-1);
        }
      });
      bool AnyUnreach = false;
      for (auto I = B->succ_begin(); I != B->succ_end(); ++I)
        if (!I->getReachableBlock() && I->getPossiblyUnreachableBlock()) AnyUnreach = true;
      if (AnyUnreach)
        J.attributeArray("psucc", [&] {
          for (auto I = B->succ_begin(); I != B->succ_end(); ++I) {
            const CFGBlock *S = I->getPossiblyUnreachableBlock();
            J.value(S ? (int64_t)S->getBlockID() : (int64_t)-1);
          }
        });
      if (B->hasNoReturnElement()) J.attribute("noret", true);
      if (const Stmt *L = B->getLabel()) {
        J.attributeObject("label", [&] {
          if (const auto *CS = dyn_cast<CaseStmt>(L)) {
            Expr::EvalResult R;
            if (CS->getLHS() && !CS->getLHS()->isValueDependent() &&
                CS->getLHS()->EvaluateAsInt(R, Ctx))
              J.attribute("case", R.Val.getInt().getExtValue());
            else J.attribute("case", nullptr);
            J.attributeBegin("lhs"); emitNode(CS->getLHS(), false); J.attributeEnd();
          } else if (isa<DefaultStmt>(L)) J.attribute("default", true);
          else if (const auto *LS = dyn_cast<LabelStmt>(L)) J.attribute("name", LS->getName());
          else if (isa<CXXCatchStmt>(L)) J.attribute("catch", true);
          J.attribute("l", lineOf(L->getBeginLoc()));
        });
      }
      if (const Stmt *T = B->getTerminatorStmt()) {
        J.attributeObject("term", [&] {
          const char *K = T->getStmtClassName();
          if (const auto *BOp = dyn_cast<BinaryOperator>(T))
            K = BOp->getOpcode() == BO_LAnd ? "&&" : (BOp->getOpcode() == BO_LOr ? "||" : K);
          J.attribute("k", K);
          J.attribute("l", lineOf(T->getBeginLoc()));
          if (const Stmt *C = B->getTerminatorCondition(false)) {
            J.attributeBegin("cond"); emitNode(C, false); J.attributeEnd();
          }
        });
      }
      J.attributeArray("E", [&] {
        for (const CFGElement &E : *B) emitElement(E);
      });
    });
  }

  void emitElement(const CFGElement &E) {
    switch (E.getKind()) {
    case CFGElement::Statement:
    case CFGElement::Constructor:
    case CFGElement::CXXRecordTypedCall: {
      const Stmt *S = E.castAs<CFGStmt>().getStmt();
      emitNode(S, true);
      break;
    }
    case CFGElement::Initializer: {
      const CXXCtorInitializer *I = E.castAs<CFGInitializer>().getInitializer();
      J.object([&] {
        J.attribute("k", "init");
        J.attribute("l", lineOf(I->getSourceLocation()));
        if (I->isAnyMemberInitializer() && I->getAnyMember())
          J.attribute("field", I->getAnyMember()->getNameAsString());
        else if (I->isBaseInitializer())
          J.attribute("base", In.get(typeStr(QualType(I->getBaseClass(), 0))));
        else if (I->isDelegatingInitializer())
          J.attribute("delegating", true);
        if (I->getInit()) { J.attributeBegin("init"); emitNode(I->getInit(), false); J.attributeEnd(); }
      });
      break;
    }
    case CFGElement::AutomaticObjectDtor: {
      auto D = E.castAs<CFGAutomaticObjDtor>();
      const VarDecl *VD = D.getVarDecl();
      J.object([&] {
        J.attribute("k", "autodtor");
        J.attribute("d", (int64_t)VD->getID());
        J.attribute("n", VD->getNameAsString());
        J.attribute("t", In.get(typeStr(VD->getType())));
        if (const Stmt *T = D.getTriggerStmt()) J.attribute("l", lineOf(T->getEndLoc()));
        QualType Ty = VD->getType().getNonReferenceType();
        if (const CXXRecordDecl *RD = Ty->getAsCXXRecordDecl()) {
          J.attribute("cls", strippedName(RD));
          if (const CXXDestructorDecl *DD = RD->getDestructor()) {
            J.attribute("q", strippedName(DD));
            J.attribute("m", In.get(mangled(DD)));
          }
        }
      });
      break;
    }
    case CFGElement::BaseDtor:
    case CFGElement::MemberDtor:
    case CFGElement::DeleteDtor:
    case CFGElement::TemporaryDtor: {
      J.object([&] {
        J.attribute("k", "implicitdtor");
        if (auto MD = E.getAs<CFGMemberDtor>())
          J.attribute("field", MD->getFieldDecl()->getNameAsString());
      });
      break;
    }
    default:
      J.object([&] { J.attribute("k", "other"); });
      break;
    }
  }

  void child(const char *Key, const Stmt *S) {
    J.attributeBegin(Key);
    emitNode(S, false);
    J.attributeEnd();
  }

  void emitCallee(const FunctionDecl *FD) {
    J.attribute("q", strippedName(FD));
    J.attribute("m", In.get(mangled(FD)));
    if (FD->isNoReturn()) J.attribute("noret", true);
    if (const auto *MD = dyn_cast<CXXMethodDecl>(FD)) {
      J.attribute("cls", strippedName(MD->getParent()));
      if (MD->isVirtual()) J.attribute("virt", true);
    }
  }

  // indices (into the emitted "args") of arguments bound to a non-const
  // lvalue reference or passed as pointer-to-non-const: may be written by the callee
  void emitNonConst(const FunctionDecl *FD, unsigned Skip, unsigned NArgs) {
    if (!FD) return;
    (void)Skip; (void)NArgs;
    auto isRef = [](QualType T) {
      return T->isLValueReferenceType() && !T.getNonReferenceType().isConstQualified();
    };
    auto isPtr = [](QualType T) {
      return T->isPointerType() && !T->getPointeeType().isConstQualified();
    };
    bool AnyR = false, AnyP = false;
    for (unsigned I = 0; I < FD->getNumParams(); ++I) {
      QualType T = FD->getParamDecl(I)->getType();
      if (isRef(T)) AnyR = true;
      if (isPtr(T)) AnyP = true;
    }
    if (AnyR)
      J.attributeArray("nc", [&] {
        for (unsigned I = 0; I < FD->getNumParams(); ++I)
          if (isRef(FD->getParamDecl(I)->getType())) J.value((int64_t)I);
      });
    if (AnyP)
      J.attributeArray("ncp", [&] {
        for (unsigned I = 0; I < FD->getNumParams(); ++I)
          if (isPtr(FD->getParamDecl(I)->getType())) J.value((int64_t)I);
      });
  }

  void emitNode(const Stmt *S, bool Top) {
    if (!S) { J.value(nullptr); return; }
    if (!Top) {
      auto It = ElemId.find(S);
      if (It != ElemId.end()) {
        J.object([&] { J.attribute("r", It->second); });
        return;
      }
    }
    J.object([&] {
      if (Top) {
        auto It = ElemId.find(S);
        if (It != ElemId.end()) J.attribute("id", It->second);
      }
      J.attribute("l", lineOf(S->getBeginLoc()));
      if (S->getBeginLoc().isMacroID()) {
        StringRef MN = Lexer::getImmediateMacroName(S->getBeginLoc(), SM, Ctx.getLangOpts());
        J.attribute("mac", MN);
      }
      {
        std::string F = fileOf(S->getBeginLoc());
        if (!F.empty() && F != CurFile) J.attribute("f", F);
      }
      if (const auto *E = dyn_cast<Expr>(S)) {
        QualType T = E->getType();
        J.attribute("t", In.get(typeStr(T)));
        if (!T.isNull() && T->isIntegralOrEnumerationType() && !T->isDependentType()) {
          J.attribute("iw", (int64_t)Ctx.getIntWidth(T));
          if (T->isSignedIntegerOrEnumerationType()) J.attribute("is", 1);
        }
        if (E->isGLValue()) J.attribute("lv", 1);
        if (!E->isValueDependent() && !E->isTypeDependent() && !T.isNull() &&
            (T->isIntegralOrEnumerationType() || T->isPointerType() || T->isNullPtrType())) {
          Expr::EvalResult R;
          if (T->isIntegralOrEnumerationType() && E->isPRValue() &&
              E->EvaluateAsInt(R, Ctx, Expr::SE_NoSideEffects)) {
            llvm::APSInt V = R.Val.getInt();
            if (V.isSigned()) J.attribute("cv", V.getExtValue());
            else if (V.getActiveBits() <= 63) J.attribute("cv", (int64_t)V.getZExtValue());
            else J.attribute("cvs", llvm::toString(V, 10));
          }
        }
      }
      emitKind(S);
    });
  }

  void emitArgs(llvm::iterator_range<CallExpr::const_arg_iterator> Args) {
    J.attributeArray("args", [&] { for (const Expr *A : Args) emitNode(A, false); });
  }

  void emitKind(const Stmt *S) {
    if (const auto *CE = dyn_cast<CXXMemberCallExpr>(S)) {
      J.attribute("k", "call");
      J.attribute("mem", true);
      if (const CXXMethodDecl *MD = CE->getMethodDecl()) { emitCallee(MD); emitNonConst(MD, 0, CE->getNumArgs()); if (MD->isConst()) J.attribute("constm", true); }
      else child("fn", CE->getCallee());
      child("obj", CE->getImplicitObjectArgument());
      if (const auto *ME = dyn_cast<MemberExpr>(CE->getCallee()->IgnoreParens()))
        if (ME->isArrow()) J.attribute("arrow", true);
      emitArgs(CE->arguments());
    } else if (const auto *OE = dyn_cast<CXXOperatorCallExpr>(S)) {
      J.attribute("k", "call");
      J.attribute("op", getOperatorSpelling(OE->getOperator()));
      const FunctionDecl *FD = OE->getDirectCallee();
      if (FD) emitCallee(FD);
      if (FD && isa<CXXMethodDecl>(FD) && OE->getNumArgs() >= 1) {
        J.attribute("mem", true);
        emitNonConst(FD, 0, OE->getNumArgs() - 1);
        if (cast<CXXMethodDecl>(FD)->isConst()) J.attribute("constm", true);
        child("obj", OE->getArg(0));
        J.attributeArray("args", [&] {
          for (unsigned I = 1; I < OE->getNumArgs(); ++I) emitNode(OE->getArg(I), false);
        });
      } else emitArgs(OE->arguments());
    } else if (const auto *CE = dyn_cast<CallExpr>(S)) {
      J.attribute("k", "call");
      if (const FunctionDecl *FD = CE->getDirectCallee()) { emitCallee(FD); emitNonConst(FD, 0, CE->getNumArgs()); }
      else child("fn", CE->getCallee());
      emitArgs(CE->arguments());
    } else if (const auto *CE = dyn_cast<CXXConstructExpr>(S)) {
      J.attribute("k", "ctor");
      emitCallee(CE->getConstructor());
      emitNonConst(CE->getConstructor(), 0, CE->getNumArgs());
      if (CE->isElidable()) J.attribute("elidable", true);
      if (CE->getConstructor()->isCopyOrMoveConstructor()) J.attribute("copymove", true);
      J.attributeArray("args", [&] { for (const Expr *A : CE->arguments()) emitNode(A, false); });
    } else if (const auto *ME = dyn_cast<MemberExpr>(S)) {
      J.attribute("k", "member");
      J.attribute("n", ME->getMemberDecl()->getNameAsString());
      if (const auto *FD = dyn_cast<FieldDecl>(ME->getMemberDecl())) {
        J.attribute("cls", strippedName(FD->getParent()));
      } else if (const auto *VD = dyn_cast<VarDecl>(ME->getMemberDecl())) {
        J.attribute("q", strippedName(VD));
      } else if (const auto *MD = dyn_cast<CXXMethodDecl>(ME->getMemberDecl())) {
        J.attribute("method", strippedName(MD));
      }
      if (ME->isArrow()) J.attribute("arrow", true);
      child("base", ME->getBase());
    } else if (const auto *DR = dyn_cast<DeclRefExpr>(S)) {
      J.attribute("k", "ref");
      const ValueDecl *D = DR->getDecl();
      J.attribute("d", (int64_t)D->getID());
      J.attribute("n", D->getNameAsString());
      if (const auto *VD = dyn_cast<VarDecl>(D)) {
        if (isa<ParmVarDecl>(VD)) J.attribute("dk", "parm");
        else if (VD->isLocalVarDecl()) J.attribute("dk", VD->isStaticLocal() ? "slocal" : "local");
        else { J.attribute("dk", "global"); J.attribute("q", strippedName(VD)); }
      } else if (const auto *FD = dyn_cast<FunctionDecl>(D)) {
        J.attribute("dk", "func");
        J.attribute("q", strippedName(FD));
        J.attribute("m", In.get(mangled(FD)));
      } else if (isa<EnumConstantDecl>(D)) {
        J.attribute("dk", "enum");
        J.attribute("q", strippedName(D));
      } else if (isa<FieldDecl>(D)) {
        J.attribute("dk", "field");
      } else if (isa<BindingDecl>(D)) {
        J.attribute("dk", "binding");
      } else J.attribute("dk", "other");
    } else if (const auto *IL = dyn_cast<IntegerLiteral>(S)) {
      J.attribute("k", "lit");
      (void)IL;
    } else if (const auto *BL = dyn_cast<CXXBoolLiteralExpr>(S)) {
      J.attribute("k", "lit");
      J.attribute("b", BL->getValue());
    } else if (isa<CXXNullPtrLiteralExpr>(S) || isa<GNUNullExpr>(S)) {
      J.attribute("k", "lit");
      J.attribute("null", true);
    } else if (isa<CharacterLiteral>(S) || isa<FloatingLiteral>(S) || isa<StringLiteral>(S)) {
      J.attribute("k", "lit");
    } else if (const auto *UO = dyn_cast<UnaryOperator>(S)) {
      J.attribute("k", "un");
      J.attribute("op", UnaryOperator::getOpcodeStr(UO->getOpcode()));
      if (UO->isPostfix()) J.attribute("post", true);
      child("sub", UO->getSubExpr());
    } else if (const auto *CAO = dyn_cast<CompoundAssignOperator>(S)) {
      J.attribute("k", "bin");
      J.attribute("op", CAO->getOpcodeStr());
      J.attribute("compound", true);
      QualType CT = CAO->getComputationResultType();
      if (!CT.isNull() && CT->isIntegralOrEnumerationType())
        J.attribute("cw", (int64_t)Ctx.getIntWidth(CT));
      child("lhs", CAO->getLHS());
      child("rhs", CAO->getRHS());
    } else if (const auto *BOp = dyn_cast<BinaryOperator>(S)) {
      J.attribute("k", "bin");
      J.attribute("op", BOp->getOpcodeStr());
      child("lhs", BOp->getLHS());
      child("rhs", BOp->getRHS());
    } else if (const auto *CO = dyn_cast<AbstractConditionalOperator>(S)) {
      J.attribute("k", "cond");
      child("c", CO->getCond());
      child("a", CO->getTrueExpr());
      child("b", CO->getFalseExpr());
    } else if (const auto *CE = dyn_cast<CastExpr>(S)) {
      J.attribute("k", "cast");
      J.attribute("ck", CE->getCastKindName());
      if (const auto *ICE = dyn_cast<ImplicitCastExpr>(CE)) {
        J.attribute("impl", true);
        if (ICE->isPartOfExplicitCast()) J.attribute("pex", true);
      }
      else J.attribute("style", CE->getStmtClassName());
      child("sub", CE->getSubExpr());
    } else if (isa<CXXThisExpr>(S)) {
      J.attribute("k", "this");
    } else if (const auto *DS = dyn_cast<DeclStmt>(S)) {
      J.attribute("k", "decl");
      J.attributeArray("vars", [&] {
        for (const Decl *D : DS->decls()) {
          const auto *VD = dyn_cast<VarDecl>(D);
          if (!VD) continue;
          J.object([&] {
            J.attribute("d", (int64_t)VD->getID());
            J.attribute("n", VD->getNameAsString());
            J.attribute("t", In.get(typeStr(VD->getType())));
            if (VD->getType()->isReferenceType()) J.attribute("isref", true);
            if (VD->isStaticLocal()) J.attribute("static", true);
            QualType T = VD->getType().getNonReferenceType();
            if (!T.isNull() && T->isIntegralOrEnumerationType()) {
              J.attribute("iw", (int64_t)Ctx.getIntWidth(T));
              if (T->isSignedIntegerOrEnumerationType()) J.attribute("is", 1);
            }
            if (const CXXRecordDecl *RD = T->getAsCXXRecordDecl())
              J.attribute("cls", strippedName(RD));
            if (VD->getInit()) child("init", VD->getInit());
          });
        }
      });
    } else if (const auto *RS = dyn_cast<ReturnStmt>(S)) {
      J.attribute("k", "ret");
      if (RS->getRetValue()) child("v", RS->getRetValue());
    } else if (const auto *NE = dyn_cast<CXXNewExpr>(S)) {
      J.attribute("k", "new");
      J.attribute("at", In.get(typeStr(NE->getAllocatedType())));
      if (NE->isArray()) {
        J.attribute("array", true);
        if (auto AS = NE->getArraySize()) if (*AS) child("asize", *AS);
      }
      if (NE->getNumPlacementArgs())
        J.attributeArray("place", [&] { for (const Expr *A : NE->placement_arguments()) emitNode(A, false); });
      if (NE->getConstructExpr()) child("ctor", NE->getConstructExpr());
      else if (NE->getInitializer()) child("ctor", NE->getInitializer());
    } else if (const auto *DE = dyn_cast<CXXDeleteExpr>(S)) {
      J.attribute("k", "delete");
      if (DE->isArrayForm()) J.attribute("array", true);
      child("sub", DE->getArgument());
    } else if (const auto *LE = dyn_cast<LambdaExpr>(S)) {
      J.attribute("k", "lambda");
      if (const CXXMethodDecl *Op = LE->getCallOperator()) {
        J.attribute("m", In.get(mangled(Op)));
      }
      J.attributeArray("caps", [&] {
        for (const LambdaCapture &C : LE->captures()) {
          J.object([&] {
            if (C.capturesThis()) J.attribute("this", true);
            else if (C.capturesVariable()) {
              J.attribute("d", (int64_t)C.getCapturedVar()->getID());
              J.attribute("n", C.getCapturedVar()->getNameAsString());
            }
            if (C.getCaptureKind() == LCK_ByRef) J.attribute("byref", true);
          });
        }
      });
    } else if (const auto *AS = dyn_cast<ArraySubscriptExpr>(S)) {
      J.attribute("k", "subscript");
      child("base", AS->getBase());
      child("idx", AS->getIdx());
    } else if (const auto *UE = dyn_cast<UnaryExprOrTypeTraitExpr>(S)) {
      J.attribute("k", "sizeof");
      if (UE->getKind() != UETT_SizeOf) J.attribute("uk", (int64_t)UE->getKind());
      QualType AT = UE->isArgumentType() ? UE->getArgumentType() : UE->getArgumentExpr()->getType();
      J.attribute("st", In.get(typeStr(AT)));
    } else if (const auto *DA = dyn_cast<CXXDefaultArgExpr>(S)) {
      J.attribute("k", "defarg");
      child("sub", DA->getExpr());
    } else if (const auto *DI = dyn_cast<CXXDefaultInitExpr>(S)) {
      J.attribute("k", "w");
      child("sub", DI->getExpr());
    } else if (const auto *PE = dyn_cast<ParenExpr>(S)) {
      J.attribute("k", "w");
      child("sub", PE->getSubExpr());
    } else if (const auto *FE = dyn_cast<FullExpr>(S)) { // ExprWithCleanups, ConstantExpr
      J.attribute("k", "w");
      child("sub", FE->getSubExpr());
    } else if (const auto *MT = dyn_cast<MaterializeTemporaryExpr>(S)) {
      J.attribute("k", "w");
      J.attribute("wk", "mat");
      child("sub", MT->getSubExpr());
    } else if (const auto *BT = dyn_cast<CXXBindTemporaryExpr>(S)) {
      J.attribute("k", "w");
      child("sub", BT->getSubExpr());
    } else if (const auto *TO = dyn_cast<CXXTemporaryObjectExpr>(S)) {
      (void)TO; // handled by CXXConstructExpr above (subclass)
    } else if (const auto *FC = dyn_cast<CXXFunctionalCastExpr>(S)) {
      (void)FC; // CastExpr above
    } else if (const auto *IL2 = dyn_cast<InitListExpr>(S)) {
      J.attribute("k", "initlist");
      J.attributeArray("args", [&] { for (const Expr *A : IL2->inits()) emitNode(A, false); });
    } else if (const auto *SV = dyn_cast<CXXScalarValueInitExpr>(S)) {
      (void)SV;
      J.attribute("k", "lit");
      J.attribute("zero", true);
    } else if (isa<GCCAsmStmt>(S) || isa<MSAsmStmt>(S)) {
      J.attribute("k", "asm");
      if (const auto *GA = dyn_cast<GCCAsmStmt>(S)) {
        J.attribute("text", GA->getAsmString()->getString());
        J.attributeArray("outs", [&] { for (unsigned I = 0; I < GA->getNumOutputs(); ++I) emitNode(GA->getOutputExpr(I), false); });
        J.attributeArray("ins", [&] { for (unsigned I = 0; I < GA->getNumInputs(); ++I) emitNode(GA->getInputExpr(I), false); });
      }
    } else if (const auto *TE = dyn_cast<CXXThrowExpr>(S)) {
      J.attribute("k", "throw");
      if (TE->getSubExpr()) child("sub", TE->getSubExpr());
    } else if (const auto *PD = dyn_cast<CXXPseudoDestructorExpr>(S)) {
      J.attribute("k", "pseudodtor");
      child("base", PD->getBase());
    } else if (const auto *SE = dyn_cast<StmtExpr>(S)) {
      (void)SE;
      J.attribute("k", "stmtexpr");
    } else if (const auto *SNE = dyn_cast<SubstNonTypeTemplateParmExpr>(S)) {
      J.attribute("k", "w");
      J.attribute("wk", "nttp");
      J.attribute("n", SNE->getParameter()->getNameAsString());
      child("sub", SNE->getReplacement());
    } else if (const auto *AE = dyn_cast<AtomicExpr>(S)) {
      J.attribute("k", "atomicbuiltin");
      J.attributeArray("args", [&] {
        for (unsigned I = 0; I < AE->getNumSubExprs(); ++I) emitNode(AE->getSubExprs()[I], false);
      });
    } else {
      J.attribute("k", "stmt");
      J.attribute("cls", S->getStmtClassName());
      J.attributeArray("ch", [&] {
        for (const Stmt *C : S->children()) if (C) emitNode(C, false);
      });
    }
  }
};

class Visitor : public RecursiveASTVisitor<Visitor> {
public:
  Visitor(ASTContext &Ctx, Emitter &Em) : Ctx(Ctx), Em(Em), FRE(FilesRE), NRE(NamesRE) {}
  bool shouldVisitTemplateInstantiations() const { return true; }
  bool shouldVisitImplicitCode() const { return false; }

  bool VisitFunctionDecl(FunctionDecl *FD) {
    consider(FD);
    return true;
  }
  bool VisitLambdaExpr(LambdaExpr *LE) {
    if (CXXMethodDecl *Op = LE->getCallOperator()) consider(Op);
    return true;
  }

  void consider(FunctionDecl *FD) {
    if (!FD->doesThisDeclarationHaveABody()) return;
    if (FD->isDependentContext()) return;
    if (FD->isDeleted() || FD->isDefaulted()) return;
    if (!Seen.insert(FD->getCanonicalDecl()).second) return;
    SourceManager &SM = Ctx.getSourceManager();
    PresumedLoc P = SM.getPresumedLoc(SM.getExpansionLoc(FD->getLocation()));
    if (P.isInvalid()) return;
    std::string File = P.getFilename();
    if (!FRE.match(File)) return;
    std::string Name = strippedName(FD);
    if (!NRE.match(Name)) return;
    if (MaxInst && !allowedSpecialization(FD)) return;
    Em.emitFunction(FD);
  }

  // the outermost class template specialization a function lives in; all members (and nested classes, lambdas) of the first N
  // specializations of a class template are emitted, those of later specializations are skipped as a whole
  bool allowedSpecialization(const FunctionDecl *FD) {
    const ClassTemplateSpecializationDecl *Outer = nullptr;
    for (const DeclContext *DC = FD->getDeclContext(); DC; DC = DC->getParent())
      if (const auto *S = dyn_cast<ClassTemplateSpecializationDecl>(DC)) Outer = S;
    if (!Outer) return true;
    const Decl *Tmpl = Outer->getSpecializedTemplate()->getCanonicalDecl();
    auto &V = Specs[Tmpl];
    const Decl *Key = Outer->getCanonicalDecl();
    for (const Decl *D : V) if (D == Key) return true;
    if (V.size() >= MaxInst) return false;
    V.push_back(Key);
    return true;
  }

private:
  ASTContext &Ctx;
  Emitter &Em;
  llvm::Regex FRE, NRE;
  std::set<const Decl *> Seen;
  std::map<const Decl *, std::vector<const Decl *>> Specs;
};

class Consumer : public ASTConsumer {
public:
  explicit Consumer(std::string TU) : TU(std::move(TU)) {}
  void HandleTranslationUnit(ASTContext &Ctx) override {
    if (Ctx.getDiagnostics().hasErrorOccurred()) {
      llvm::errs() << "cdsfacts: parse errors in " << TU << "\n";
    }
    std::string Body;
    llvm::raw_string_ostream BS(Body);
    Interner In;
    {
      json::OStream J(BS);
      Emitter Em(Ctx, In, J);
      Visitor V(Ctx, Em);
      J.array([&] { V.TraverseDecl(Ctx.getTranslationUnitDecl()); });
    }
    BS.flush();
    std::error_code EC;
    std::unique_ptr<llvm::raw_fd_ostream> FOS;
    llvm::raw_ostream *OS = &llvm::outs();
    if (OutFile != "-") {
      FOS.reset(new llvm::raw_fd_ostream(OutFile, EC));
      if (EC) { llvm::errs() << "cannot open " << OutFile << "\n"; return; }
      OS = FOS.get();
    }
    *OS << "{\"tu\":";
    { json::OStream J(*OS); J.value(TU); }
    *OS << ",\"errors\":" << (Ctx.getDiagnostics().hasErrorOccurred() ? "true" : "false");
    *OS << ",\"S\":";
    {
      json::OStream J(*OS);
      J.array([&] { for (auto &S : In.Strs) J.value(S); });
    }
    *OS << ",\"F\":" << Body << "}\n";
  }

private:
  std::string TU;
};

class Action : public ASTFrontendAction {
public:
  std::unique_ptr<ASTConsumer> CreateASTConsumer(CompilerInstance &, StringRef InFile) override {
    return std::make_unique<Consumer>(InFile.str());
  }
};

} // namespace

int main(int argc, const char **argv) {
  auto Opts = CommonOptionsParser::create(argc, argv, Cat);
  if (!Opts) { llvm::errs() << llvm::toString(Opts.takeError()) << "\n"; return 2; }
  ClangTool Tool(Opts->getCompilations(), Opts->getSourcePathList());
  return Tool.run(newFrontendActionFactory<Action>().get()) ? 2 : 0;
}
