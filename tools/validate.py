#!/usr/bin/env python3-vt
"""validate MANIFEST.json and evidence/*.json against the harness schemas (uses the tooling venv's jsonschema)"""
import json, jsonschema, glob, sys
ok = True
try:
    jsonschema.validate(json.load(open('/verif/MANIFEST.json')), json.load(open('/root/.vp/MANIFEST.schema.json')))
    print('MANIFEST ok')
except Exception as e:
    ok = False; print('MANIFEST INVALID', e)
es = json.load(open('/root/.vp/EVIDENCE.schema.json'))
for f in sorted(glob.glob('/verif/evidence/C*.json')):
    try:
        jsonschema.validate(json.load(open(f)), es); print(f, 'ok')
    except Exception as e:
        ok = False; print(f, 'INVALID', str(e)[:300])
sys.exit(0 if ok else 1)
