#!/usr/bin/env python3
"""rewrite the seeded-change table of DESIGN.md §11.6 from seeded/*/meta.json"""
import json, os, glob, re
V = os.path.dirname(os.path.dirname(os.path.abspath(__file__)))
rows = []
for mp in sorted(glob.glob(V + "/seeded/*/meta.json")):
    m = json.load(open(mp))
    sid = m["id"]
    f = [l[6:] for l in open(os.path.dirname(mp) + "/patch.diff").read().split("\n") if l.startswith("+++ b/")]
    det = "; ".join("%s %s" % (x["check"], "/".join(x["rules"])) for x in m.get("detected_by", [])) or "MISSING"
    rows.append("| %s | %s | %s | %s | %s |" % (sid, m["breaks_property"], ", ".join(f), det, "needed a new rule" if m.get("needed_new_rule") else "caught as built"))
tab = "| seed | property | file changed | reported by | |\n|---|---|---|---|---|\n" + "\n".join(rows) + "\n"
s = open(V + "/DESIGN.md").read()
s2 = re.sub(r"\| seed \| property \| file changed \| reported by \| \|\n\|---\|---\|---\|---\|---\|\n(\|.*\n)*", tab, s)
open(V + "/DESIGN.md", "w").write(s2)
print(len(rows), "rows")
