#!/usr/bin/env python3
"""(re)generate rules/rcu_contract.json: the members of RCU containers whose *callers* must hold the RCU read lock (they reach an
assert(gc::is_locked()) without locking themselves) on the reference tree.  Run once on the reviewed tree; the table is then frozen and a
member that newly relies on its caller's lock is reported by the E3 rule."""
import sys, os, json, glob
sys.path.insert(0, os.path.dirname(os.path.dirname(os.path.abspath(__file__))))
from sa import run
from sa.engine import Ctx
from rules import e3

pats = sys.argv[1:] or ["test/unit/*/*rcu_gpb*.cpp", "test/unit/*/*rcu_shb*.cpp"]
tus = run.expand_tus(pats)
allk = set()
CH = 6
for i in range(0, len(tus), CH):
    chunk = tus[i:i + CH]
    db, info = run.extract(chunk, "^%s/cds/(intrusive|container|urcu)/" % run.REPO, ".")
    bdb, binfo = run.extract(chunk, "^%s/cds/(intrusive|container|urcu)/" % run.REPO, ".", release=False)
    ctx = Ctx("X", "quick"); ctx.db = db; ctx.bdb = bdb
    n, s, derived = e3.rule_rcu_discipline(ctx, "E3", list(db.funcs.values()), "")
    print(chunk, n, s, len(derived), len(ctx.violations), flush=True)
    for v in ctx.violations:
        print("   VIOLATION", v["function"], v["site"], v["what"][:120])
    allk |= set(derived)
out = os.path.join(os.path.dirname(os.path.dirname(os.path.abspath(__file__))), "rules", "rcu_contract.json")
json.dump({"comment": "members whose callers must hold the RCU read lock on the reference tree (derived from assert(gc::is_locked()) beliefs)",
           "requires_caller_lock": sorted(allk)}, open(out, "w"), indent=1)
print("wrote", out, len(allk))
