#!/usr/bin/env python3
"""regenerate /verif/MANIFEST.json from the table below (one entry per claimed property)"""
import json
import os

VERIF = os.path.dirname(os.path.dirname(os.path.abspath(__file__)))
NOTE = ("Trusted: clang 14 front end (AST/CFG of instantiated templates parsed with the build's flags), /verif/tools/cdsfacts.cc, "
        "/verif/sa engines, the rule table /verif/rules/<id>.py. Only the named structural clauses (necessary conditions) are decided; "
        "the behavioural statement over all interleavings/histories is not.")
PATHS = "static analysis: CFG path enumeration with value numbering, dominance/guard and def-use rules over clang-extracted facts"

CLAIMS = {
    "C01": ("other", "Path-exhaustive structural obligations on the HP core and guard API: scan decision about the freed element (classic and "
            "in-place), LSB pre-check and free loops cover every retired element, every hazard slot of every owned record is read, "
            "publish-fence-revalidate protocol of protect()/assign(), sync-before-scan, detach order, adoption under the ownership CAS. "
            "Decides those clauses on every CFG path of every parsed instantiation; not the interleaving statement.", PATHS, "DESIGN.md §4 C01"),
    "C02": ("other", "Same family for DHP: retire_data decision, scan coverage of the initial guard array and every extension block with "
            "allocator-agreeing sizes, extension-block publication order, protect/assign protocol, help_scan adoption. Clauses only.", PATHS,
            "DESIGN.md §4 C02"),
    "C03": ("other", "Exactly-one-of {free, keep} per scanned element on every path, compaction count, full-range loops, retire() push/scan "
            "coupling, help_scan moves and clears, destructor drains of every record (HP and DHP); DHP retired blocks are released without disposing only "
            "after a fresh emptiness test (R03.8). Cross-thread exactly-once is not decided.",
            "static analysis: path tables and def-use rules over clang-extracted CFGs", "DESIGN.md §4 C03"),
    "C04": ("other", "Path-exhaustive obligations on the grace-period machinery of all four flavours: two flip-and-wait phases (signal flavour: "
            "membar / two epoch switches each followed by a quiescent-state wait / membar) inside the RCU lock scope, reclamation only "
            "afterwards and limited to the pre-increment epoch; flip_and_wait flips first, then waits for every attached record with no other "
            "filter; reader side snapshots the global word and fences on outermost entry, nests by +-1, is_locked/check_grace_period test "
            "exactly the nest bits / phase bit. Not decided: sufficiency of two phases, container-side read-lock discipline (planned), raw_ptr/"
            "exempt_ptr lifetime.", PATHS, "DESIGN.md §4 C04"),
    "C05": ("other", "Path-exhaustive obligations on the reclamation code of the RCU flavours: one push attempt per retired pointer, free exactly "
            "when it did not fit (after synchronize), free-or-keep exactly once per popped element under the epoch guard (clear_buffer, "
            "disposer thread), Destruct()/destructors drain with the maximal epoch before delete, general_instant frees once after synchronize, "
            "retire_ptr/batch_retire hand over each element once with the current epoch tag and batch_retire leaves its element loop only through "
            "the loop's own range / chain test. Buffer delivery itself is C07.", PATHS,
            "DESIGN.md §4 C05"),
    "C06": ("other", "Structural clauses only: MSQueue/MoirQueue/BasketQueue/OptimisticQueue (HP, DHP) never dereference a node pointer read from "
            "a shared atomic before hazard-pointer protection (path typestate); the old head is disposed only after this thread's unlinking CAS "
            "succeeded and the embedded dummy is never retired; RWQueue head/tail pointers are touched only under their locks; FCQueue pairs an "
            "enqueue with a dequeue only on an empty queue and collide() completes both once; 'empty' is reported from a double-collected snapshot "
            "(R06.5); after a failed head/tail re-validation nothing is published before the snapshot is retaken (R06.6). FIFO order / linearizability NOT decided.",
            "static analysis: path typestate (guard discipline), lockset and path-table rules", "DESIGN.md §4 C06"),
    "C07": ("other", "Path rules with affine value comparison over VyukovMPMCCycleQueue (value and intrusive variants): slot used only after the "
            "claiming CAS under the readiness test, payload access before the releasing sequence store, writer/reader sequence values agree "
            "(pos+1 / pos+mask+1 with mask = capacity-1), same cell index everywhere, full/empty returned only under the stated tests with a "
            "fresh load, acquire/release floor on the sequence word. Not decided: linearizability across wrap-around.",
            "static analysis: path enumeration with value numbering + affine normal forms (writer/reader agreement)", "DESIGN.md §4 C07"),
    "C09": ("other", "TreiberStack (HP/DHP): a top pointer read from the shared atomic is dereferenced only after hazard-pointer protection on every "
            "path (typestate over paths); elimination back-off: slot record accessed only under the slot lock, lock balanced, active collision "
            "hands over / empties the slot / releases the partner in that order and only for a push meeting a pop; FCStack collide pairs a push "
            "with a pop, completes both once, API op-codes agree with fc_apply. Linearizability is not decided.",
            "static analysis: path typestate (guard discipline), lockset and ordering rules over clang-extracted CFGs", "DESIGN.md §4 C09"),
    "C10": ("other", "Decision table over every path of FCDeque::fc_process: each collision row (op-codes recovered from the path, ends derived "
            "from fc_apply) is push/pop in the right argument order and either same-end or guarded by m_Deque.empty(); collided record is "
            "forgotten; collide() completes both records once and hands the value over; the op-code each public method publishes is executed "
            "as the same-named deque operation. This decides the statement's 'in particular' clause, not linearizability.",
            "static analysis: path table (PATHTABLE) with op-code/end derivation from fc_apply", "DESIGN.md §4 C10"),
    "C11": ("other", "Lock-discipline rules over intrusive::MSPriorityQueue (container::MSPriorityQueue forwards to it): the slot counter is read / "
            "changed and full / empty decided only under the size lock; the slot node is locked before the size lock is released; a heap node's "
            "tag / value are written (assignment, std::swap) only under that node's lock; every lock is released on every path and per loop "
            "iteration, heapify_after_pop is entered with and keeps exactly the current parent locked (loop invariant checked at back edges and at "
            "the call site); node locks are taken parent before child; push stores into the slot the counter returned, pop empties exactly one "
            "slot; FCPriorityQueue: op-code table, pop only when non-empty, top() then one pop(). Linearizability / priority order under "
            "interleavings and the meaning of the tag protocol are NOT decided.",
            "static analysis: lockset typestate on enumerated CFG paths (entry paths and paths from every loop header with the loop invariant as "
            "initial lockset)", "DESIGN.md §4 C11"),
    "C12": ("other", "Path rules with affine comparison over every producer/consumer member of WeakRingBuffer<T> and <void>: failure only after "
            "an acquire refresh of the cached opposite counter and a re-test with the same amount; cells used only after the test came out "
            "false, addressed through buffer.mod(), accessed before the releasing counter store; published amounts (+1, per-element batch, "
            "calc_real_size of the header at the counter); wrap path writes and publishes the tail marker and re-checks space; marker helpers and "
            "calc_real_size evaluated for all sizes in the bit domain; buffer mod() overloads. FIFO/exactly-once as behaviour is not decided.",
            "static analysis: path enumeration with value numbering + affine forms + bit-provenance evaluation of the size helpers", "DESIGN.md §4 C12"),
    "C08": ("other", "Path rules over SegmentedQueue: a cell is written only by the segment initialiser, by enqueue's CAS empty->item and by "
            "do_dequeue's CAS item->item|deleted of a loaded live item published in the caller's guard (a cell never returns to empty); "
            "success results only on the winning CAS, the counter moved once; a new tail only after the whole permutation was tried, 'empty' only "
            "for a null head or after a whole scan that saw an empty cell, head removal only after a whole scan saw neither; the segment list "
            "and head/tail pointers change only under the list lock, remove_head pops only the scanned segment and retires it after unlocking; "
            "allocation size / initialised count / index range agree on the (power-of-two) quasi factor; HP guard discipline. The quasi-FIFO "
            "bound and conservation under interleavings are NOT decided.", PATHS, "DESIGN.md §4 C08"),
    "C13": ("other", "Path rules over MichaelList / LazyList / IterableList (intrusive and container layers): HP/DHP guard typestate (a link read from "
            "a shared atomic is dereferenced only after protection; IterableList node links exempt because nodes are freed only at tear-down or "
            "when never published - itself checked); RCU read-lock discipline from the code's own is_locked() assertions (nothing that "
            "synchronizes/retires inside a lock scope, incl. implicit destructor calls; entry points relying on the caller's lock must be in the "
            "reviewed contract table); MichaelList retires a node only after winning the CAS that unlinks that node, unlinks only after winning "
            "the mark CAS, publishes a node after initialising its link; LazyList links/unlinks only inside an RAII position lock and after "
            "validate(), retires outside the lock; a successful LazyList validation implies the predecessor is not logically removed (R13.9). "
            "Linearizability / no-duplicate-key under interleavings is NOT decided.",
            "static analysis: typestate on enumerated CFG paths + belief propagation over the call graph (asserts harvested from a -UNDEBUG parse)",
            "DESIGN.md §4 C13"),
    "C14": ("other", "Path rules over the hash sets: SplitListSet (HP/DHP, RCU, nogc) init_bucket publishes a bucket only after its dummy node "
            "(dummy_hash(bucket)) was inserted behind the initialised parent bucket, frees it only on a lost insertion, returns non-null; get_bucket and "
            "every operation route one hash of the operation's own key to bucket, split-order key and list head; the bucket-count exponent grows by "
            "one through a CAS from the value read, only below capacity; bucket-table reader and writer use the same segment/offset arithmetic "
            "(and segments are freed only at tear-down or unpublished); MichaelHashSet routes every operation to bucket(hash(key) & mask) of its "
            "own key and keyed operations return only after consulting that bucket (R14.9); HP/DHP guard typestate; RCU read-lock discipline incl. "
            "unguarded dereferences of shared nodes outside a lock scope. "
            "Linearizability, duplicates under races and Feldman expansion interleavings are NOT decided (Feldman addressing: C28).",
            "static analysis: typestate / value-numbered path tables on enumerated CFG paths + belief propagation over the call graph", "DESIGN.md §4 C14"),
    "C15": ("other", "Path rules over skip lists and trees: HP/DHP guard typestate; RCU read-lock discipline (skip list, Ellen tree, Bronson map) "
            "from the code's is_locked() asserts incl. implicit destructors and unguarded dereferences; skip list: link positions only from the "
            "key-ordered search routines and the level-L link CAS swings pos.pPrev[L]->next(L) from pos.pSucc[L], insert functor once after the "
            "level-0 link, erase success/functor/retire only for the winner of the level-0 mark CAS and retire only when all levels were "
            "unlinked (helper: counter reached zero); Ellen tree: child pointers swung only by help_insert/help_marked, IFlag/DFlag CAS -> help "
            "only when won, descriptors freed directly only when unpublished, nodes retired only by the winner of the Mark CAS, functor/counter "
            "after help_delete succeeded, new internal node ordered by the comparison and initialised before the flag CAS; Bronson map: node "
            "fields written only under that node's monitor lock (lockset on paths, *_locked parameter convention inferred from the call sites). "
            "Bronson members given (pNode, nVersion) re-validate the version under pNode's lock before writing pNode (R15.7). "
            "Linearizability and the extract_min/max emptiness claims are NOT decided.",
            "static analysis: typestate / value-numbered path tables on enumerated CFG paths + who-may-write tables + belief propagation over the call graph",
            "DESIGN.md §4 C15"),
    "C16": ("other", "Lock-scope rules over StripedSet/Map and CuckooSet/Map (intrusive and container layers, striping and refinable policies): "
            "every bucket / probe-set lookup lies inside the lifetime of a scoped cell lock built from the same hash (array) or of a full / "
            "resize lock; helpers touching buckets unlocked are reached only from such scopes (call-graph propagation to the entry points); the "
            "hash comes from the operation's own key; the table is re-allocated only inside a resize-lock scope after re-checking the capacity; "
            "scoped lock objects acquire in the constructor and release in the destructor; refinable acquire() re-reads the resize owner after "
            "locking and returns with the locks held. Linearizability across resizes and deadlock freedom are NOT decided.",
            "static analysis: lock-scope typestate on enumerated CFG paths + requirement propagation over the call graph", "DESIGN.md §4 C16"),
    "C17": ("other", "Hash-independent element conservation on every CFG path of the relocation code: CuckooSet::resize and relocate insert "
            "each moved element exactly once (known finding D5: the all-probe-sets-full path of resize drops the element), probe-set positions "
            "are used before anything mutates the probe sets, StripedSet::internal_resize moves every element of every old bucket once into "
            "bucket(hash(element)) of the new table and frees the old table afterwards, every bucket adapter/policy inserts the moved item "
            "exactly once. SplitList/Feldman growth is not covered here.", PATHS, "DESIGN.md §4 C17"),
    "C18": ("other", "The size()/empty() clause plus one necessary condition of the skip-list level property (link positions are written only "
            "by the key-ordered search routines; the level-L link CAS swings pos.pPrev[L]->next(L) from pos.pSucc[L] to the node). Size clause: in the ordered containers the item counter changes at most once per operation and only on "
            "success paths, every inserting/removing public member reaches a counter change of the right direction, size() reports the counter; "
            "EllenBinTree::try_insert applies the same setters to the node it publishes on every publishing path (R18.6). "
            "Sortedness, exactly-once traversal, tree order, AVL balance, skip-list level property are runtime heap shape: NOT decided.",
            "static analysis: path tables (value numbering) + call-graph reachability of counter effects", "DESIGN.md §4 C18"),
    "C19": ("other", "Path rules over IterableList::iterator_type and FeldmanHashSet::iterator_base (HP/DHP): whatever an iterator exposes is read "
            "from its own guard; the position moves onto a slot only on a path where the guard protected that very slot and the protected value "
            "was re-validated (other position stores: end-of-container, guard-copying copies); steps are exactly one link / one slot (forward "
            "m_idx+1,+1,child from 0,parent at idxParent+1; backward mirrored); erase_at(iterator) removes by a CAS on the iterator's own slot "
            "expecting the iterator's guarded pointer, retires only on the winning path and reports the CAS outcome; the MichaelHashSet iterator keeps "
            "the list position it tested against end() (R19.5). 'Visits every element "
            "present during the whole iteration' as a behavioural statement and RCU iterators are NOT decided.",
            "static analysis: value-numbered path tables on enumerated CFG paths + affine forms of the index definitions", "DESIGN.md §4 C19"),
    "C20": ("other", "Path-effect consistency over every container member that touches the item counter: counter changed at most once and only on "
            "success paths, success/new-item paths change it (elimination paths exempt), update functor flag bNew agrees with the returned pair "
            "and with counting, no callback or counter change on failing paths. Agreement with std:: reference models over call sequences is "
            "not decided.", "static analysis: path tables (value numbering) over all counter-changing members", "DESIGN.md §4 C20"),
    "C21": ("other", "Path rules over the three free lists: tag = expected.tag+1 recomputed per attempt and correct linking (TaggedFreeList); "
            "successor read only under a successful reference increment on a non-zero count, every increment released exactly once (-2 on win, -1 "
            "on loss with re-add of a last-reference node), put adds only at count 0, publication after initialisation (FreeList); cache cells "
            "change only by CAS null<->node and a node is never both cached and listed (CachedFreeList). The bag property under interleavings is "
            "not decided.", PATHS, "DESIGN.md §4 C21"),
    "C22": ("other", "Path rules over the lock primitives: spin_lock (exchange/acquire, lock returns only after a successful try_lock, release "
            "store), reentrant_spin_lock (re-entrance only for the owner, ownership recorded after acquisition, last unlock clears owner then "
            "releases, nested unlock only decrements), pool_monitor (lock pointer written only under the spin bit, +-reference arithmetic, "
            "pool lock detached only by the last holder and returned after the spin release), injecting_monitor/lock_array forwarding. "
            "Mutual exclusion as a behavioural fact is not decided.", PATHS, "DESIGN.md §4 C22"),
    "C23": ("other", "Path rules over the flat-combining kernel: combining only while owning the combiner mutex (try_lock won, or the wait returned "
            "'become combiner' which happens only after a won try_lock without unlock) inside an adopting lock_guard, after re-publishing the own "
            "record; request word published before combining; combining_pass applies only active records with a pending operation and marks them "
            "done once, right after; operation_done stores req_Response (release) before notifying; the wait reports 'done' only after reading "
            "req_Response; compact_list frees only 'removed' records it unlinked by a successful CAS; wait strategies store nothing derived from a "
            "publication record outside that record (R23.5). The interleaving statement is not decided.",
            PATHS, "DESIGN.md §4 C23"),
    "C24": ("other", "Path rules over the three Vyukov-queue pools and pool_allocator: deallocate gives an object to exactly one owner (queue iff in "
            "the preallocated range / lazy: queue xor heap), destroyed before published, refused pushes retried; allocate returns the popped "
            "object or one fresh allocation; preallocation pushes each object of [first,last) once and from_pool tests exactly that range; "
            "pool_allocator forwards. One-slot-per-object exclusivity rests on the queue (C07).", PATHS, "DESIGN.md §4 C24"),
    "C25": ("proof", "For ALL inputs (one fully symbolic integer, bit-provenance abstract interpretation): every bit-reversal routine equals the "
            "reference reversal; number_splitter::cut for every (offset,count); affine proof that safe_cut clamps to rest_count(); cursor reads "
            "are bounds-justified; no implicitly widened narrow shift; SBC/ZBC (32/64 bit SWAR population counts) equal the number of set / clear "
            "bits (lane domain: exact affine forms over the input bits per field). Not decided: asm MSB/LSB, log2*, looped cut bodies.",
            "static analysis: abstract interpretation in a bit-provenance domain and a SWAR lane domain + affine normal forms + type-level lint", "DESIGN.md §4 C25"),
    "C27": ("proof", "For ALL 64-bit hashes: regular keys odd / dummies even / both the reversed hash, for each reversal algorithm; bucket_no = "
            "hash mod 2^k and parent_bucket clears exactly the top set bit for every k = 0..63 in all three split-list implementations "
            "(other bits symbolic); the wrapped list comparators order split-order keys by relational operators on the unsigned values (R27.4). "
            "Not decided: the contiguity lemma over the list order.",
            "static analysis: abstract interpretation in a bit-provenance domain (exhaustive over the 64 table sizes) + type-level lint",
            "DESIGN.md §4 C27"),
    "C28": ("other", "Agreement rules over the Feldman multi-level array: head level addressed with head_node_size_log bits, deeper levels with "
            "array_node_size_log bits by traverse and expand_slot alike (from the traversal's bit offset), node sizes = 1 << the same widths and "
            "allocated accordingly, expand_slot stores the displaced item before publishing and never leaves a conversion unfinished, "
            "'exhausted' failures only under eos(); the head width published by metrics::make is the one for which the function's own divisibility "
            "test held (or its rounded value). NOT decided: the arithmetic lemma behind the rounding itself.",
            "static analysis: path rules + affine forms (reader/writer width agreement)", "DESIGN.md §4 C28"),
}

NA = {
    "C26": "data-dependent loops; the permutation/inverse claims need induction over n - no sound structural clause that is not a frozen "
           "fragment (DESIGN.md §4 C26)",
}


def main():
    props = [json.loads(l) for l in open(os.path.join(VERIF, "properties.jsonl"))]
    checks = []
    for p in props:
        pid = p["id"]
        if pid not in CLAIMS or not os.path.exists(os.path.join(VERIF, "rules", pid + ".py")):
            continue
        cat, text, tech, ref = CLAIMS[pid]
        checks.append({
            "property_id": pid,
            "quick_cmd": "python3 -m sa.check %s --tier quick" % pid,
            "thorough_cmd": "python3 -m sa.check %s --tier thorough" % pid,
            "evidence_file": "/verif/evidence/%s.json" % pid,
            "replay_cmd_template": "python3 -m sa.replay {path}",
            "engine": "cdsfacts+sa",
            "level_claimed": {"category": cat, "text": text, "design_ref": ref},
            "level_note": NOTE,
            "technique": tech,
        })
    claimed = {c["property_id"] for c in checks}
    na = []
    for p in props:
        if p["id"] in claimed:
            continue
        na.append({"property_id": p["id"],
                   "reason": NA.get(p["id"], "no sound static check built for it in this framework yet; not claimed (see DESIGN.md §4/§9)")})
    m = {
        "version": 1,
        "setup_cmd": "sh /verif/setup.sh",
        "hooks": {
            "guard": "KHIZMAX_LIBCDS_VERIF",
            "enable": "none needed: the checks parse /repo's sources with the build's own flags; nothing is compiled in",
            "baseline_off_cmd": "cmake --build /repo/_build && ctest --test-dir /repo/_build -j8 --timeout 900",
            "source_commits": [],
            "add_only": True,
        },
        "engines": [{
            "name": "cdsfacts+sa", "path": "/verif/tools/cdsfacts.cc, /verif/sa, /verif/rules",
            "serves_properties": sorted(claimed),
            "kind_free_text": "libTooling fact extractor (CFG + expression trees of instantiated functions) and Python rule engines "
                              "(dominance, def-use, path enumeration with value numbering, bit-provenance abstract interpretation, affine forms)",
        }],
        "checks": checks,
        "notes": "Static analysis only. Exit 2 + 'ANALYSIS-BROKEN' = an anchor vanished / a rule went vacuous / a TU failed to parse / an "
                 "obligation fell outside the abstract domain (never a pass, never a violation). Genuine upstream defects are in "
                 "known_findings.json (D1-D4 repaired by 'fix:' commits in /repo).",
        "not_applicable": na,
    }
    json.dump(m, open(os.path.join(VERIF, "MANIFEST.json"), "w"), indent=1)
    print("claimed:", sorted(claimed))


if __name__ == "__main__":
    main()
