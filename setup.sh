#!/bin/sh
# builds the fact extractor (offline; clang/llvm 14 from the image)
set -e
cd "$(dirname "$0")"
mkdir -p build evidence
clang++ $(llvm-config-14 --cxxflags) -O1 -fno-rtti tools/cdsfacts.cc -o build/cdsfacts \
    /usr/lib/llvm-14/lib/libclang-cpp.so.14 /usr/lib/llvm-14/lib/libLLVM-14.so
# smoke test: the extractor parses one library unit with the recorded flag template
python3 - <<'PY'
import sys
sys.path.insert(0, '.')
from sa import run
db, info = run.extract(["src/hp.cpp"], "^%s/src/hp\\.cpp$" % run.REPO, "classic_scan")
assert len(db) >= 1, "extractor smoke test failed"
print("setup ok:", info)
PY
