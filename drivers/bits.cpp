// Instantiation-only translation unit for the bit-level checks (C25, C27, C28).
// Parsed with -fsyntax-only by cdsfacts; never compiled to code, linked or run.
#include <cds/algo/bit_reversal.h>
#include <cds/algo/bitop.h>
#include <cds/algo/int_algo.h>
#include <cds/algo/split_bitstring.h>
#include <cds/intrusive/michael_list_nogc.h>
#include <cds/intrusive/details/split_list_base.h>

namespace verif_drivers {
    using namespace cds::algo::bit_reversal;
    inline void use_hashes()
    {
        namespace sl = cds::intrusive::split_list;
        (void) sl::regular_hash<swar>( 1 );
        (void) sl::regular_hash<lookup>( 1 );
        (void) sl::regular_hash<muldiv>( 1 );
        (void) sl::dummy_hash<swar>( 1 );
        (void) sl::dummy_hash<lookup>( 1 );
        (void) sl::dummy_hash<muldiv>( 1 );
        (void) cds::bitop::RBO<uint32_t>( 1u );
        (void) cds::bitop::RBO<uint64_t>( 1ull );
    }
}

template class cds::algo::number_splitter<uint64_t>;
template class cds::algo::number_splitter<uint32_t>;
template class cds::algo::number_splitter<int>;
template class cds::algo::number_splitter<uint16_t>;
template class cds::algo::byte_splitter<uint64_t>;
template class cds::algo::byte_splitter<uint64_t, 8, uint64_t>;
template class cds::algo::byte_splitter<uint32_t>;
template class cds::algo::split_bitstring<uint64_t>;
template class cds::algo::split_bitstring<uint64_t, 8, uint64_t>;
template class cds::algo::split_bitstring<uint32_t>;
struct verif_key48 { uint8_t b[6]; };
template class cds::algo::split_bitstring<verif_key48, 6, size_t>;
template class cds::algo::byte_splitter<verif_key48, 6, size_t>;
