// Instantiation-only TU for C21 (free lists): never compiled to code, linked or run.
#include <cds/intrusive/free_list.h>
#include <cds/intrusive/free_list_tagged.h>
#include <cds/intrusive/free_list_cached.h>

namespace verif_drivers {
    inline void use_freelists()
    {
        cds::intrusive::FreeList fl;
        cds::intrusive::FreeList::node n;
        fl.put( &n );
        (void) fl.get();
        fl.clear( []( cds::intrusive::FreeList::node* ) {} );
#ifdef CDS_DCAS_SUPPORT
        cds::intrusive::TaggedFreeList tl;
        cds::intrusive::TaggedFreeList::node tn;
        tl.put( &tn );
        (void) tl.get();
        tl.clear( []( cds::intrusive::TaggedFreeList::node* ) {} );
#endif
        typedef cds::intrusive::CachedFreeList< cds::intrusive::FreeList > cached;
        cached cl;
        cached::node cn;
        cl.put( &cn );
        (void) cl.get();
        cl.clear( []( cached::node* ) {} );
    }
}
