// Instantiation-only TU for C22 (spin locks, monitors): never compiled to code, linked or run.
#include <cds/sync/spinlock.h>
#include <cds/sync/pool_monitor.h>
#include <cds/sync/injecting_monitor.h>
#include <cds/sync/lock_array.h>
#include <cds/memory/vyukov_queue_pool.h>

template class cds::sync::spin_lock< cds::backoff::LockDefault >;
template class cds::sync::reentrant_spin_lock< uint32_t, cds::backoff::LockDefault >;
template class cds::sync::reentrant_spin_lock< uint64_t, cds::backoff::LockDefault >;

namespace verif_drivers {
    inline void use_lock_array()
    {
        cds::sync::lock_array< cds::sync::spin, cds::sync::pow2_select_policy > a( 8, cds::sync::pow2_select_policy( 8 ));
        a.lock( 3 );
        a.unlock( 3 );
        a.lock_all();
        a.unlock_all();
    }
}
