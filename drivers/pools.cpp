// Instantiation-only TU for the pool checks (C24): never compiled to code, linked or run.
#include <cds/memory/vyukov_queue_pool.h>
#include <cds/memory/pool_allocator.h>

namespace verif_drivers {
    struct Foo { long a; long b; Foo(): a(0), b(0) {} ~Foo() {} };
    typedef cds::memory::vyukov_queue_pool< Foo > pool1;
    typedef cds::memory::lazy_vyukov_queue_pool< Foo > pool2;
    typedef cds::memory::bounded_vyukov_queue_pool< Foo > pool3;
    template <class P> struct accessor { typedef typename P::value_type value_type; P& operator()() const { static P p( 16 ); return p; } };
    template <class P> void use()
    {
        P p( 16 );
        Foo* x = p.allocate( 1 );
        p.deallocate( x, 1 );
        cds::memory::pool_allocator< Foo, accessor<P> > a;
        Foo* y = a.allocate( 1 );
        a.deallocate( y, 1 );
    }
    inline void all() { use<pool1>(); use<pool2>(); use<pool3>(); }
}
