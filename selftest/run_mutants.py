#!/usr/bin/env python3
"""Self-test of the checkers (not a registered check): apply each mutant patch
to a scratch copy of /repo and require the named property's check to report a
violation; apply each benign (behaviour-preserving) patch and require silence.

usage: selftest/run_mutants.py [C01 ...] [--benign] [--keep]
"""
import os
import subprocess
import sys
import glob
import shutil

VERIF = os.path.dirname(os.path.dirname(os.path.abspath(__file__)))
SCRATCH = "/var/tmp/verif-selftest"


def sh(cmd, **kw):
    return subprocess.run(cmd, shell=True, universal_newlines=True, stdout=subprocess.PIPE, stderr=subprocess.STDOUT, **kw)


def fresh_copy():
    os.makedirs(SCRATCH, exist_ok=True)
    r = sh("rsync -a --delete --exclude _build --exclude .git /repo/ %s/repo/" % SCRATCH)
    if r.returncode:
        print(r.stdout)
        sys.exit(2)


def run_check(prop, tier="quick"):
    env = dict(os.environ, VERIF_REPO_ROOT=SCRATCH + "/repo", VERIF_NO_EVIDENCE="1", VERIF_CACHE=SCRATCH + "/cache")
    r = sh("cd %s && python3 -m sa.check %s --tier %s" % (VERIF, prop, tier), env=env)
    return r.returncode, r.stdout


def main():
    args = [a for a in sys.argv[1:] if not a.startswith("--")]
    props = args or sorted(os.path.basename(d) for d in glob.glob(VERIF + "/selftest/mutants/C*"))
    fails = 0
    total = 0
    if "--benign" not in sys.argv or args:
        for prop in props:
            for diff in sorted(glob.glob("%s/selftest/mutants/%s/*.diff" % (VERIF, prop))):
                total += 1
                fresh_copy()
                r = sh("cd %s/repo && patch -p1 --no-backup-if-mismatch < %s" % (SCRATCH, diff))
                if r.returncode:
                    print("PATCH-FAILED %s\n%s" % (diff, r.stdout))
                    fails += 1
                    continue
                rc, out = run_check(prop)
                name = os.path.basename(diff)
                if rc == 1 and "VIOLATION property=%s" % prop in out:
                    first = [l for l in out.splitlines() if l.strip().startswith("rule ")]
                    print("caught   %s/%s  (%s)" % (prop, name, first[0].strip() if first else ""))
                else:
                    fails += 1
                    print("MISSED   %s/%s  rc=%d" % (prop, name, rc))
                    print("\n".join("      " + l for l in out.splitlines()[-8:]))
    if "--benign" in sys.argv:
        allprops = sorted(os.path.basename(f)[:-3] for f in glob.glob(VERIF + "/rules/C[0-9][0-9].py"))
        for diff in sorted(glob.glob(os.environ.get("BENIGN_GLOB") or (VERIF + "/selftest/benign/*.diff"))):
            fresh_copy()
            r = sh("cd %s/repo && patch -p1 --no-backup-if-mismatch < %s" % (SCRATCH, diff))
            if r.returncode:
                print("PATCH-FAILED %s\n%s" % (diff, r.stdout))
                fails += 1
                continue
            want = open(diff).readline()
            targets = [p for p in allprops if p in want] or allprops
            for prop in (args or targets):
                total += 1
                rc, out = run_check(prop)
                if rc == 0:
                    print("silent   %s on %s" % (prop, os.path.basename(diff)))
                else:
                    fails += 1
                    print("FALSE-ALARM %s on %s rc=%d" % (prop, os.path.basename(diff), rc))
                    print("\n".join("      " + l for l in out.splitlines()[-10:]))
    if "--keep" not in sys.argv:
        shutil.rmtree(SCRATCH, ignore_errors=True)
    print("%d checked, %d failed" % (total, fails))
    return 1 if fails else 0


if __name__ == "__main__":
    sys.exit(main())
