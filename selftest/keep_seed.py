#!/usr/bin/env python3
"""keep_seed.py <seed id> <property> <outdir> "<needs>" "<ran>": copy a confirmed seeded defect into /verif/seeded/<id>/"""
import sys, os, shutil, json
sid, prop, out, needs, ran = sys.argv[1:6]
dst = "/verif/seeded/" + sid
os.makedirs(dst, exist_ok=True)
for f in os.listdir(out):
    p = os.path.join(out, f)
    if os.path.isfile(p) and os.path.getsize(p) < 2_000_000:
        shutil.copy(p, dst)
meta = {"id": sid, "breaks_property": prop, "needs_to_manifest": needs, "confirmed_by": ran,
        "source": "independent sub-agent given only the property text and a scratch worktree",
        "detected_by": []}
json.dump(meta, open(os.path.join(dst, "meta.json"), "w"), indent=1)
print("kept", dst, os.listdir(dst))
