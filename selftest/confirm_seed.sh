#!/bin/sh
# confirm a seeded defect delivered by a sub-agent:
#   confirm_seed.sh <worktree> <outdir> "<ninja targets>" "<test binaries (in _b/bin)>"
# 1. clean tree: build, demo must exit 0   2. patched tree: build, tests pass, demo must exit != 0
WT=$1; OUT=$2; TARGETS=$3; TESTS=$4
set -e
cd "$WT"
git apply -R "$OUT/patch.diff" 2>/dev/null || true
git checkout -q -- . 
echo "== clean tree: build + demo (expect 0)"
ninja -C _b -j8 $TARGETS > /tmp/confirm_build.log 2>&1 || { tail -20 /tmp/confirm_build.log; exit 9; }
set +e
sh "$OUT/build_and_run.sh" "$WT" "$WT/_b" > /tmp/confirm_demo_clean.log 2>&1; rc_clean=$?
set -e
tail -3 /tmp/confirm_demo_clean.log
echo "demo on clean tree: rc=$rc_clean"
echo "== patched tree"
git apply "$OUT/patch.diff"
ninja -C _b -j8 $TARGETS > /tmp/confirm_build.log 2>&1 || { tail -20 /tmp/confirm_build.log; exit 9; }
rc_tests=0
set +e
for t in $TESTS; do
  ( cd _b/bin && ./$t > /tmp/confirm_test_$t.log 2>&1 ); r=$?
  tail -3 /tmp/confirm_test_$t.log | head -3
  [ $r -ne 0 ] && rc_tests=1
done
set +e
sh "$OUT/build_and_run.sh" "$WT" "$WT/_b" > /tmp/confirm_demo_patched.log 2>&1; rc_pat=$?
tail -3 /tmp/confirm_demo_patched.log
echo "demo on patched tree: rc=$rc_pat ; unit tests rc=$rc_tests"
if [ $rc_clean -eq 0 ] && [ $rc_pat -ne 0 ] && [ $rc_tests -eq 0 ]; then echo "CONFIRMED"; exit 0; fi
echo "NOT-CONFIRMED"; exit 1
