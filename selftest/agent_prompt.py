import json, sys
pid = sys.argv[1]
variant = sys.argv[2] if len(sys.argv) > 2 else "a"
hint = sys.argv[3] if len(sys.argv) > 3 else ""
for l in open('/verif/properties.jsonl'):
    p = json.loads(l)
    if p['id'] == pid:
        break
wt = "/tmp/seed-%s%s" % (pid, variant)
out = "/tmp/seed-%s%s-out" % (pid, variant)
print(f"""You are helping test a verification effort for the C++ library khizmax/libcds (lock-free containers with hazard-pointer and RCU reclamation). Your job: produce ONE realistic, subtle code change ("seeded defect") to the library that BREAKS the property below, while the library still compiles and its existing unit tests still pass. You work ONLY in your own scratch git worktree {wt} (a checkout of the library; already created). Never read or write anything under /verif, and never modify /repo itself.

PROPERTY {p['id']}: {p['title']}
Statement: {p['statement']}
Quantified over: {p['quantifier']['text']}
Why the tests cannot settle it: {p['why_tests_cant']}
Relevant files: {', '.join(p['anchors']['files'])}
Mechanisms: {'; '.join(m['name'] + ' (' + m['where'] + ')' for m in p['anchors']['mechanism'])}

REQUIREMENTS for the change
* It is a change to library source under {wt}/cds or {wt}/src (not to tests), small (a few lines), the kind of mistake a maintainer could plausibly make in a refactoring or an "optimisation" - not sabotage that ordinary use exposes at once.
* It must need something SPECIFIC to manifest: a particular interleaving, a multi-step sequence of operations, an unusual input/configuration (e.g. a rarely used scan mode, large sizes, odd addresses, a hash pattern), or two cooperating sites that each look fine alone. {hint}
* The library must still compile, and the existing unit tests that exercise the touched code must still pass with the change.
* You must write a DEMONSTRATION: a small standalone C++ program (or gtest file) that uses the public/internal API of the library, FAILS (non-zero exit / assertion / sanitizer report / wrong output) with your change and PASSES without it. Deterministic if at all possible (for concurrency issues you may drive the race deterministically by calling internal steps in a chosen order from one thread, or use a stress loop that fails with high probability within a few seconds).

HOW TO BUILD (offline; nothing can be downloaded)
* configure once:  cmake -G Ninja -S {wt} -B {wt}/_b -DCMAKE_BUILD_TYPE=RelWithDebInfo -DCMAKE_CXX_FLAGS=-Wno-error -DLIBCDS_WITH_TESTS=ON -DLIBCDS_ENABLE_STRESS_TEST=OFF -DGTest_DIR=/root/miniconda/lib/cmake/GTest
* build only what you need, e.g.  ninja -C {wt}/_b cds unit-misc   (list unit targets with: ninja -C {wt}/_b -t targets | grep ^unit-). A full build of all tests takes far too long - build the library (target cds, produces {wt}/_b/bin/libcds.so) and only the 1-3 unit-test targets that cover the code you touch; run them from {wt}/_b/bin/.
* a standalone demo can be compiled like:  g++ -std=gnu++11 -O1 -g -mcx16 -I{wt} demo.cpp -o demo -L{wt}/_b/bin -lcds -lpthread -Wl,-rpath,{wt}/_b/bin   (rebuild target cds after changing anything under src/). Many parts are header-only.
* gtest/boost headers are under /root/miniconda/include and /usr/include.
* Use at most 8 parallel jobs (ninja -j8); other work shares this machine.

DELIVERABLES - write them to {out}/ (create it):
* patch.diff  - `git -C {wt} diff` of your library change only (must apply with `git apply` to a clean checkout of the same commit)
* demo.cpp (or similar) plus build_and_run.sh - a script that, given the path of a libcds checkout+build dir as arguments ($1 = source root, $2 = build dir containing bin/libcds.so), compiles and runs the demonstration and exits 0 when the property holds and non-zero when it is violated
* notes.md - what the change is, why it breaks the property, what it needs in order to manifest, which existing unit-test targets you built and ran (with their pass result, with and without the change), and the demo's output with and without the change.
Before finishing, verify yourself: (1) with the change: library builds, the chosen unit tests pass, the demo FAILS; (2) with the change reverted (`git -C {wt} apply -R patch.diff` - do NOT use git stash, the stash is shared between worktrees): the demo PASSES; then re-apply the change. Leave the worktree with your change applied. Do not delete {wt} - it will be cleaned up by the caller. Report briefly what you did.""")
