#!/usr/bin/env python3
"""make a mutant/benign patch: mk.py <dir> <name> <repo-relative file> <old> <new> [occurrence]
<dir> is e.g. mutants/C01 or benign.  Fails unless <old> occurs (occurrence-th, 1-based; default: must be unique)."""
import sys, os, difflib
d, name, rel, old, new = sys.argv[1:6]
occ = int(sys.argv[6]) if len(sys.argv) > 6 else 0
src = open("/repo/" + rel).read()
cnt = src.count(old)
if cnt == 0 or (occ == 0 and cnt != 1):
    sys.exit("pattern occurs %d times in %s" % (cnt, rel))
if occ:
    idx = -1
    for _ in range(occ):
        idx = src.index(old, idx + 1)
    dst = src[:idx] + new + src[idx + len(old):]
else:
    dst = src.replace(old, new)
diff = "".join(difflib.unified_diff(src.splitlines(True), dst.splitlines(True), "a/" + rel, "b/" + rel))
out = os.path.join(os.path.dirname(os.path.abspath(__file__)), d, name + ".diff")
os.makedirs(os.path.dirname(out), exist_ok=True)
mode = "a" if os.path.exists(out) and "--append" in sys.argv else "w"
open(out, mode).write(diff)
print("wrote", out)
