"""C02 - Dynamic hazard pointers never free an object a guard still protects.
Structural clauses only (DESIGN.md §4 C02); interleaving safety is not decided."""
import re

from sa import run as _run
from . import smr

PROPERTY = "C02"
LEVEL = "other"
FILES = r"^%s/(src/dhp\.cpp|cds/gc/dhp\.h|cds/gc/details/(hp_common|retired_ptr)\.h)$" % _run.REPO
TUS = {
    "quick": ["src/dhp.cpp", "test/unit/queue/msqueue_dhp.cpp", "test/unit/list/michael_dhp.cpp",
              "test/unit/intrusive-set/intrusive_feldman_hashset_dhp.cpp"],
    "thorough": ["src/dhp.cpp", "test/unit/*/*_dhp.cpp", "test/unit/*/*_dhp_*.cpp"],
}
EXPLANATION = (
    "Static, path-exhaustive structural obligations over the Dynamic Hazard Pointer core (src/dhp.cpp, cds/gc/dhp.h): "
    "retire_data decides free/keep on the element's own pointer; scan copies the initial guard array and every extension "
    "block of every owned record with the sizes the allocator creates; extension blocks are linked and published before use; "
    "protect()/assign() publish-and-revalidate protocol; detach order; help_scan adoption under the ownership CAS. "
    "Necessary conditions of C02; interleaving safety is not decided.")
ASSUMPTIONS = [
    "clang 14 AST/CFG of the instantiated functions is faithful to what the build compiles (same flags, -DNDEBUG)",
    "necessary conditions only",
]
R = "Otherwise a guarded object can be freed by a DHP scan (C02)."


def r02_1(ctx):
    fs = [f for f in smr.smr_functions(ctx, "dhp") if smr.is_scan_like(f)]
    ctx.need("cds::gc::dhp::(anon)::retire_data")
    smr.rule_scan_decision(ctx, "R02.1", fs, R)
r02_1.rule_id = "R02.1"


def r02_2(ctx):
    smr.rule_dhp_scan_coverage(ctx, "R02.2", R)
r02_2.rule_id = "R02.2"


def r02_3(ctx):
    F = ctx.need("cds::gc::dhp::thread_hp_storage::extend")[0]
    smr.rule_extend_publication(ctx, "R02.3", F, "A guard in a block that scan cannot reach protects nothing.")
r02_3.rule_id = "R02.3"


def r02_4(ctx):
    fs = [f for f in ctx.db.funcs.values() if re.search(r"cds::gc::DHP::(Guard|GuardArray)::protect$", f.q)]
    n = smr.rule_protect_protocol(ctx, "R02.4", fs, "Without re-validation after publication the protected object may already be retired and freed.")
    if n == 0:
        ctx.broken("no instantiation of DHP::Guard::protect with a validation loop found")
    fa = [f for f in ctx.db.funcs.values() if re.search(r"cds::gc::DHP::(Guard|GuardArray)::assign$", f.q)]
    n2 = smr.rule_assign_sync(ctx, "R02.4a", fa, "The slot store must be ordered before the later validation load by sync().")
    if n2 == 0:
        ctx.broken("no instantiation of DHP::Guard::assign found")
r02_4.rule_id = "R02.4"


def r02_5(ctx):
    H = ctx.need("cds::gc::dhp::smr::help_scan")[0]
    smr.rule_help_scan(ctx, "R02.5", H, "thread_id_", r"dhp::retired_array::push$", r"dhp::retired_array::fini$",
                       "Adopting a record that is still owned races with its owner.")
r02_5.rule_id = "R02.5"


def r02_6(ctx):
    F = ctx.need("cds::gc::dhp::smr::free_thread_data")[0]
    smr.rule_detach_order(ctx, "R02.6", F, "thread_id_", "Releasing the record before its retired objects are scanned lets another thread reuse it.")
    S = ctx.need("cds::gc::dhp::smr::scan")[0]
    smr.rule_scan_entry_dhp(ctx, "R02.6", S)
r02_6.rule_id = "R02.6"


def r02_7(ctx):
    """guard free-list typestate: clear() hands the extension blocks back to the allocator; unless it also re-links free_head_ over the
    initial array, every record that alloc_thread_data() returns (new or reused) must pass through hazards_.init()"""
    from sa.pathsim import PathSim, NULL
    from sa.q import sv_field_path, strip_sv, noepoch
    CL = ctx.need("cds::gc::dhp::thread_hp_storage::clear")[0]
    IN = ctx.need("cds::gc::dhp::thread_hp_storage::init")[0]
    A = ctx.need("cds::gc::dhp::smr::alloc_thread_data")[0]
    frees = relinks = False
    for p in PathSim(CL, bound=512).run():
        for e in p.events:
            if e.kind == "call" and e.q and e.q.endswith("hp_allocator::free"):
                frees = True
            if (e.kind == "store" and sv_field_path(e.obj)[-1:] == ["free_head_"]) or (e.kind == "call" and e.q and e.q.endswith("thread_hp_storage::init")):
                relinks = True
    ctx.ok("R02.7", CL, "clear(): releases extension blocks=%s, re-links the free list itself=%s" % (frees, relinks), None, sig="clear-shape")
    # init() rebuilds the free list over exactly the initial array
    head = last = link = False
    for p in PathSim(IN, bound=512).run():
        for e in p.events:
            if e.kind == "store" and sv_field_path(e.obj)[-1:] == ["free_head_"]:
                head = sv_field_path(e.val)[-1:] == ["array_"]
            if e.kind == "store" and sv_field_path(e.obj)[-1:] == ["next_"]:
                if e.val == NULL:
                    last = True
                elif isinstance(e.val, tuple) and e.val[0] == "op" and e.val[1] == "+" and e.val[2] == strip_sv(e.obj):
                    link = True
    ctx.check(head and last and link, "R02.7", IN, "init() links the initial guard array into a null-terminated free list and points free_head_ at it", None,
              detail="free_head_=array_:%s, next_=p+1:%s, last->next_=nullptr:%s. %s" % (head, link, last, R), sig="init-relinks")
    n = 0
    for p in PathSim(A, bound=2048).run():
        if p.outcome != "return":
            continue
        n += 1
        if frees and not relinks:
            ini = [e for e in p.events if e.kind == "call" and e.q and e.q.endswith("thread_hp_storage::init") and e.obj is not None
                   and sv_field_path(e.obj)[-1:] == ["hazards_"] and strip_sv(e.obj) == p.ret]
            ctx.check(bool(ini), "R02.7", A, "every thread record handed out (new or reused) has its guard free list re-initialised", None,
                      detail="clear() released the extension blocks at detach but left free_head_ pointing into them: without init() the new owner allocates guards "
                      "from blocks that scan() never visits (or that another thread now owns). " + R, sig="reuse-reinit")
    if n < 2:
        ctx.broken("alloc_thread_data return paths not found")
r02_7.rule_id = "R02.7"


def r02_8(ctx):
    F = ctx.need("cds::gc::dhp::smr::alloc_thread_data")[0]
    n = smr.rule_list_push(ctx, "R02.8", F, "thread_list_", "next_", "A thread whose record is not in thread_list_ publishes hazard pointers that no scan reads (C02).")
    if n < 1:
        ctx.broken("no winning push onto thread_list_ found in alloc_thread_data")
r02_8.rule_id = "R02.8"


def r02_9(ctx):
    """a guard extension block handed out by hp_allocator::alloc() - recycled from the free list or fresh - has its guards linked into a
    null-terminated chain inside the block: links left over from the previous owner (guards may be released out of order across blocks) point at
    guards that other blocks / owners now use"""
    from sa.pathsim import PathSim, NULL
    from sa.cfg import cfg_of
    from sa.q import sv_field_path, strip_sv
    F = ctx.need("cds::gc::dhp::hp_allocator::alloc")[0]
    cfg = cfg_of(F)
    link_loops = []
    for h, body in cfg.loops().items():
        for b in body:
            for e in F.blocks[b].elems:
                if e.get("k") == "bin" and e.get("op") == "=" and "next_" in F.text(F.deref(e["lhs"])):
                    link_loops.append(h)
    n = 0
    for p in PathSim(F, bound=512).run():
        if p.outcome != "return":
            continue
        n += 1
        visited = any(h in p.blocks for h in link_loops)
        term = [e for e in p.events if e.kind == "store" and sv_field_path(e.obj)[-1:] == ["next_"] and e.val == NULL]
        ctx.check(bool(link_loops) and visited and bool(term), "R02.9", F, "every block returned by hp_allocator::alloc() passes through the loop that links its guards and gets a null terminator", None,
                  detail="link loop visited: %s, terminator stored: %s. %s" % (visited, bool(term), R), sig="block-relinked")
    if n < 2:
        ctx.broken("hp_allocator::alloc return paths not found")
r02_9.rule_id = "R02.9"


RULES = [r02_1, r02_2, r02_3, r02_4, r02_5, r02_6, r02_7, r02_8, r02_9]
FLOORS = {"R02.1": 2, "R02.2": 12, "R02.3": 4, "R02.4": 4, "R02.4a": 2, "R02.5": 5, "R02.6": 2, "R02.7": 4, "R02.8": 1, "R02.9": 2}
