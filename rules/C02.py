"""C02 - Dynamic hazard pointers never free an object a guard still protects.
Structural clauses only (DESIGN.md §4 C02); interleaving safety is not decided."""
import re

from sa import run as _run
from . import smr

PROPERTY = "C02"
LEVEL = "other"
FILES = r"^%s/(src/dhp\.cpp|cds/gc/dhp\.h|cds/gc/details/(hp_common|retired_ptr)\.h)$" % _run.REPO
TUS = {
    "quick": ["src/dhp.cpp", "test/unit/queue/msqueue_dhp.cpp", "test/unit/list/michael_dhp.cpp",
              "test/unit/intrusive-set/intrusive_feldman_hashset_dhp.cpp"],
    "thorough": ["src/dhp.cpp", "test/unit/*/*_dhp.cpp", "test/unit/*/*_dhp_*.cpp"],
}
EXPLANATION = (
    "Static, path-exhaustive structural obligations over the Dynamic Hazard Pointer core (src/dhp.cpp, cds/gc/dhp.h): "
    "retire_data decides free/keep on the element's own pointer; scan copies the initial guard array and every extension "
    "block of every owned record with the sizes the allocator creates; extension blocks are linked and published before use; "
    "protect()/assign() publish-and-revalidate protocol; detach order; help_scan adoption under the ownership CAS. "
    "Necessary conditions of C02; interleaving safety is not decided.")
ASSUMPTIONS = [
    "clang 14 AST/CFG of the instantiated functions is faithful to what the build compiles (same flags, -DNDEBUG)",
    "necessary conditions only",
]
R = "Otherwise a guarded object can be freed by a DHP scan (C02)."


def r02_1(ctx):
    fs = [f for f in smr.smr_functions(ctx, "dhp") if smr.is_scan_like(f)]
    ctx.need("cds::gc::dhp::(anon)::retire_data")
    smr.rule_scan_decision(ctx, "R02.1", fs, R)
r02_1.rule_id = "R02.1"


def r02_2(ctx):
    smr.rule_dhp_scan_coverage(ctx, "R02.2", R)
r02_2.rule_id = "R02.2"


def r02_3(ctx):
    F = ctx.need("cds::gc::dhp::thread_hp_storage::extend")[0]
    smr.rule_extend_publication(ctx, "R02.3", F, "A guard in a block that scan cannot reach protects nothing.")
r02_3.rule_id = "R02.3"


def r02_4(ctx):
    fs = [f for f in ctx.db.funcs.values() if re.search(r"cds::gc::DHP::(Guard|GuardArray)::protect$", f.q)]
    n = smr.rule_protect_protocol(ctx, "R02.4", fs, "Without re-validation after publication the protected object may already be retired and freed.")
    if n == 0:
        ctx.broken("no instantiation of DHP::Guard::protect with a validation loop found")
    fa = [f for f in ctx.db.funcs.values() if re.search(r"cds::gc::DHP::(Guard|GuardArray)::assign$", f.q)]
    n2 = smr.rule_assign_sync(ctx, "R02.4a", fa, "The slot store must be ordered before the later validation load by sync().")
    if n2 == 0:
        ctx.broken("no instantiation of DHP::Guard::assign found")
r02_4.rule_id = "R02.4"


def r02_5(ctx):
    H = ctx.need("cds::gc::dhp::smr::help_scan")[0]
    smr.rule_help_scan(ctx, "R02.5", H, "thread_id_", r"dhp::retired_array::push$", r"dhp::retired_array::fini$",
                       "Adopting a record that is still owned races with its owner.")
r02_5.rule_id = "R02.5"


def r02_6(ctx):
    F = ctx.need("cds::gc::dhp::smr::free_thread_data")[0]
    smr.rule_detach_order(ctx, "R02.6", F, "thread_id_", "Releasing the record before its retired objects are scanned lets another thread reuse it.")
    S = ctx.need("cds::gc::dhp::smr::scan")[0]
    smr.rule_scan_entry_dhp(ctx, "R02.6", S)
r02_6.rule_id = "R02.6"


RULES = [r02_1, r02_2, r02_3, r02_4, r02_5, r02_6]
FLOORS = {"R02.1": 2, "R02.2": 12, "R02.3": 4, "R02.4": 4, "R02.4a": 2, "R02.5": 5, "R02.6": 2}
