"""E2 - hazard-pointer guard discipline on paths (HP / DHP instantiations).

A pointer value obtained from a shared atomic (load / exchange / the updated expected of a failed CAS) must not be dereferenced before it
is protected: result of Guard::protect / GuardArray::protect, or published with assign()/copy() and then re-validated against a fresh load
of the same atomic location, or shown equal to an already protected value.  One-sided: only certainly unprotected dereferences are reported."""
import re

from sa import q as Q
from sa.cfg import PathBoundExceeded
from sa.pathsim import PathSim, C, NULL
from sa.q import cond_atoms, strip_sv, sv_field_path, atomic_op, noepoch, sv_mentions

PROTECT = re.compile(r"::(Guard|GuardArray)::protect$")
ASSIGN = re.compile(r"::(Guard|GuardArray)::(assign|copy)$")
PTR_LOAD_OPS = ("load", "exchange")
PROJ = re.compile(r"(marked_ptr::(ptr|all|operator->|operator\*)|node_traits::to_(value|node)_ptr|::to_(value|node)_ptr|get_node_traits::to_(value|node)_ptr)$")


def is_ptr_type(t):
    return t is not None and (t.rstrip().endswith("*") or "marked_ptr<" in t)


def analyse_path(F, p):
    """returns list of (event, value, load event) for dereferences of certainly unprotected shared pointers"""
    ev = p.events
    protected = set()
    origin = {}       # value -> (load event, location)
    published = {}    # value -> index of assign
    issues = []
    alias = {}        # value obtained from another by a pure projection (marked_ptr::ptr(), operator->, to_value_ptr ...) -> that value

    def resolve(v):
        k = 0
        while v in alias and k < 8:
            v = alias[v]
            k += 1
        return v

    def base_of(sv):
        b = strip_sv(sv)
        return resolve(b)

    def norm_loc(sv):
        """location identity: projections (p.ptr(), p->, to_value_ptr) are replaced by the value they project, epochs dropped"""
        if isinstance(sv, tuple):
            if sv in alias:
                return norm_loc(resolve(sv))
            return tuple(norm_loc(x) for x in noepoch(sv)) if sv and sv[0] in ("fld", "elem", "deref", "addr") else sv
        return sv
    # branch facts in event order
    for i, e in enumerate(ev):
        if e.kind == "call":
            q = e.q or ""
            if PROJ.search(q):
                src = e.obj if e.obj is not None else (e.args[0] if e.args else None)
                if src is not None:
                    alias[e.val] = strip_sv(src) if strip_sv(src) != src and False else src
                    if isinstance(src, tuple) and src and src[0] == "deref":
                        alias[e.val] = src[1]
            if PROTECT.search(q):
                # protect( [idx,] atomic& toGuard, f ): toGuard is a field of some node - that node must already be safe to touch
                for a in e.args:
                    if isinstance(a, tuple) and a and a[0] == "fld":
                        b = base_of(a)
                        if b in origin and b not in protected:
                            issues.append((e, b, origin[b][0]))
                protected.add(e.val)
                continue
            if ASSIGN.search(q) and e.args:
                v = e.args[-1]
                published[v] = i
                published[resolve(v)] = i
                # assign( p.ptr() ): the published value is the pointer part of a marked pointer
                for x in ev[:i]:
                    if x.kind == "call" and x.val == v and x.q and re.search(r"marked_ptr::(ptr|all)$", x.q) and x.obj is not None:
                        published[x.obj] = i
                continue
            op = atomic_op(e)
            if op in PTR_LOAD_OPS and e.node is not None and is_ptr_type(e.node.get("t")):
                origin[e.val] = (e, norm_loc(e.obj))
            # dereference through an unprotected value
            base = base_of(e.obj) if e.obj is not None else None
            if base is not None and base != e.obj and base in origin and base not in protected:
                if op is not None or q.endswith("::lock") or q.endswith("::unlock"):
                    issues.append((e, base, origin[base][0]))
        elif e.kind == "store":
            base = base_of(e.obj) if e.obj is not None else None
            if base is not None and base != e.obj and base in origin and base not in protected:
                issues.append((e, base, origin[base][0]))
        elif e.kind == "branch":
            atom, tv = None, None
            from sa.pathsim import norm_cond
            if isinstance(e.extra, tuple) and e.extra[0] != "switch":
                atom, pol = norm_cond(e.val)
                tv = (e.extra[1] == pol)
            if isinstance(atom, tuple) and len(atom) == 4 and atom[0] == "op" and atom[1] == "==" and tv:
                a, b = resolve(atom[2]), resolve(atom[3])
                for x, y in ((a, b), (b, a)):
                    if y in protected:
                        protected.add(x)
                    # validation: x was published, y is a later load of the location x came from
                    if x in published and y in origin and x in origin:
                        ly, locy = origin[y]
                        lx, locx = origin[x]
                        if locx == locy and ev.index(ly) > published[x]:
                            protected.add(x)
                            protected.add(y)
    return issues


def rule_guard_discipline(ctx, rid, funcs, reason, bound=4000, exempt=None):
    analysed = skipped = 0
    for F in funcs:
        if F.gc_kind() not in ("HP", "DHP"):
            continue
        name = F.q.split("::")[-1]
        if F.kind in ("ctor", "dtor") or name in ("clear", "destroy", "check_consistency") or name.startswith("unsafe_"):
            continue      # single-threaded by the library's own contract
        if not any(e.get("k") == "call" and Q.atomic_op(e) in PTR_LOAD_OPS for _, _, e in F.all_elements()):
            continue
        try:
            ps = PathSim(F, bound=bound, entry_values=True).run()
        except PathBoundExceeded:
            try:
                ps = PathSim(F, bound=bound).run()
            except PathBoundExceeded:
                skipped += 1
                continue
        analysed += 1
        ctx.paths += len(ps)
        seen = set()
        clean = True
        for p in ps:
            for (e, v, ld) in analyse_path(F, p):
                key = (id(e.node), id(ld.node))
                if key in seen:
                    continue
                seen.add(key)
                if exempt and exempt(F, e, ld):
                    continue
                clean = False
                ctx.bad(rid, F, "a pointer read from a shared atomic is dereferenced without hazard-pointer protection", e.node,
                        detail="value loaded at line %s (%s) is used at line %s (%s) before it is protected/validated. %s"
                        % (ld.node.get("l"), F.text(ld.node), e.node.get("l"), F.text(e.node)[:120], reason), sig="unguarded-deref:%s" % F.text(e.node)[:60])
        if clean:
            ctx.ok(rid, F, "no unprotected dereference of a shared pointer on any path", None, sig="guarded")
    return analysed, skipped



def rule_free_only_unpublished(ctx, rid, funcs, free_re, alloc_re, teardown, what, reason):
    """premise of a 'these objects are never reclaimed while the container lives' exemption: the freeing routine is called only from the
    tear-down members, or for an object allocated on the same path whose publishing CAS failed (or that was never offered to a CAS)"""
    fre = re.compile(free_re)
    are = re.compile(alloc_re)
    n = 0
    for F in funcs:
        if not Q.calls_in(F, free_re):
            continue
        name = F.q.split("::")[-1]
        if name in teardown or F.kind == "dtor":
            n += 1
            ctx.ok(rid, F, "%s are freed by the tear-down routine" % what, None, sig="free-teardown")
            continue
        if fre.search(F.q):
            continue        # the freeing routine itself (and its helpers of the same name)
        try:
            ps = PathSim(F, bound=2000).run()
        except PathBoundExceeded:
            ctx.bad(rid, F, "%s: cannot enumerate the paths of a function that frees them" % what, None, sig="free-unbounded")
            continue
        for p in ps:
            ev = p.events
            for i, e in enumerate(ev):
                if e.kind == "call" and e.q and fre.search(e.q):
                    n += 1
                    a = e.args[0] if e.args else None
                    fresh = any(x.kind == "call" and x.val == a and x.q and are.search(x.q) for x in ev[:i])
                    pub = [x for x in ev[:i] if x.kind == "call" and (atomic_op(x) or "").startswith("compare_exchange") and len(x.args) > 1 and x.args[1] == a]
                    won = [x for x in pub if any(atom == x.val and tv for atom, tv, b in cond_atoms(p))]
                    ctx.check(fresh and not won, rid, F, "%s are freed outside tear-down only if allocated here and never published" % what, e.node,
                              detail="readers walk them without guards because they outlive every operation. " + reason, sig="free-unpublished")
    return n
