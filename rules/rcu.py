"""Rules over the user-space RCU cores (cds/urcu/details/*.h, cds/urcu/dispose_thread.h) shared by C04 and C05."""
import re

from sa import q as Q
from sa.cfg import cfg_of
from sa.dataflow import roots, root_vars, rdefs
from sa.pathsim import PathSim, C, NULL
from sa.q import cond_atoms, path_calls, path_end, strip_sv, sv_field_path, atomic_op, sv_mentions

FREE = re.compile(r"retired_ptr::free$")
BUFFERED = ("cds::urcu::general_buffered", "cds::urcu::general_threaded", "cds::urcu::signal_buffered")


def _idx(ev, pred):
    return [i for i, e in enumerate(ev) if pred(e)]


def is_free_of(e, sv):
    return e.kind == "call" and e.q and FREE.search(e.q) and strip_sv(e.obj) == sv


def rule_push_buffer(ctx, rid, reason):
    """push_buffer(ep): exactly one push attempt; pushed => never freed here; not pushed => synchronize(), then freed exactly once"""
    n = 0
    for cls in BUFFERED:
        for F in ctx.need(cls + "::push_buffer"):
            ep = ("p", F.params[0]["d"], F.params[0]["n"])
            ps = PathSim(F, bound=256).run()
            ctx.paths += len(ps)
            for p in ps:
                if p.outcome != "return":
                    continue
                n += 1
                ev = p.events
                pushes = _idx(ev, lambda e: e.kind == "call" and e.q and e.q.endswith("::push") and e.args and strip_sv(e.args[0]) == ep)
                frees = _idx(ev, lambda e: is_free_of(e, ep))
                syncs = _idx(ev, lambda e: e.kind == "call" and e.q and e.q.endswith("::synchronize"))
                # callees that themselves push the pointer they are given (one-level summary)
                handoffs = []
                for i, e in enumerate(ev):
                    if e.kind == "call" and e.q and not e.q.endswith("::push") and e.args and any(strip_sv(a) == ep for a in e.args):
                        G = ctx.db.get(e.node.get("m")) if e.node is not None else None
                        if G is not None and G.params:
                            for k, a in enumerate(e.args):
                                if strip_sv(a) == ep and k < len(G.params):
                                    pv = G.params[k]["d"]
                                    for c in Q.calls_in(G, r"::push$"):
                                        if any(x.get("k") == "ref" and x.get("d") == pv for aa in c.get("args", []) for x in G.walk(aa)):
                                            handoffs.append(i)
                if len(pushes) != 1:
                    ctx.bad(rid, F, "push_buffer makes %d push attempts for one retired pointer" % len(pushes), None, detail=reason, sig="push-once")
                    continue
                r0 = ev[pushes[0]].val
                stored = any(atom == r0 and tv for atom, tv, bev in cond_atoms(p))
                later = [i for i in handoffs if i > pushes[0]]
                if stored and later:
                    ctx.bad(rid, F, "a pointer that is already stored in the buffer is handed to %s, which pushes it again: it is queued (and disposed) twice"
                            % ev[later[0]].q.split("::")[-1], ev[later[0]].node, detail=reason, sig="stored-twice")
                    continue
                r = ev[pushes[0]].val
                pushed = None
                for atom, tv, bev in cond_atoms(p):
                    if atom == r:
                        pushed = tv
                if pushed is None:
                    # the result was not consulted on this path: then it must not be freed (it may be in the buffer)
                    ctx.check(not frees, rid, F, "a pointer whose push result is unknown is not freed", ev[pushes[0]].node, detail=reason,
                              sig="free-with-unknown-push")
                elif pushed:
                    ctx.check(not frees, rid, F, "a pointer that was stored in the buffer is not freed by push_buffer", ev[pushes[0]].node,
                              detail="freed although it is also in the buffer: it will be disposed twice. " + reason, sig="pushed-not-freed")
                elif later:
                    # the pointer was handed to a callee that stores it itself; whether it must be freed here depends on that callee's result
                    ctx.check(len(frees) <= 1, rid, F, "a pointer handed over to a storing callee is freed at most once here", ev[pushes[0]].node, sig="handoff-free")
                else:
                    ok = len(frees) == 1 and bool(syncs) and syncs[0] < frees[0]
                    ctx.check(ok, rid, F, "a pointer that did not fit in the buffer is freed exactly once, after synchronize()", ev[pushes[0]].node,
                              detail="frees=%d synchronize-before=%s. %s" % (len(frees), bool(syncs) and (not frees or syncs[0] < frees[0]), reason),
                              sig="overflow-sync-free")
    return n


def rule_clear_buffer(ctx, rid, reason):
    """clear_buffer(epoch): every popped element is either freed (epoch <= limit) or pushed back (then the loop stops) - exactly one of them"""
    n = 0
    for cls in ("cds::urcu::general_buffered", "cds::urcu::signal_buffered"):
        for F in ctx.need(cls + "::clear_buffer"):
            cfg = cfg_of(F)
            loops = cfg.loops()
            if not loops:
                ctx.broken("%s::clear_buffer has no loop" % cls)
            # whole-function paths (each block once): the 'break' after a push-back lies outside the natural loop
            ps = PathSim(F, bound=256).run()
            limit = ("p", F.params[0]["d"], F.params[0]["n"])
            for p in ps:
                ev = p.events
                pops = _idx(ev, lambda e: e.kind == "call" and e.q and e.q.endswith("::pop"))
                if not pops:
                    continue
                r = ev[pops[0]].val
                popped = None
                for atom, tv, bev in cond_atoms(p):
                    if atom == r:
                        popped = tv
                if not popped:
                    continue
                n += 1
                frees = _idx(ev, lambda e: e.kind == "call" and e.q and FREE.search(e.q))
                back = _idx(ev, lambda e: e.kind == "call" and e.q and e.q.endswith("::push_buffer"))
                ctx.check(len(frees) + len(back) == 1, rid, F, "a popped element is freed or pushed back - exactly one of them", ev[pops[0]].node,
                          detail="free=%d push_buffer=%d. %s" % (len(frees), len(back), reason), sig="pop-one-of")
                # the epoch test decides
                ep_true = None
                for atom, tv, bev in cond_atoms(p):
                    t = repr(atom)
                    if "m_nEpoch" in t and isinstance(atom, tuple) and atom[0] == "op" and atom[1] in ("<=", "<", ">", ">="):
                        a, b = atom[2], atom[3]
                        op = atom[1]
                        # normalise to  elem.epoch <= limit
                        if "m_nEpoch" in repr(b):
                            a, b = b, a
                            op = {"<=": ">=", "<": ">", ">": "<", ">=": "<="}[op]
                        le = (op == "<=" and tv) or (op == ">" and not tv)
                        lt = (op == "<" and tv) or (op == ">=" and not tv)
                        ep_true = True if le else (None if lt else False)
                        if b != limit:
                            ctx.bad(rid, F, "the epoch of a popped element is compared with something else than the synchronised epoch",
                                    bev.node, detail=reason, sig="epoch-operand")
                if frees:
                    ctx.check(ep_true is True, rid, F, "an element is freed only if its epoch <= the synchronised epoch", ev[frees[0]].node,
                              detail="free is not guarded by 'element epoch <= epoch argument'. " + reason, sig="free-epoch-guard")
                if back:
                    end = path_end(p)
                    ctx.check(end[0] in ("leave", "return"), rid, F, "after pushing a too-young element back the loop stops", ev[back[0]].node,
                              detail="the loop continues and pops the element it has just pushed back (livelock / reordering)", sig="pushback-stops")
    return n


def rule_dispose_buffer(ctx, rid, reason):
    F = ctx.need("cds::urcu::dispose_thread::dispose_buffer")[0]
    cfg = cfg_of(F)
    h, body = max(cfg.loops().items(), key=lambda hb: len(hb[1]))
    ps = PathSim(F, bound=256, start=h, region=set(body)).run()
    n = 0
    for p in ps:
        ev = p.events
        fr = _idx(ev, lambda e: e.kind == "call" and e.q and e.q.endswith("::front"))
        frees = _idx(ev, lambda e: e.kind == "call" and e.q and FREE.search(e.q))
        pops = _idx(ev, lambda e: e.kind == "call" and e.q and e.q.endswith("::pop_front"))
        end = path_end(p)
        if frees or pops:
            n += 1
            ok = len(frees) == 1 and len(pops) == 1 and frees[0] < pops[0] and fr and strip_sv(ev[frees[0]].obj) == ev[fr[0]].val
            ctx.check(bool(ok), rid, F, "the front element is freed once and then removed from the buffer", ev[frees[0]].node if frees else None,
                      detail="free=%d pop_front=%d. %s" % (len(frees), len(pops), reason), sig="dispose-free-pop")
            guard = False
            for atom, tv, bev in cond_atoms(p):
                if "m_nEpoch" in repr(atom) and isinstance(atom, tuple) and atom[0] == "op" and atom[1] == "<=" and tv:
                    guard = True
            ctx.check(guard, rid, F, "the disposer thread frees only elements with epoch <= the epoch it was given", ev[frees[0]].node if frees else None,
                      detail=reason, sig="dispose-epoch")
            ctx.check(end == ("back", h), rid, F, "after disposing an element the loop goes on with the next one", None, sig="dispose-continue")
        elif end[0] == "back":
            ctx.bad(rid, F, "the dispose loop iterates without removing the front element (livelock)", None, sig="dispose-livelock")
    return n


def rule_drain(ctx, rid, reason):
    """Destruct()/destructor drain the buffer with the maximal epoch before the singleton is deleted"""
    n = 0
    MAX = 18446744073709551615
    for cls in ("cds::urcu::general_buffered", "cds::urcu::signal_buffered"):
        for F in ctx.need(cls + "::Destruct"):
            ps = PathSim(F, bound=64).run()
            for p in ps:
                ev = p.events
                dels = _idx(ev, lambda e: e.kind == "delete")
                if not dels:
                    continue
                n += 1
                clr = _idx(ev, lambda e: e.kind == "call" and e.q and e.q.endswith("::clear_buffer"))
                ok = bool(clr) and clr[0] < dels[0] and ev[clr[0]].args and _is_max(ev[clr[0]].args[0])
                ctx.check(ok, rid, F, "Destruct() drains the buffer (clear_buffer(max epoch)) before deleting the singleton", ev[dels[0]].node,
                          detail=reason, sig="destruct-drain")
        for F in ctx.db.find(q=cls + "::~" + cls.split("::")[-1]):
            clr = Q.calls_in(F, r"::clear_buffer$")
            n += 1
            ctx.check(len(clr) >= 1, rid, F, "the destructor drains the buffer", clr[0] if clr else None, detail=reason, sig="dtor-drain")
    for F in ctx.need("cds::urcu::general_threaded::Destruct"):
        ps = PathSim(F, bound=64).run()
        for p in ps:
            ev = p.events
            dels = _idx(ev, lambda e: e.kind == "delete")
            if not dels:
                continue
            n += 1
            st = _idx(ev, lambda e: e.kind == "call" and e.q and e.q.endswith("dispose_thread::stop"))
            ok = bool(st) and st[0] < dels[0] and len(ev[st[0]].args) == 2 and _is_max(ev[st[0]].args[1]) and \
                sv_field_path(ev[st[0]].args[0])[-1:] == ["m_Buffer"]
            ctx.check(ok, rid, F, "Destruct() hands the whole buffer with the maximal epoch to the disposer thread and joins it before delete",
                      ev[dels[0]].node, detail=reason, sig="destruct-drain-gpt")
    S = ctx.need("cds::urcu::dispose_thread::stop")[0]
    # stop(): work (buffer, epoch) published, quit flag set, then join
    ps = PathSim(S, bound=256).run()
    for p in ps:
        if p.outcome != "return":
            continue
        ev = p.events
        pub = _idx(ev, lambda e: e.kind == "call" and atomic_op(e) == "store" and sv_field_path(e.obj)[-1:] == ["m_pBuffer"])
        ep = _idx(ev, lambda e: e.kind == "store" and sv_field_path(e.obj)[-1:] == ["m_nCurEpoch"])
        jn = _idx(ev, lambda e: e.kind == "call" and e.q and e.q.endswith("::join"))
        n += 1
        ok = pub and ep and jn and ep[0] < jn[0] and pub[0] < jn[0] and ev[ep[0]].val == ("p", S.params[1]["d"], S.params[1]["n"])
        ctx.check(bool(ok), rid, S, "stop() publishes the buffer and its epoch limit, then joins the disposer thread", ev[jn[0]].node if jn else None,
                  detail=reason, sig="stop-publish-join")
    E = ctx.need("cds::urcu::dispose_thread::execute")[0]
    # execute(): dispose_buffer is called with the buffer/epoch read under the mutex, on every iteration that got work
    db_ = Q.calls_in(E, r"::dispose_buffer$")
    ctx.check(len(db_) == 1, rid, E, "the disposer thread processes the buffer it was given", db_[0] if db_ else None, sig="execute-dispose")
    if db_:
        a = db_[0].get("args", [])
        rs = roots(E, a[1], db_[0]["_site"], expand_loop_vars=True) if len(a) == 2 else set()
        ctx.check(any(r[0] == "member" and r[2] == "m_nCurEpoch" for r in rs), rid, E,
                  "the epoch limit used by the disposer thread is the one published with the work", db_[0], sig="execute-epoch")
    return n


def _is_max(sv):
    if isinstance(sv, tuple) and sv[0] == "c":
        return sv[1] in (18446744073709551615, -1)
    if isinstance(sv, tuple) and sv[0] in ("call", "callv") and "max" in str(sv[1]):
        return True
    return False


def rule_gpi_retire(ctx, rid, reason):
    """general_instant: synchronize() precedes every free; each element freed exactly once"""
    n = 0
    F = ctx.need("cds::urcu::general_instant::retire_ptr")[0]
    ps = PathSim(F, bound=64).run()
    p0 = ("p", F.params[0]["d"], F.params[0]["n"])
    for p in ps:
        if p.outcome != "return":
            continue
        ev = p.events
        frees = _idx(ev, lambda e: is_free_of(e, p0))
        syncs = _idx(ev, lambda e: e.kind == "call" and e.q and e.q.endswith("::synchronize"))
        nonnull = None
        for atom, tv, bev in cond_atoms(p):
            if sv_field_path(atom)[-1:] == ["m_p"]:
                nonnull = tv
        n += 1
        if nonnull:
            ctx.check(len(frees) == 1 and syncs and syncs[0] < frees[0], rid, F, "retire_ptr: synchronize(), then the object is freed exactly once",
                      ev[frees[0]].node if frees else None, detail=reason, sig="gpi-retire")
        elif nonnull is False:
            ctx.check(not frees, rid, F, "retire_ptr: a null retired pointer is not freed", None, sig="gpi-retire-null")
        else:
            ctx.check(not frees or (syncs and syncs[0] < frees[0]), rid, F, "retire_ptr: free only after synchronize()", None, sig="gpi-retire-order")
    for F in ctx.need("cds::urcu::general_instant::batch_retire"):
        cfg = cfg_of(F)
        frees = Q.calls_in(F, FREE)
        syncs = Q.calls_in(F, r"::synchronize$")
        n += 1
        ok = bool(frees) and bool(syncs) and all(cfg.site_dominates(syncs[0]["_site"], fr["_site"]) for fr in frees)
        ctx.check(ok, rid, F, "batch_retire: synchronize() dominates every free()", frees[0] if frees else None, detail=reason, sig="gpi-batch-order")
        for fr in frees:
            lp = Q.innermost_loop_of(F, fr["_site"][0])
            if not lp:
                ctx.bad(rid, F, "batch_retire frees outside the element loop", fr, sig="gpi-batch-loop")
                continue
            ee = _early_exits(F, lp)
            ctx.check(not ee, rid, F, "batch_retire leaves its element loop only through the loop's own range / chain test", fr,
                      detail="the loop body has an exit of its own (break / return in block(s) %s): the elements after that point are never freed. %s" % (ee, reason),
                      sig="gpi-batch-whole-range")
            for p in PathSim(F, bound=256, start=lp[0], region=set(lp[1])).run():
                if path_end(p) == ("back", lp[0]):
                    k = len(path_calls(p, FREE))
                    # an iteration may skip a null element
                    skipped = any(sv_field_path(atom)[-1:] == ["m_p"] and tv is False for atom, tv, bev in cond_atoms(p))
                    ctx.check(k == 1 or (k == 0 and skipped), rid, F, "batch_retire frees each chain element exactly once", fr,
                              detail="%d free() in one iteration. %s" % (k, reason), sig="gpi-batch-once")
    return n


def _early_exits(F, lp):
    """blocks of the loop body (other than the header) with an edge that leaves the loop: break / return inside the element loop"""
    head, body = lp[0], set(lp[1]) | {lp[0]}
    out = []
    for b in body:
        if b == head:
            continue
        for s2 in F.blocks[b].real_succ():
            if s2 not in body:
                out.append(b)
    return out



def rule_retire_push(ctx, rid, reason):
    """buffered flavours: retire_ptr / batch_retire hand each element to push_buffer exactly once, tagged with the current epoch"""
    n = 0
    for cls in BUFFERED:
        for F in ctx.need(cls + "::retire_ptr"):
            ps = PathSim(F, bound=64).run()
            for p in ps:
                if p.outcome != "return":
                    continue
                pb = path_calls(p, r"::push_buffer$")
                nonnull = None
                for atom, tv, bev in cond_atoms(p):
                    if sv_field_path(atom)[-1:] == ["m_p"]:
                        nonnull = tv
                n += 1
                ctx.check(len(pb) == (0 if nonnull is False else 1), rid, F, "retire_ptr hands a non-null pointer to push_buffer exactly once",
                          pb[0].node if pb else None, detail=reason, sig="retire-push-once")
                if pb:
                    # epoch tag = m_nCurEpoch.load()
                    ld = [e for e in p.events if e.kind == "call" and atomic_op(e) == "load" and sv_field_path(e.obj)[-1:] == ["m_nCurEpoch"]]
                    ctors = [e for e in p.events if e.kind == "ctor" and e.q and e.q.endswith("epoch_retired_ptr::epoch_retired_ptr") and len(e.args) == 2]
                    ok = bool(ld) and any(c.args[1] == ld[0].val for c in ctors)
                    ctx.check(ok, rid, F, "the retired pointer is tagged with the current epoch", pb[0].node, sig="retire-epoch-tag")
        for F in ctx.need(cls + "::batch_retire"):
            pbs = Q.calls_in(F, r"::push_buffer$")
            if not pbs:
                ctx.bad(rid, F, "batch_retire never pushes", None, sig="batch-no-push")
                continue
            lp = Q.innermost_loop_of(F, pbs[0]["_site"][0])
            if not lp:
                ctx.bad(rid, F, "batch_retire pushes outside its element loop", pbs[0], sig="batch-loop")
                continue
            ee = _early_exits(F, lp)
            ctx.check(not ee, rid, F, "batch_retire leaves its element loop only through the loop's own range / chain test", pbs[0],
                      detail="the loop body has an exit of its own (break / return in block(s) %s): the elements after that point are never handed over. %s" % (ee, reason),
                      sig="batch-whole-range")
            for p in PathSim(F, bound=256, start=lp[0], region=set(lp[1])).run():
                if path_end(p) == ("back", lp[0]):
                    n += 1
                    ctx.check(len(path_calls(p, r"::push_buffer$")) == 1, rid, F, "batch_retire pushes each chain element exactly once", pbs[0],
                              detail=reason, sig="batch-push-once")
    return n


# ---------------------------------------------------------------------------
# C04: grace periods
# ---------------------------------------------------------------------------
def rule_two_phases(ctx, rid, reason):
    """synchronize(): two flip-and-wait phases inside the lock scope (gp flavours); the signal flavour's full sequence"""
    n = 0
    for cls in ("cds::urcu::general_instant", "cds::urcu::general_buffered", "cds::urcu::general_threaded"):
        for F in ctx.need(cls + "::synchronize"):
            if not Q.calls_in(F, r"::flip_and_wait$"):
                continue       # forwarding overload
            ps = PathSim(F, bound=256).run()
            for p in ps:
                if p.outcome != "return":
                    continue
                ev = p.events
                flips = _idx(ev, lambda e: e.kind == "call" and e.q and e.q.endswith("::flip_and_wait"))
                locks = _idx(ev, lambda e: e.kind == "var" and e.extra and e.extra[1] == "std::unique_lock")
                unl = _idx(ev, lambda e: e.kind == "dtor" and e.extra and e.extra[1] == "std::unique_lock")
                early = not flips and any(e.kind == "call" and e.q and e.q.endswith("::push") for e in ev)
                if early:
                    continue      # buffered: element stored, no grace period needed on this path
                n += 1
                ok = len(flips) >= 2 and locks and unl and locks[0] < flips[0] and flips[-1] < unl[-1]
                ctx.check(bool(ok), rid, F, "synchronize() performs two flip-and-wait phases while holding the RCU lock",
                          ev[flips[0]].node if flips else None,
                          detail="%d phase(s); inside lock scope: %s. %s" % (len(flips), bool(ok), reason), sig="two-phases")
                # what is freed/dispatched happens after the phases
                post = _idx(ev, lambda e: e.kind == "call" and e.q and re.search(r"::(clear_buffer|dispose)$", e.q))
                for i in post:
                    ctx.check(flips and i > flips[-1], rid, F, "reclamation is started only after both phases", ev[i].node, detail=reason,
                              sig="reclaim-after-phases")
    for F in ctx.need("cds::urcu::signal_buffered::synchronize"):
        if not Q.calls_in(F, r"::wait_for_quiescent_state$"):
            continue
        ps = PathSim(F, bound=256).run()
        for p in ps:
            if p.outcome != "return":
                continue
            ev = p.events
            seq = [e.q.split("::")[-1] for e in ev if e.kind == "call" and e.q and
                   re.search(r"::(force_membar_all_threads|switch_next_epoch|wait_for_quiescent_state|clear_buffer)$", e.q)]
            if not seq or seq == []:
                continue
            if "wait_for_quiescent_state" not in seq and "clear_buffer" not in seq:
                continue
            n += 1
            # order requirements (extra calls are tolerated): membar ... (switch, wait) x2 ... membar ... clear_buffer
            def ordered():
                i = 0
                need = ["force_membar_all_threads", "switch_next_epoch", "wait_for_quiescent_state", "switch_next_epoch",
                        "wait_for_quiescent_state", "force_membar_all_threads", "clear_buffer"]
                for name in seq:
                    if i < len(need) and name == need[i]:
                        i += 1
                if i < len(need):
                    return False
                # nothing is reclaimed before the second wait; no epoch switch without a following wait
                first_clear = seq.index("clear_buffer")
                waits = [k for k, x in enumerate(seq) if x == "wait_for_quiescent_state"]
                sw = [k for k, x in enumerate(seq) if x == "switch_next_epoch"]
                return len(waits) >= 2 and waits[1] < first_clear and all(any(w > k for w in waits) for k in sw)
            ctx.check(ordered(), rid, F, "signal_buffered::synchronize: membar, two epoch switches each followed by a quiescent-state wait, "
                      "membar, then reclamation", None, detail="sequence on this path: %s. %s" % (seq, reason), sig="sig-sequence")
    return n


def rule_flip_and_wait(ctx, rid, reason):
    """flip_and_wait: control bit flipped, then every thread record is waited for while it is attached and inside an old-phase section"""
    n = 0
    for q, wait in (("cds::urcu::details::gp_singleton::flip_and_wait", None), ("cds::urcu::details::sh_singleton::wait_for_quiescent_state", None)):
        for F in ctx.need(q):
            cfg = cfg_of(F)
            n += 1
            chk = Q.calls_in(F, r"::check_grace_period$")
            ctx.check(len(chk) == 1, rid, F, "the wait loop tests check_grace_period()", chk[0] if chk else None, sig="has-check")
            if not chk:
                continue
            if q.endswith("flip_and_wait"):
                fl = [e for _, _, e in F.all_elements() if e.get("k") == "call" and atomic_op(e) == "fetch_xor"]
                ok = bool(fl) and cfg.site_dominates(fl[0]["_site"], chk[0]["_site"])
                ctx.check(ok, rid, F, "the global control bit is flipped before readers are waited for", fl[0] if fl else None, detail=reason,
                          sig="flip-before-wait")
            # record loop: from thread list head, next_ chain, no other filter than thread_id != null
            outer = None
            for h, body in cfg.loops().items():
                if chk[0]["_site"][0] in body and (outer is None or len(body) > len(outer[1])):
                    outer = (h, body)
            if not outer:
                ctx.bad(rid, F, "check_grace_period is not inside a loop over the thread records", chk[0], sig="no-record-loop")
                continue
            t = F.blocks[outer[0]].term
            c = F.strip(t["cond"]) if t and t.get("cond") else None
            okl = False
            if c is not None and c.get("k") == "ref":
                ds = rdefs(F).all_defs(c["d"])
                ini = [d for d in ds if d.kind == "init"]
                stp = [d for d in ds if d.kind == "assign"]
                okl = any(any(r[0] == "call" and r[1].endswith("thread_list::head") for r in roots(F, d.rhs, d.site)) for d in ini) and \
                    bool(stp) and all(any(r[0] == "member" and r[2] == "next_" for r in roots(F, d.rhs, d.site)) for d in stp)
            ctx.check(okl, rid, F, "every thread record is visited (head -> next_ -> null)", t, detail=reason, sig="all-records")
            for cond, outcome, text, b in Q.guard_conditions(F, chk[0]["_site"]):
                if b not in outer[1]:
                    continue
                okc = outcome and (text.strip("()") in ("pRec",) or "thread_id_" in text or "!= nullThreadId" in text)
                ctx.check(okc, rid, F, "the wait for a record is conditioned only on 'record attached': %s is %s" % (text, outcome), cond,
                          detail="an extra filter lets synchronize() return while some reader is still inside its critical section. " + reason,
                          sig="wait-filter")
            # the spin continues while check_grace_period is true: its block has a loop back edge on the true outcome
            inner = Q.innermost_loop_of(F, chk[0]["_site"][0])
            ctx.check(inner is not None and inner[0] != outer[0], rid, F, "the reader is spun on until it leaves the old phase", chk[0],
                      sig="spin-loop")
    return n


def rule_reader_side(ctx, rid, reason):
    """access_lock: outermost entry snapshots the global control word and then fences; nested entry adds one; unlock subtracts one"""
    n = 0
    for cls, fence in (("cds::urcu::details::gp_thread_gc", "fence"), ("cds::urcu::details::sh_thread_gc", "barrier")):
        for F in ctx.need(cls + "::access_lock"):
            ps = PathSim(F, bound=64).run()
            for p in ps:
                if p.outcome != "return":
                    continue
                ev = p.events
                lds = _idx(ev, lambda e: e.kind == "call" and atomic_op(e) == "load" and sv_field_path(e.obj)[-1:] == ["m_nAccessControl"])
                sts = _idx(ev, lambda e: e.kind == "call" and atomic_op(e) == "store" and sv_field_path(e.obj)[-1:] == ["m_nAccessControl"])
                n += 1
                if len(sts) != 1 or not lds:
                    ctx.bad(rid, F, "access_lock does not update the reader control word exactly once", None, sig="lock-store-once")
                    continue
                tmp = ev[lds[0]].val
                outer = None
                for atom, tv, bev in cond_atoms(p):
                    if isinstance(atom, tuple) and atom[0] == "op" and atom[1] == "&" and atom[2] == tmp:
                        outer = not tv      # (tmp & mask) == 0  normalises to atom (tmp & mask) with polarity flipped
                v = ev[sts[0]].args[0]
                if outer is True:
                    gw = [e for e in ev if e.kind == "call" and e.q and e.q.endswith("::global_control_word")]
                    ctx.check(bool(gw) and v == gw[0].val, rid, F, "outermost lock stores a snapshot of the global control word", ev[sts[0]].node,
                              detail=reason, sig="lock-snapshot")
                    if fence == "fence":
                        fc = _idx(ev, lambda e: e.kind == "call" and e.q and e.q.endswith("atomic_thread_fence"))
                        ok = bool(fc) and fc[0] > sts[0] and ev[fc[0]].args and ev[fc[0]].args[0] == C(5)
                        ctx.check(ok, rid, F, "outermost lock is followed by a seq_cst fence", ev[sts[0]].node,
                                  detail="without the fence the snapshot store can be reordered after reads of shared pointers. " + reason,
                                  sig="lock-fence")
                    else:
                        fc = _idx(ev, lambda e: e.kind == "asm")
                        ctx.check(bool(fc) and fc[0] > sts[0], rid, F, "outermost lock is followed by a compiler barrier", ev[sts[0]].node,
                                  sig="lock-barrier")
                elif outer is False:
                    ctx.check(v == ("op", "+", tmp, C(1)), rid, F, "nested lock increments the nesting count by one", ev[sts[0]].node, sig="lock-nest")
                else:
                    ctx.bad(rid, F, "access_lock does not distinguish outermost from nested entry by the nesting bits", None, sig="lock-nest-test")
        for F in ctx.need(cls + "::access_unlock"):
            ps = PathSim(F, bound=64).run()
            for p in ps:
                if p.outcome != "return":
                    continue
                ev = p.events
                lds = _idx(ev, lambda e: e.kind == "call" and atomic_op(e) == "load" and sv_field_path(e.obj)[-1:] == ["m_nAccessControl"])
                sts = _idx(ev, lambda e: e.kind == "call" and atomic_op(e) == "store" and sv_field_path(e.obj)[-1:] == ["m_nAccessControl"])
                n += 1
                ok = len(sts) == 1 and lds and ev[sts[0]].args[0] == ("op", "-", ev[lds[0]].val, C(1))
                ctx.check(bool(ok), rid, F, "access_unlock decrements the nesting count by one", ev[sts[0]].node if sts else None, sig="unlock-dec")
        for F in ctx.need(cls + "::is_locked"):
            n += 1
            rets = [e for _, _, e in F.all_elements() if e.get("k") == "ret" and "v" in e]
            r = F.strip(rets[0]["v"]) if rets else None
            ok = False
            if r is not None and r.get("k") == "bin" and r["op"] in ("!=", ">") and _cv(F, r["rhs"]) == 0:
                a = F.strip(r["lhs"])
                ok = _is_masked_load(F, a, "m_nAccessControl", NEST)
            ctx.check(ok, rid, F, "is_locked tests exactly the nesting bits of the reader control word", rets[0] if rets else None,
                      detail=F.text(r) if r else "", sig="is-locked")
    # check_grace_period: in a critical section (nest bits) AND phase differs from the global one
    for q in ("cds::urcu::details::gp_singleton::check_grace_period", "cds::urcu::details::sh_singleton::check_grace_period"):
        for F in ctx.need(q):
            n += 1
            rets = [e for _, _, e in F.all_elements() if e.get("k") == "ret" and "v" in e]
            r = F.strip(rets[0]["v"]) if rets else None
            ok = False
            if r is not None and r.get("k") == "bin" and r["op"] == "&&":
                l, rr = F.strip(r["lhs"]), F.strip(r["rhs"])
                okl = _is_masked_load(F, l, "m_nAccessControl", NEST)
                okr = False
                if rr.get("k") == "bin" and rr["op"] == "&":
                    for x, m in ((rr["lhs"], rr["rhs"]), (rr["rhs"], rr["lhs"])):
                        mv = _cv(F, m)
                        if mv is not None and (mv & 0xFFFFFFFF) == (~NEST & 0xFFFFFFFF):
                            xx = F.strip(x)
                            if xx.get("k") == "bin" and xx["op"] == "^":
                                names = set()
                                for side in (xx["lhs"], xx["rhs"]):
                                    for rt in roots(F, side, rets[0]["_site"]):
                                        if rt[0] == "call" and rt[1].endswith("::load"):
                                            for o in rt[2]:
                                                if o[0] == "member":
                                                    names.add(o[2])
                                okr = names == {"m_nAccessControl", "m_nGlobalControl"}
                ok = okl and okr
            ctx.check(ok, rid, F, "a reader blocks the grace period iff it is inside a section (nest bits set) entered in the other phase "
                      "(control bit differs from the global one)", rets[0] if rets else None, detail=F.text(r) if r else "", sig="check-grace-period")
    return n


NEST = 0x7FFFFFFF


def _cv(F, n):
    for _ in range(10):
        n = F.deref(n)
        if not isinstance(n, dict):
            return None
        if "cv" in n:
            return n["cv"]
        if n.get("k") in ("w", "cast", "defarg"):
            n = n["sub"]
            continue
        return None
    return None


def _is_masked_load(F, a, field, mask):
    """a is  (load of <field> [via a single-def local]) & mask"""
    a = F.strip(a)
    if a is None or a.get("k") != "bin" or a["op"] != "&":
        return False
    for x, m in ((a["lhs"], a["rhs"]), (a["rhs"], a["lhs"])):
        mv = _cv(F, m)
        if mv is None or (mv & 0xFFFFFFFF) != mask:
            continue
        for rt in roots(F, x, F.site_of(a)):
            if rt[0] == "call" and rt[1].endswith("::load"):
                for o in rt[2]:
                    if o[0] == "member" and o[2] == field:
                        return True
    return False


def rule_epoch_source(ctx, rid, reason):
    """the epoch limit handed to clear_buffer()/dispose() is the value m_nCurEpoch had *before* the increment that precedes the phases"""
    n = 0
    for cls in BUFFERED:
        for F in ctx.need(cls + "::synchronize"):
            calls = Q.calls_in(F, r"::(clear_buffer|dispose)$")
            if not calls:
                continue
            ps = PathSim(F, bound=256).run()
            for p in ps:
                if p.outcome != "return":
                    continue
                ev = p.events
                rec = [e for e in ev if e.kind == "call" and e.q and re.search(r"::(clear_buffer|dispose)$", e.q)]
                fa = [e for e in ev if e.kind == "call" and atomic_op(e) == "fetch_add" and sv_field_path(e.obj)[-1:] == ["m_nCurEpoch"]]
                for r in rec:
                    n += 1
                    args = r.args
                    ok = bool(fa) and any(a == fa[0].val for a in args)
                    ctx.check(ok, rid, F, "reclamation is limited to the epoch read by the fetch_add that precedes the grace period", r.node,
                              detail="the limit must be the pre-increment epoch: objects retired during the grace period carry a newer tag and "
                              "must wait for the next one. " + reason, sig="epoch-limit")
                    first_wait = [i for i, e in enumerate(ev) if e.kind == "call" and e.q and re.search(r"::(flip_and_wait|wait_for_quiescent_state)$", e.q)]
                    if fa and first_wait:
                        ctx.check(ev.index(fa[0]) < first_wait[0], rid, F, "the epoch is advanced before the grace period starts", fa[0].node,
                                  sig="epoch-before-phases")
    return n
