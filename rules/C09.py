"""C09 - Stacks (structural clauses: HP guard discipline of TreiberStack, elimination slot protocol, FCStack collision; DESIGN.md §4 C09)."""
import re

from sa import run as _run
from sa import q as Q
from sa.pathsim import PathSim, C, NULL
from sa.q import cond_atoms, path_end, strip_sv, sv_field_path, atomic_op, noepoch, lock_state, sv_mentions
from . import e2, fc

PROPERTY = "C09"
LEVEL = "other"
FILES = r"^%s/cds/(intrusive/(treiber_stack|fcstack)|container/(treiber_stack|fcstack)|algo/elimination\w*)\.h$" % _run.REPO
TUS = {"quick": ["test/unit/stack/intrusive_treiber_stack_hp.cpp", "test/unit/stack/intrusive_treiber_stack_dhp.cpp", "test/unit/stack/fcstack.cpp"],
       "thorough": ["test/unit/stack/*.cpp", "test/stress/stack/*.cpp"]}
EXPLANATION = (
    "TreiberStack (HP and DHP): on every path a top pointer read from the shared atomic is dereferenced (its successor read, CAS-ed out) only "
    "after hazard-pointer protection (protect(), or assign+re-validation). Elimination back-off: the collision slot's record pointer is read and "
    "written only with the slot lock held, the lock is released on every exit; on the active-collision path the value is handed over, the slot "
    "emptied and the partner marked 'collided' (release) in that order, and only a push meets a pop (different operation ids); the passive side "
    "withdraws its record under the lock and reports success exactly when its status became 'collided'. FCStack: collide() completes both "
    "records once and only pairs a push with a pop, handing the pushed value over; the op-codes published by push/pop are executed as push/pop. "
    "Not decided: linearizability.")
ASSUMPTIONS = ["clang CFG (-DNDEBUG)", "necessary conditions only"]
R = "Otherwise a popped node's fields are read after it was freed, or an eliminated item is delivered to two poppers / lost (C09)."
REL = {3, 4, 5}


def r09_1(ctx):
    fs = [f for f in ctx.db.funcs.values() if f.q.startswith("cds::intrusive::TreiberStack::")]
    a, s = e2.rule_guard_discipline(ctx, "R09.1", fs, R)
    if a < 4:
        ctx.broken("only %d TreiberStack HP/DHP members analysed" % a)
    # the protection in pop() is of m_Top itself
    for F in [f for f in fs if f.q.endswith("::pop") and f.gc_kind() in ("HP", "DHP")]:
        pr = Q.calls_in(F, r"::(Guard|GuardArray)::protect$")
        ok = any("m_Top" in F.text(c.get("args", [None])[0] if len(c.get("args", [])) == 2 else c.get("args", [None, None])[1]) for c in pr) if pr else False
        ctx.check(ok, "R09.1", F, "pop() protects the top pointer before using it", pr[0] if pr else None, detail=R, sig="pop-protect-top")
r09_1.rule_id = "R09.1"


def r09_2(ctx):
    fs = [f for f in ctx.db.funcs.values() if re.search(r"treiber_stack::details::elimination_backoff::backoff$", f.q)]
    fs = [f for f in fs if Q.calls_in(f, r"::lock$")]
    if not fs:
        ctx.broken("elimination_backoff<true>::backoff not instantiated")
    for F in fs:
        ps = PathSim(F, bound=2048, watch_reads=("pRec",)).run()
        ctx.paths += len(ps)
        for p in ps:
            if p.outcome != "return":
                continue
            ev = p.events
            held = lock_state(p, lambda o: sv_field_path(o)[-1:] == ["lock"])
            for i, e in enumerate(ev):
                touch = (e.kind == "read" and e.extra == "pRec") or (e.kind == "store" and sv_field_path(e.obj)[-1:] == ["pRec"])
                if touch:
                    ctx.check(held[i] >= 1, "R09.2", F, "the collision slot's record pointer is accessed only under the slot lock", e.node, detail=R, sig="slot-under-lock")
            ctx.check(held[-1] == 0, "R09.2", F, "the slot lock is released on every exit", None, detail="lock depth at return: %d. %s" % (held[-1], R), sig="lock-balanced")
            # active collision: handed over, slot emptied, partner notified, unlocked - in that order
            col = [i for i, e in enumerate(ev) if e.kind == "call" and atomic_op(e) == "store" and sv_field_path(e.obj)[-1:] == ["nStatus"] and i > 2]
            col = [i for i in col if ev[i].args and not sv_mentions(ev[i].obj, ("p", F.params[0]["d"], F.params[0]["n"]))]
            if col:
                i = col[0]
                hand = [j for j, e in enumerate(ev[:i]) if e.kind == "store" and sv_field_path(e.obj)[-1:] == ["pVal"]]
                clr = [j for j, e in enumerate(ev[:i]) if e.kind == "store" and sv_field_path(e.obj)[-1:] == ["pRec"] and e.val == NULL]
                unl = [j for j, e in enumerate(ev) if e.kind == "call" and e.q and e.q.endswith("::unlock") and j > i]
                ok = hand and clr and hand[-1] < clr[-1] < i and unl and held[i] >= 1
                ctx.check(bool(ok), "R09.2", F, "active collision: value handed over, slot emptied, partner marked collided - in that order, under the lock", ev[i].node,
                          detail="hand-over@%s empty@%s notify@%s unlock@%s. %s" % (hand, clr, i, unl[:1], R), sig="collision-order")
                o = ev[i].args[1] if len(ev[i].args) > 1 else None
                ctx.check(o is not None and o[0] == "c" and o[1] in REL, "R09.2", F, "the partner is released with a release store (it then reads the value)", ev[i].node, sig="notify-release")
                diff = False
                for atom, tv, bev in cond_atoms(p):
                    if isinstance(atom, tuple) and atom[0] == "op" and atom[1] == "==" and not tv and "idOp" in repr(atom):
                        diff = True
                ctx.check(diff, "R09.2", F, "only operations of different kinds (a push and a pop) eliminate each other", ev[i].node, detail=R, sig="push-meets-pop")
                ctx.check(p.ret == C(1), "R09.2", F, "the active side reports the collision", None, sig="active-ret")
            else:
                # passive side: result is 'status == collided'
                lds = [e for e in ev if e.kind == "call" and atomic_op(e) == "load" and sv_field_path(e.obj)[-1:] == ["nStatus"]]
                ok = bool(lds) and isinstance(p.ret, tuple) and p.ret[0] == "op" and p.ret[1] in ("==", "!=") and lds[-1].val in (p.ret[2], p.ret[3])
                ctx.check(ok, "R09.2", F, "the passive side's result is decided by its own status word read after the wait", None, detail="returns %r" % (p.ret,), sig="passive-ret")
                wd = [e for e in ev if e.kind == "store" and sv_field_path(e.obj)[-1:] == ["pRec"] and e.val == NULL]
                reg = [e for e in ev if e.kind == "store" and sv_field_path(e.obj)[-1:] == ["pRec"] and e.val != NULL]
                ctx.check(bool(reg), "R09.2", F, "the passive side publishes its record in the slot", None, sig="passive-register")
                if reg and ok:
                    # the deciding status read happens only once the record can no longer be matched: after the withdraw section
                    # (a locked re-inspection of slot.pRec that follows the publication)
                    ri = ev.index(reg[0])
                    di = ev.index(lds[-1])
                    wd2 = [j for j in range(ri + 1, di) if ev[j].kind == "read" and ev[j].extra == "pRec" and held[j] >= 1]
                    ctx.check(bool(wd2), "R09.2", F, "the passive side decides 'collided or not' only after it re-inspected (withdrew) its slot entry under the slot lock",
                              lds[-1].node, detail="while the record is still published a partner can collide with it after the status was read: the value is then "
                              "delivered twice or lost. " + R, sig="passive-decide-after-withdraw")
r09_2.rule_id = "R09.2"


def collide_rule(ctx, rid, F, pushre, popre, apply_F):
    table = fc.opcode_table(ctx, apply_F, r"::(push|pop|push_back|pop_front|push_front|pop_back|top|front|empty)$")
    kinds = {}
    for op, ms in table.items():
        if ms & {"push", "push_back", "push_front"}:
            kinds[op] = "push"
        elif ms & {"pop", "pop_front", "pop_back"}:
            kinds[op] = "pop"
    n = 0
    for p in PathSim(F, bound=512).run():
        if p.outcome != "return":
            continue
        ev = p.events
        done = [e for e in ev if e.kind == "call" and e.q and e.q.endswith("::operation_done")]
        params = [("p", pr["d"], pr["n"]) for pr in F.params]
        fwd = [e for e in ev if e.kind == "call" and e.q and e.q.endswith("::collide")]
        if fwd:
            ctx.check(tuple(fwd[0].args) == (params[1], params[0]) and p.ret == fwd[0].val, rid, F, "a (pop, push) pair is retried as (push, pop)", fwd[0].node, sig="swap-retry")
            continue
        n += 1
        if p.ret == C(1):
            ok = len(done) == 2 and {done[0].args[0], done[1].args[0]} == set(params)
            ctx.check(ok, rid, F, "a collision completes both records exactly once", done[0].node if done else None, detail=R, sig="done-both")
            # op codes on the path
            ops = {}
            opcalls = {e.val: strip_sv(e.obj) for e in ev if e.kind == "call" and e.q and e.q.endswith("publication_record::op")}
            for e in ev:
                if e.kind == "branch" and isinstance(e.extra, tuple) and e.extra[0] == "switch" and e.val in opcalls and e.extra[1] != "default":
                    ops[opcalls[e.val]] = e.extra[1]
            for atom, tv, bev in cond_atoms(p):
                if isinstance(atom, tuple) and atom[0] == "op" and atom[1] == "==" and tv:
                    for a, b in ((atom[2], atom[3]), (atom[3], atom[2])):
                        if a in opcalls and isinstance(b, tuple) and b[0] == "c":
                            ops[opcalls[a]] = b[1]
            k1, k2 = kinds.get(ops.get(params[0])), kinds.get(ops.get(params[1]))
            ctx.check(k1 == "push" and k2 == "pop", rid, F, "only a push record collides with a pop record", None,
                      detail="op-codes on the path: %s -> kinds %s/%s. %s" % (ops, k1, k2, R), sig="push-pop")
            flow = any(e.kind in ("store", "call") and e.obj is not None and sv_mentions(e.obj, params[1]) and
                       ((e.kind == "store" and e.val is not None and sv_mentions(e.val, params[0])) or
                        (e.kind == "call" and e.args and sv_mentions(e.args[0], params[0]))) for e in ev)
            ctx.check(flow, rid, F, "the pushed value is handed to the popper", None, sig="value-flow")
            # the popper's record is marked 'got a value': records are reused, a stale bEmpty = true from the owner's previous (failed) pop would
            # make this pop report failure although it consumed the value
            be = [e for e in ev if e.kind == "store" and sv_field_path(e.obj)[-1:] == ["bEmpty"]]
            okb = any(strip_sv(e.obj) == params[1] and e.val == C(0) for e in be) and not any(strip_sv(e.obj) == params[0] for e in be)
            ctx.check(okb, rid, F, "a collision marks the popper's record as successful (bEmpty = false on the pop record)", be[0].node if be else None,
                      detail="bEmpty stores on this path: %s. %s" % ([(strip_sv(e.obj)[-1] if isinstance(strip_sv(e.obj), tuple) else strip_sv(e.obj), e.val) for e in be], R), sig="pop-marked")
        else:
            ctx.check(not done, rid, F, "a refused collision leaves both records pending", done[0].node if done else None, detail=R, sig="no-done-on-false")
    return n


def r09_3(ctx):
    for F in ctx.need("cds::container::FCStack::collide"):
        ap = [g for g in ctx.need("cds::container::FCStack::fc_apply") if g.ct == F.ct]
        if ap:
            collide_rule(ctx, "R09.3", F, "push", "pop", ap[0])
    for F in ctx.need("cds::container::FCStack::fc_process"):
        for p in PathSim(F, bound=1024).run():
            cols = [e for e in p.events if e.kind == "call" and e.q and e.q.endswith("::collide")]
            ctx.check(len(cols) <= 1, "R09.3", F, "at most one collision attempt per record", cols[0].node if cols else None, sig="one-collision")
    # API agreement
    n = 0
    for name in ("push", "pop"):
        for F in ctx.db.find(q="cds::container::FCStack::" + name):
            ap = [g for g in ctx.need("cds::container::FCStack::fc_apply") if g.ct == F.ct]
            if not ap:
                continue
            table = fc.opcode_table(ctx, ap[0], r"::(push|pop|top|empty)$")
            for c in Q.calls_in(F, r"::(combine|batch_combine)$"):
                a = c.get("args", [])
                op = None
                x = F.deref(a[0]) if a else None
                for _ in range(6):
                    if x is None:
                        break
                    if "cv" in x:
                        op = x["cv"]
                        break
                    if x.get("k") in ("cast", "w"):
                        x = F.deref(x["sub"])
                    else:
                        break
                n += 1
                ctx.check(op in table and name in table[op], "R09.3", F, "FCStack::%s publishes an op-code that fc_apply executes as %s" % (name, name), c,
                          detail="op-code %s -> %s" % (op, sorted(table.get(op, []))), sig="api-op:%s" % name)
    if n < 2:
        ctx.broken("FCStack push/pop not instantiated")
r09_3.rule_id = "R09.3"


RULES = [r09_1, r09_2, r09_3]
FLOORS = {"R09.1": 4, "R09.2": 10, "R09.3": 6}
