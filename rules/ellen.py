"""EllenBinTree rules shared by C15 / C18."""
import re

from sa import q as Q
from sa.cfg import PathBoundExceeded
from sa.pathsim import PathSim
from sa.q import atomic_op, noepoch, sv_field_path


def rule_publish_init_agreement(ctx, rid, reason):
    """try_insert() fills in the internal node it was handed (the caller allocates it once and re-uses it across retries) and publishes it by
    the IFlag CAS on the parent's update word.  Sibling-path agreement: a setter that one publishing path applies to that node - infinite_key(),
    the child links - is applied on every publishing path; a path that skips one publishes whatever an earlier, failed attempt left there."""
    n = 0
    for F in ctx.db.funcs.values():
        if not re.match(r"cds::intrusive::EllenBinTree::try_insert$", F.q):
            continue
        node = [pr for pr in F.params if re.search(r"internal_node", pr.get("t") or "")]
        if not node:
            continue
        pn = ("p", node[0]["d"], node[0]["n"])
        try:
            ps = PathSim(F, bound=4000).run()
        except PathBoundExceeded:
            ctx.broken("path bound exceeded in %s" % F.q)
            continue
        pub = []
        for p in ps:
            ev = p.events
            cas = [i for i, e in enumerate(ev) if e.kind == "call" and (atomic_op(e) or "").startswith("compare_exchange")
                   and sv_field_path(e.obj)[-1:] == ["m_pUpdate"]]
            if not cas:
                continue
            w = {}
            for e in ev[:cas[0]]:
                if e.kind != "call" or not e.q:
                    continue
                op = atomic_op(e)
                if op and op != "load" and isinstance(e.obj, tuple) and noepoch(e.obj)[:1] == ("fld",) and noepoch(noepoch(e.obj)[1]) in (pn, ("deref", pn)):
                    w.setdefault("%s.%s" % (sv_field_path(e.obj)[-1], op), e)
                elif e.obj is not None and noepoch(e.obj) in (pn, ("deref", pn)) and e.args and not op:
                    w.setdefault(e.q.split("::")[-1] + "()", e)
            pub.append((p, w, ev[cas[0]]))
        if not pub:
            continue
        allw = {}
        for p, w, c in pub:
            for k, e in w.items():
                allw.setdefault(k, e)
        for p, w, c in pub:
            n += 1
            missing = sorted(k for k in allw if k not in w)
            ctx.check(not missing, rid, F, "every path that publishes the new internal node applies the same setters to it", c.node,
                      detail="this path reaches the publishing CAS without %s, which other publishing paths apply (e.g. line %s): the node is handed in by the caller "
                      "and re-used across retries, so it keeps what a failed earlier attempt wrote (a stale infinite-key flag makes the routing node compare "
                      "greater than every key). %s" % (missing, allw[missing[0]].node.get("l") if missing and allw[missing[0]].node else "?", reason),
                      sig="publish-init:" + ",".join(missing))
    return n
