"""C14 - Hash sets and maps (structural clauses: split-list bucket initialisation / routing / growth, bucket-table reader/writer agreement,
MichaelHashSet routing, HP guard discipline, RCU lock discipline; DESIGN.md §4 C14).  Linearizability is NOT decided."""
import json
import os
import re

from sa import run as _run
from sa import q as Q
from sa.cfg import cfg_of, PathBoundExceeded
from sa.pathsim import PathSim, C, NULL
from sa.q import cond_atoms, strip_sv, sv_field_path, atomic_op, noepoch, sv_affine
from . import e2, e3
from .C13 import contract

PROPERTY = "C14"
LEVEL = "other"
FILES = (r"^%s/cds/(intrusive/(split_list\w*|michael_set\w*|details/(split_list_base|michael_set_base|feldman_hashset_base)|impl/feldman_hashset|feldman_hashset_rcu)\.h|"
         r"container/(split_list_(set|map)\w*|michael_(set|map)\w*)\.h|urcu/)" % _run.REPO)
NEED_BELIEF = True
TUS = {"quick": ["test/unit/intrusive-set/intrusive_split_michael_hp.cpp", "test/unit/intrusive-set/intrusive_split_lazy_rcu_gpb.cpp",
                 "test/unit/intrusive-set/intrusive_split_michael_nogc.cpp", "test/unit/intrusive-set/intrusive_michael_michael_dhp.cpp",
                 "test/unit/intrusive-set/intrusive_feldman_hashset_hp.cpp", "test/unit/intrusive-set/intrusive_feldman_hashset_rcu_gpb.cpp",
                 "test/unit/intrusive-set/intrusive_split_iterable_hp.cpp", "test/unit/intrusive-set/intrusive_michael_lazy_rcu_gpb.cpp"],
       "thorough": ["test/unit/intrusive-set/intrusive_split_*.cpp", "test/unit/intrusive-set/intrusive_michael_*.cpp",
                    "test/unit/intrusive-set/intrusive_feldman_hashset_*.cpp", "test/unit/set/split_*.cpp", "test/unit/set/michael_*.cpp",
                    "test/unit/map/split_*.cpp", "test/unit/map/michael_*.cpp"]}
BELIEF_TUS = {"quick": ["test/unit/intrusive-set/intrusive_split_lazy_rcu_gpb.cpp", "test/unit/intrusive-set/intrusive_feldman_hashset_rcu_gpb.cpp",
                        "test/unit/intrusive-set/intrusive_michael_lazy_rcu_gpb.cpp"],
              "thorough": ["test/unit/intrusive-set/intrusive_split_*rcu*.cpp", "test/unit/intrusive-set/intrusive_michael_*rcu*.cpp",
                           "test/unit/intrusive-set/intrusive_feldman_hashset_*rcu*.cpp", "test/unit/set/split_*rcu*.cpp", "test/unit/set/michael_*rcu*.cpp",
                           "test/unit/map/split_*rcu*.cpp", "test/unit/map/michael_*rcu*.cpp"]}
EXPLANATION = (
    "Structural clauses only. SplitListSet (HP/DHP, RCU, nogc implementations): init_bucket publishes a bucket only after the dummy node built from "
    "dummy_hash(bucket) was inserted behind the (initialised, non-null) parent bucket of parent_bucket(bucket), frees the dummy only when the insertion "
    "lost, and returns a non-null bucket; get_bucket addresses bucket_no(hash) and initialises the same index; every operation derives the "
    "bucket, the split-order key of the searched/inserted value and the list position from one hash value of its own key; the bucket count "
    "grows by exactly one bit through a CAS from the value read, only below capacity, together with the item limit. Bucket tables: reader and "
    "writer of a bucket slot use the same segment/offset arithmetic. MichaelHashSet: every operation is routed to bucket(hash(key)) of its own "
    "key and the bucket array has mask+1 entries. HP/DHP: guard typestate (E2); RCU: read-lock discipline from the code's is_locked() asserts "
    "(E3). NOT decided: linearizability, absence of duplicates under races, Feldman expansion under interleavings (addressing: C28).")
ASSUMPTIONS = ["clang CFG (-DNDEBUG); asserts harvested from a second parse with -UNDEBUG", "rules/rcu_contract.json is the reviewed reference of "
               "members whose callers must hold the RCU lock", "necessary conditions only"]
R = "Otherwise a key is searched in (or linked into) the wrong bucket, a bucket head is published before it is reachable, or a node is touched after reclamation (C14)."

SL = r"cds::intrusive::SplitListSet::"


def _has(sv, pred):
    if pred(sv):
        return True
    if isinstance(sv, (tuple, frozenset)):
        return any(_has(x, pred) for x in sv if isinstance(x, (tuple, frozenset)))
    return False


def _is_call(sv, suffix):
    return isinstance(sv, tuple) and len(sv) >= 2 and sv[0] == "call" and isinstance(sv[1], str) and sv[1].endswith(suffix)


def _truth(p, sv):
    """truth on the path of 'sv is non-null / true' (last decision wins)"""
    res = None
    for atom, tv, bev in cond_atoms(p):
        if atom == sv:
            res = tv
    return res


def _param(F, name):
    for pr in F.params:
        if pr["n"] == name:
            return ("p", pr["d"], pr["n"])
    return None


def r14_1(ctx):
    """init_bucket"""
    n = 0
    for F in ctx.db.find(q="cds::intrusive::SplitListSet::init_bucket"):
        nB = ("p", F.params[0]["d"], F.params[0]["n"])
        for p in PathSim(F, bound=4000).run():
            ev = p.events
            calls = [(i, e) for i, e in enumerate(ev) if e.kind == "call" and e.q]
            par = [e for i, e in calls if e.q.endswith("::parent_bucket") and e.args and e.args[0] == nB]
            parents = set()
            for i, e in calls:
                if re.search(r"bucket_table::bucket$", e.q) and len(e.args) == 1 and par and e.args[0] == par[0].val and _truth(p, e.val) is True:
                    parents.add(e.val)
                if e.q.endswith("::init_bucket") and par and e.args and e.args[0] == par[0].val:
                    parents.add(e.val)
            allocs = {e.val: e for i, e in calls if e.q.endswith("::alloc_aux_node")}
            for i, e in calls:
                if e.q.endswith("::insert_aux_node"):
                    n += 1
                    ctx.check(len(e.args) == 2 and e.args[0] in parents, "R14.1", F, "the dummy node is inserted behind the initialised parent bucket of parent_bucket(bucket)",
                              e.node, detail=R, sig="insert-behind-parent")
                    a = allocs.get(e.args[-1])
                    okh = a is not None and a.args and any(x.kind == "call" and x.val == a.args[0] and x.q and x.q.endswith("::dummy_hash") and x.args and x.args[0] == nB for x in ev)
                    ctx.check(bool(okh), "R14.1", F, "the inserted dummy node carries dummy_hash(bucket)", e.node, detail=R, sig="dummy-hash")
                if re.search(r"bucket_table::bucket$", e.q) and len(e.args) == 2:
                    n += 1
                    ins = [x for j, x in calls if j < i and x.q.endswith("::insert_aux_node") and x.args and x.args[-1] == e.args[1]]
                    ctx.check(e.args[0] == nB and bool(ins) and _truth(p, ins[-1].val) is True, "R14.1", F,
                              "a bucket head is published (for this bucket index) only after its dummy node was inserted into the list", e.node, detail=R, sig="publish-after-insert")
                if e.q.endswith("::free_aux_node"):
                    n += 1
                    ins = [x for j, x in calls if j < i and x.q.endswith("::insert_aux_node") and x.args and x.args[-1] == e.args[0]]
                    pub = [x for j, x in calls if j < i and re.search(r"bucket_table::bucket$", x.q) and len(x.args) == 2 and x.args[1] == e.args[0]]
                    ctx.check(bool(ins) and _truth(p, ins[-1].val) is False and not pub, "R14.1", F, "a dummy node is freed only when its insertion lost the race (never after publication)",
                              e.node, detail=R, sig="free-on-loss")
            if p.outcome == "return":
                n += 1
                r = p.ret
                if r in allocs:
                    # an own dummy node may be returned only when this thread inserted and published it (never after it was freed)
                    pub = [x for j, x in calls if re.search(r"bucket_table::bucket$", x.q) and len(x.args) == 2 and x.args[1] == r]
                    fr = [x for j, x in calls if x.q.endswith("::free_aux_node") and x.args and x.args[0] == r]
                    ok = bool(pub) and not fr
                else:
                    # otherwise the value must have been read from the bucket table for this bucket and found non-null (also through a loop variable)
                    getters = [x for j, x in calls if re.search(r"bucket_table::bucket$", x.q) and len(x.args) == 1 and x.args[0] == nB]
                    ok = r != NULL and _truth(p, r) is True and (any(x.val == r for x in getters) or (isinstance(r, tuple) and r[:1] == ("phi",)))
                ctx.check(ok, "R14.1", F, "init_bucket returns the published bucket head (its own dummy only when it inserted and published it, never a freed one)", None,
                          detail="returns %r. %s" % (r, R), sig="returns-bucket")
    if n < 20:
        ctx.broken("init_bucket sites not found (%d)" % n)
r14_1.rule_id = "R14.1"


def r14_2(ctx):
    """get_bucket + operation routing"""
    n = 0
    for F in ctx.db.find(q="cds::intrusive::SplitListSet::get_bucket"):
        h = ("p", F.params[0]["d"], F.params[0]["n"])
        for p in PathSim(F, bound=256).run():
            ev = p.events
            bn = [e for e in ev if e.kind == "call" and e.q and e.q.endswith("::bucket_no") and e.args and e.args[0] == h]
            for e in ev:
                if e.kind == "call" and e.q and (re.search(r"bucket_table::bucket$", e.q) or e.q.endswith("::init_bucket")):
                    n += 1
                    ctx.check(bool(bn) and e.args and e.args[0] == bn[0].val, "R14.2", F, "get_bucket reads / initialises the bucket bucket_no(hash)", e.node, detail=R, sig="bucket-index")
            if p.outcome == "return":
                r = p.ret
                ok = (_is_call(r, "::init_bucket")) or (_is_call(r, "bucket_table::bucket") and _truth(p, r) is True)
                ctx.check(ok, "R14.2", F, "get_bucket returns the initialised bucket", None, sig="returns-bucket")
    LISTOP = re.compile(r"ordered_list_wrapper::(\w+_at|insert_aux_node)$|(MichaelList|LazyList|IterableList)::(\w+_at)$")
    for F in ctx.db.funcs.values():
        if not F.q.startswith(SL) or not Q.calls_in(F, r"SplitListSet::get_bucket$"):
            continue
        if F.q.split("::")[-1] in ("get_bucket",):
            continue
        try:
            ps = PathSim(F, bound=2000).run()
        except PathBoundExceeded:
            continue
        for p in ps:
            ev = p.events
            hv = [e for e in ev if e.kind == "call" and e.q and e.q.endswith("::hash_value")]
            gb = [e for e in ev if e.kind == "call" and e.q and e.q.endswith("::get_bucket")]
            if not gb:
                continue
            n += 1
            ctx.check(len(hv) == 1 and all(g.args and g.args[0] == hv[0].val for g in gb), "R14.2", F,
                      "the bucket is looked up with the hash of the operation's own key (computed once)", gb[0].node, detail=R, sig="route-by-own-hash")
            if not hv:
                continue
            rh = [e for e in ev if e.kind == "call" and e.q and e.q.endswith("::regular_hash")]
            ctx.check(all(e.args and e.args[0] == hv[0].val for e in rh), "R14.2", F,
                      "the split-order key of the searched / inserted value is regular_hash of the same hash", rh[0].node if rh else gb[0].node, detail=R, sig="key-from-same-hash")
            for e in ev:
                if e.kind == "call" and e.q and LISTOP.search(e.q) and e.args:
                    n += 1
                    ctx.check(e.args[0] == gb[-1].val, "R14.2", F, "the list operation starts at the bucket head returned by get_bucket", e.node, detail=R, sig="start-at-bucket")
    if n < 30:
        ctx.broken("split-list routing sites not found (%d)" % n)
r14_2.rule_id = "R14.2"


def r14_3(ctx):
    """bucket count growth"""
    n = 0
    for F in ctx.db.find(q="cds::intrusive::SplitListSet::inc_item_count"):
        for p in PathSim(F, bound=512).run():
            ev = p.events
            for i, e in enumerate(ev):
                op = atomic_op(e)
                if e.kind == "call" and op and op != "load" and e.obj is not None and sv_field_path(e.obj)[-1:] == ["m_nBucketCountLog2"]:
                    n += 1
                    ok = op.startswith("compare_exchange") and len(e.args) >= 2
                    if ok:
                        exp, new = e.args[0], e.args[1]
                        ld = [x for x in ev[:i] if x.kind == "call" and atomic_op(x) == "load" and x.val == exp and sv_field_path(x.obj)[-1:] == ["m_nBucketCountLog2"]]
                        d = Q.aff_sub(sv_affine(new), sv_affine(exp))
                        ok = bool(ld) and d == {1: 1}
                    ctx.check(bool(ok), "R14.3", F, "the bucket-count exponent grows by exactly one through a CAS from the value read", e.node, detail=R, sig="log2-plus-one")
                    cap = None
                    for atom, tv, bev in cond_atoms(p):
                        if isinstance(atom, tuple) and atom[:1] == ("op",) and atom[1] in ("<", "<=", ">", ">=") and _has(atom, lambda s: _is_call(s, "::capacity")):
                            cap = (atom[1], tv, _is_call(atom[3], "::capacity") or _has(atom[3], lambda s: _is_call(s, "::capacity")))
                    okc = cap is not None and ((cap[0] == "<" and cap[1] and cap[2]) or (cap[0] == ">=" and not cap[1] and cap[2]) or
                                               (cap[0] == ">" and cap[1] and not cap[2]) or (cap[0] == "<=" and not cap[1] and not cap[2]))
                    ctx.check(bool(okc), "R14.3", F, "the table grows only while the bucket count is below the table capacity", e.node,
                              detail="otherwise bucket_no() addresses buckets beyond the table. " + R, sig="grow-below-capacity")
    if n < 1:
        ctx.broken("no write to m_nBucketCountLog2 found in inc_item_count")
    # nobody else writes the exponent (constructors aside)
    for F in ctx.db.funcs.values():
        if F.q.startswith(SL) and F.kind != "ctor" and not F.q.endswith("::inc_item_count"):
            for c in Q.calls_in(F, r"std::(atomic|__atomic_base)::(store|exchange|compare_exchange_\w+|fetch_\w+)$"):
                o = F.deref(c.get("obj")) if c.get("obj") else None
                if o is not None and "m_nBucketCountLog2" in F.text(o):
                    ctx.bad("R14.3", F, "the bucket-count exponent is written outside inc_item_count()", c, detail=R, sig="foreign-log2-writer")
r14_3.rule_id = "R14.3"


def r14_4(ctx):
    """bucket tables: reader / writer addressing agreement"""
    n = 0
    for cls in ("expandable_bucket_table", "static_bucket_table"):
        fs = [f for f in ctx.db.funcs.values() if f.q == "cds::intrusive::split_list::%s::bucket" % cls]
        by_ct = {}
        for f in fs:
            by_ct.setdefault(f.ct, []).append(f)
        for ct, group in by_ct.items():
            rd = [f for f in group if len(f.params) == 1]
            wr = [f for f in group if len(f.params) == 2]
            if not rd or not wr:
                continue

            def slots(F):
                """set of (normalised location of the atomic slot accessed) over all paths, with the index parameter renamed"""
                res = set()
                idx = ("p", F.params[0]["d"], F.params[0]["n"])

                def canon(sv, loads, d=0):
                    if sv == idx:
                        return ("IDX",)
                    if d > 12 or not isinstance(sv, tuple):
                        return sv
                    if sv in loads:
                        return ("content", canon(loads[sv], loads, d + 1))
                    return tuple(canon(x, loads, d + 1) if isinstance(x, tuple) else x for x in noepoch(sv))
                for p in PathSim(F, bound=512).run():
                    loads = {e.val: e.obj for e in p.events if e.kind == "call" and atomic_op(e) == "load" and e.obj is not None}
                    for e in p.events:
                        op = atomic_op(e)
                        if e.kind == "call" and op is not None and (op in ("load", "store", "exchange") or op.startswith("compare_exchange")):
                            if e.obj is not None and _has(e.obj, lambda s: s == idx):
                                res.add((("w" if op != "load" else "r"), canon(e.obj, loads)))
                return res
            R_ = slots(rd[0])
            W_ = slots(wr[0])
            rlocs = {l for k, l in R_ if k == "r"}
            wlocs = {l for k, l in W_ if k == "w"}
            n += 1
            ctx.check(bool(rlocs) and bool(wlocs) and wlocs <= rlocs, "R14.4", wr[0],
                      "%s: the slot written for bucket n is a slot the reader consults for bucket n (same segment / offset arithmetic)" % cls, None,
                      detail="reader slots %d, writer slots %d. %s" % (len(rlocs), len(wlocs), R), sig="rw-agree:%s" % cls)
    if n < 1:
        ctx.broken("no bucket table reader/writer pair found")
r14_4.rule_id = "R14.4"


def r14_5(ctx):
    """MichaelHashSet routing"""
    n = 0
    MH = re.compile(r"cds::(intrusive|container)::MichaelHash(Set|Map)::")
    for F in ctx.db.funcs.values():
        if not MH.match(F.q):
            continue
        name = F.q.split("::")[-1]
        if name == "hash_value":
            for p in PathSim(F, bound=64).run():
                if p.outcome == "return":
                    n += 1
                    r = p.ret
                    while isinstance(r, tuple) and r[:1] == ("cast",):
                        r = r[-1]
                    ok = isinstance(r, tuple) and r[:2] == ("op", "&") and any(sv_field_path(x)[-1:] == ["m_nHashBitmask"] for x in r[2:4]) and \
                        any(_has(x, lambda s: isinstance(s, tuple) and s[:1] == ("p",)) or _is_call(x, "operator()") for x in r[2:4])
                    if not ok:
                        ctx.info.setdefault("dbg", []).append(repr(p.ret)[:300])
                    ctx.check(ok, "R14.5", F, "the bucket index is hash(key) & bitmask", None, detail=R, sig="hash-and-mask")
        if name == "bucket" and len(F.params) == 1:
            for p in PathSim(F, bound=64).run():
                if p.outcome == "return":
                    n += 1
                    hv = [e for e in p.events if e.kind == "call" and e.q and e.q.endswith("::hash_value") and e.args and e.args[0] == ("p", F.params[0]["d"], F.params[0]["n"])]
                    ok = bool(hv) and _has(p.ret, lambda s: s == hv[0].val) and _has(p.ret, lambda s: sv_field_path(s)[-1:] == ["m_Buckets"] if isinstance(s, tuple) and s[:1] == ("fld",) else False)
                    ctx.check(ok, "R14.5", F, "bucket(key) is m_Buckets[hash_value(key)]", None, detail=R, sig="bucket-of-key")
    if n < 4:
        ctx.broken("MichaelHashSet bucket()/hash_value() not found (%d)" % n)
    # every operation that touches a bucket list touches the bucket of its own key
    m = 0
    for F in ctx.db.funcs.values():
        if not MH.match(F.q) or F.kind in ("ctor", "dtor"):
            continue
        bc = Q.calls_in(F, r"MichaelHash(Set|Map)::bucket$")
        if not bc:
            continue
        keyp = [("p", pr["d"], pr["n"]) for pr in F.params]
        try:
            ps = PathSim(F, bound=1000).run()
        except PathBoundExceeded:
            continue
        for p in ps:
            for e in p.events:
                if e.kind == "call" and e.q and re.search(r"MichaelHash(Set|Map)::bucket$", e.q) and len(e.args) == 1:
                    m += 1
                    # emplace: the key lives in the node / data object just built from the arguments
                    built = [x.val for x in p.events if x.kind == "call" and x.q and re.search(r"::alloc_(node|data)$", x.q)]
                    callmap = {x.val: x for x in p.events if x.kind == "call"}

                    def derives(v, keys, d=0):
                        if any(_has(v, lambda s, k=k: s == k) for k in keys):
                            return True
                        if d < 5 and v in callmap:
                            x = callmap[v]
                            return any(derives(a, keys, d + 1) for a in list(x.args) + ([x.obj] if x.obj is not None else []))
                        return False
                    own = derives(e.args[0], keyp + built)
                    ctx.check(own, "R14.5", F, "an operation works on the bucket of its own key", e.node, detail=R, sig="own-bucket")
                    if built and not derives(e.args[0], keyp):
                        ins = [x for x in p.events if x.kind == "call" and x.q and x.q.endswith("::insert_node")]
                        ctx.check(bool(ins) and all(x.args and x.args[0] in built for x in ins), "R14.5", F, "emplace inserts the node whose key selected the bucket", e.node, detail=R, sig="emplace-same-node")
    if m < 10:
        ctx.broken("MichaelHashSet operations routed through bucket(key) not found (%d)" % m)
r14_5.rule_id = "R14.5"


def _sets(ctx):
    return [f for f in ctx.db.funcs.values() if re.match(r"cds::(intrusive|container)::(SplitList(Set|Map)|MichaelHash(Set|Map)|FeldmanHash(Set|Map))::", f.q)
            or re.match(r"cds::intrusive::(split_list|feldman_hashset|michael_set)::", f.q)]


def exempt_bucket_table(F, e, ld):
    """bucket-table segments and aux-node segments of a split list are freed only at tear-down (premise checked below): no guard needed"""
    return re.search(r"split_list::(expandable|static)_bucket_table::", F.q) is not None


def r14_6(ctx):
    a, s = e2.rule_guard_discipline(ctx, "R14.6", _sets(ctx), R, exempt=exempt_bucket_table)
    if a < 20:
        ctx.broken("only %d HP/DHP hash-set members analysed for guard discipline" % a)
    bt = [f for f in ctx.db.funcs.values() if re.search(r"split_list::(expandable|static)_bucket_table::", f.q)]
    n = e2.rule_free_only_unpublished(ctx, "R14.6", bt, r"::(destroy_segment|destroy_table|free_aux_segment|free_segment)$",
                                      r"::(allocate_segment|allocate_table|allocate_aux_segment)$", ("~expandable_bucket_table", "~static_bucket_table"),
                                      "split-list bucket-table segments", R)
    if n < 3:
        ctx.broken("bucket-table segment release sites not found (%d)" % n)
r14_6.rule_id = "R14.6"


def r14_7(ctx):
    n, s, derived = e3.rule_rcu_discipline(ctx, "R14.7", _sets(ctx), R, contract=contract())
    if n < 100:
        ctx.broken("only %d RCU hash-set members analysed" % n)
r14_7.rule_id = "R14.7"


def r14_8(ctx):
    """Feldman set: an operation never reports a result straight after its slot CAS failed - the slot changed under it, so it re-traverses
    (idiom confirmed on every slot-CAS site of the HP and RCU implementations: insert, do_erase, do_erase_at, do_update, extract paths)"""
    n = 0
    for F in ctx.db.funcs.values():
        if not re.match(r"cds::intrusive::FeldmanHashSet::", F.q) or F.kind in ("ctor", "dtor"):
            continue
        if not any((c.get("q") or "").endswith("compare_exchange_strong") or (c.get("q") or "").endswith("compare_exchange_weak") for c in Q.calls_in(F, r"compare_exchange_\w+$")):
            continue
        try:
            ps = PathSim(F, bound=6000).run()
        except PathBoundExceeded:
            continue
        for p in ps:
            if p.outcome != "return":
                continue
            cas = [e for e in p.events if e.kind == "call" and (atomic_op(e) or "").startswith("compare_exchange") and e.obj is not None and "nodes" in sv_field_path(e.obj)]
            if not cas:
                continue
            n += 1
            w = _truth(p, cas[-1].val)
            ctx.check(w is True, "R14.8", F, "a result is reported only when the operation's last slot CAS succeeded (a failed CAS leads back to the traversal)", cas[-1].node,
                      detail="the slot was changed by another thread between the observation and the CAS; a result derived from the stale observation (e.g. 'not found' "
                      "while a concurrent update replaced the item by one with the same key) has no linearization point. " + R, sig="retry-after-failed-cas")
    if n < 6:
        ctx.broken("Feldman slot CAS sites on returning paths not found (%d)" % n)
r14_8.rule_id = "R14.8"


def r14_9(ctx):
    """MichaelHashSet / MichaelHashMap: a keyed operation decides its result by consulting the key's bucket - every return path calls a member
    of the list returned by bucket( key ) (or delegates to another keyed member).  A result taken from anything else (e.g. the item counter,
    which is updated after the list and lags it) is not a result about the key."""
    from sa.q import sv_mentions
    KEYED = r"(find|find_with|contains|get|get_with|insert|update|upsert|ensure|emplace|erase|erase_with|unlink|extract|extract_with)$"
    n = 0
    memo = {}

    def consults(G, depth=0):
        """G is a member of the hash set that (transitively, through other members) uses bucket()"""
        if G is None or not re.match(r"cds::(intrusive|container)::MichaelHash(Set|Map)::", G.q) or depth > 4:
            return False
        if G.m in memo:
            return memo[G.m]
        memo[G.m] = False
        r = bool(Q.calls_in(G, r"MichaelHash(Set|Map)::bucket$"))
        if not r:
            for c in Q.calls_in(G, r"MichaelHash(Set|Map)::"):
                if consults(ctx.db.get(c.get("m")), depth + 1):
                    r = True
                    break
        memo[G.m] = r
        return r
    for F in ctx.db.funcs.values():
        m = re.match(r"cds::(intrusive|container)::MichaelHash(Set|Map)::" + KEYED, F.q)
        if not m or not F.params:
            continue
        try:
            ps = PathSim(F, bound=2000).run()
        except PathBoundExceeded:
            continue
        for p in ps:
            if p.outcome != "return":
                continue
            ev = p.events
            bvals = [noepoch(e.val) for e in ev if e.kind == "call" and e.q and re.search(r"MichaelHash(Set|Map)::bucket$", e.q)]
            used = any(e.kind == "call" and e.obj is not None and any(sv_mentions(noepoch(e.obj), b) or noepoch(e.obj) == b for b in bvals) for e in ev)
            deleg = any(e.kind == "call" and e.node is not None and consults(ctx.db.get(e.node.get("m"))) for e in ev)
            n += 1
            ctx.check(used or deleg, "R14.9", F, "a keyed MichaelHashSet operation returns only after consulting the key's bucket", None,
                      detail="this path returns %r without calling a member of bucket( key ): the result does not depend on whether the key is in the set (a shortcut on "
                      "size() / the item counter is wrong whenever the counter lags the bucket lists - insert links the node first and counts afterwards). %s"
                      % (p.ret, R), sig="result-from-bucket")
    if n < 20:
        ctx.broken("MichaelHashSet keyed operations not found (%d return paths)" % n)
r14_9.rule_id = "R14.9"


RULES = [r14_1, r14_2, r14_3, r14_4, r14_5, r14_6, r14_7, r14_8, r14_9]
FLOORS = {"R14.1": 20, "R14.2": 30, "R14.3": 2, "R14.4": 1, "R14.5": 14, "R14.6": 20, "R14.7": 100, "R14.8": 6, "R14.9": 20}
