"""E3 - RCU read-side discipline (all RCU instantiations).  Beliefs stated by the code (assert(gc::is_locked()) / assert(!gc::is_locked()),
harvested from a second parse with -UNDEBUG) are propagated over call sites; lock scopes are the lifetimes of rcu_lock objects."""
import re

from sa import q as Q
from sa.cfg import cfg_of, PathBoundExceeded
from sa.pathsim import PathSim
from sa.q import strip_sv, atomic_op, cond_atoms

RCU_LOCK = re.compile(r"urcu::details::scoped_lock$|::rcu_lock$|urcu::gc::scoped_lock$")
MUST_UNLOCKED = re.compile(r"(::synchronize|urcu::gc::retire_ptr|urcu::gc::batch_retire|check_deadlock_policy::check|raw_ptr::release|exempt_ptr::release|raw_ptr_adaptor::release)$")


def harvest_beliefs(bdb):
    """mangled name -> 'locked' / 'unlocked' for functions that assert gc::is_locked() / !gc::is_locked() on entry"""
    res = {}
    for F in bdb.funcs.values():
        fails = [e for _, _, e in F.all_elements() if e.get("k") == "call" and e.get("q") == "__assert_fail"]
        if not fails:
            continue
        for af in fails:
            for cond, outcome, text, b in Q.guard_conditions(F, af["_site"]):
                if "is_locked" not in text:
                    continue
                neg = text.count("!") % 2 == 1
                # reaching __assert_fail means the asserted expression was false
                asserted_locked = (not outcome and not neg) or (outcome and neg)
                # text is the asserted expression itself (outcome False leads to the failure)
                if not outcome:
                    res[F.m] = "unlocked" if neg else "locked"
                else:
                    res[F.m] = "locked" if neg else "unlocked"
    return res


def rcu_depth(p):
    """lock depth before each event, counting rcu_lock objects constructed / destroyed on the path"""
    depth = 0
    out = []
    live = {}
    for e in p.events:
        out.append(depth)
        if e.kind == "var" and e.extra and RCU_LOCK.search(str(e.extra[1] or "")):
            live[e.obj] = 1
            depth += 1
        elif e.kind == "dtor" and e.obj in live:
            depth -= live.pop(e.obj)
        elif e.kind == "call" and e.q and re.search(r"(thread_gc|urcu::gc)::access_lock$", e.q):
            depth += 1
        elif e.kind == "call" and e.q and re.search(r"(thread_gc|urcu::gc)::access_unlock$", e.q):
            depth -= 1
    out.append(depth)
    return out


def unlocked_derefs(F, p, d):
    """(event, loaded value) for uses of *v / v->field at RCU depth 0 where v was read from a shared atomic on this path"""
    from .e2 import PROJ, is_ptr_type
    ev = p.events
    origin = {}
    alias = {}
    out = []

    def resolve(v):
        k = 0
        while v in alias and k < 8:
            v = alias[v]
            k += 1
        return v

    def derefs(sv, depth=0):
        """pointer values dereferenced somewhere inside sv"""
        if not isinstance(sv, tuple) or depth > 10:
            return
        if sv[:1] == ("deref",) and len(sv) > 1:
            yield resolve(sv[1])
        elif sv[:1] == ("fld",) and len(sv) > 1:
            yield resolve(sv[1])
        for x in sv:
            if isinstance(x, tuple):
                for y in derefs(x, depth + 1):
                    yield y
    for i, e in enumerate(ev):
        svs = []
        if e.kind == "call":
            q = e.q or ""
            if PROJ.search(q):
                src = e.obj if e.obj is not None else (e.args[0] if e.args else None)
                if src is not None:
                    alias[e.val] = src[1] if isinstance(src, tuple) and src[:1] == ("deref",) else src
                continue
            op = atomic_op(e)
            if op in ("load", "exchange") and e.node is not None and is_ptr_type(e.node.get("t")):
                origin[e.val] = e
            svs = [e.obj] + list(e.args)
        elif e.kind == "store":
            svs = [e.obj, e.val]
        elif e.kind == "branch":
            svs = [e.val]
            if isinstance(e.extra, tuple) and e.extra[0] != "switch":
                from sa.pathsim import norm_cond
                atom, pol = norm_cond(e.val)
                if isinstance(atom, tuple) and len(atom) == 4 and atom[:2] == ("op", "==") and e.extra[1] == pol:
                    a, b = resolve(atom[2]), resolve(atom[3])
                    # a value found equal to a pointer just read from the container names the same shared node
                    if a in origin and b not in origin:
                        origin[b] = origin[a]
                    elif b in origin and a not in origin:
                        origin[a] = origin[b]
        if d[i] != 0:
            continue
        for sv in svs:
            for v in derefs(sv):
                if v in origin:
                    out.append((e, v, origin[v]))
    return out


def analyse(ctx, funcs, bound=3000, deref_exempt=None):
    """per function: list of (event, depth, callee belief) for calls; derived requires_locked / requires_unlocked by fixpoint"""
    beliefs = harvest_beliefs(ctx.bdb) if ctx.bdb is not None else {}
    if not beliefs:
        ctx.broken("no is_locked() beliefs harvested from the -UNDEBUG parse")
    sites = {}      # F.m -> list of (callee m, callee q, depth, node)
    uses = {}       # F.m -> {(use node id, load node id): (use node, load node)}: shared nodes dereferenced outside any rcu_lock scope
    skipped = 0
    fmap = {}
    for F in funcs:
        if F.gc_kind() != "RCU":
            continue
        name = F.q.split("::")[-1]
        if F.kind == "ctor" or name.startswith("unsafe_"):
            continue
        try:
            ps = PathSim(F, bound=bound).run()
        except PathBoundExceeded:
            skipped += 1
            continue
        ctx.paths += len(ps)
        fmap[F.m] = F
        lst = {}
        for p in ps:
            d = rcu_depth(p)
            if deref_exempt is not False and name not in ("clear", "destroy", "check_consistency") and F.kind != "dtor":
                for (e, v, ld) in unlocked_derefs(F, p, d):
                    if deref_exempt and deref_exempt(F, e, ld):
                        continue
                    if e.node is not None and ld.node is not None:
                        uses.setdefault(F.m, {})[(id(e.node), id(ld.node))] = (e.node, ld.node)
            for i, e in enumerate(p.events):
                if e.kind == "call" and e.q and e.node is not None:
                    key = (id(e.node), min(d[i], 1))
                    lst[key] = (e.node.get("m"), e.q, d[i], e.node)
                elif e.kind == "dtor" and e.q and e.node is not None and e.node.get("m") and not RCU_LOCK.search(str((e.extra or (None, None))[1] or "")):
                    # implicit destructor call of a local object (e.g. a position whose destructor disposes the unlinked chain)
                    key = (id(e.node), min(d[i], 1))
                    lst[key] = (e.node.get("m"), e.q, d[i], e.node)
        sites[F.m] = list(lst.values())
    locked = {m for m, v in beliefs.items() if v == "locked"}
    locked |= set(uses)
    unlocked = {m for m, v in beliefs.items() if v == "unlocked"}
    changed = True
    while changed:
        changed = False
        for m, lst in sites.items():
            for cm, cq, depth, node in lst:
                if depth == 0:
                    if cm in locked and m not in locked:
                        locked.add(m)
                        changed = True
                    # a function that itself asserts is_locked() states its contract: whatever it reaches that may need the unlocked state
                    # (e.g. the destructor of a position whose chain was handed over to a raw_ptr) is conditionally dead there
                    if (cm in unlocked or MUST_UNLOCKED.search(cq)) and m not in unlocked and beliefs.get(m) != "locked":
                        unlocked.add(m)
                        changed = True
    return beliefs, sites, fmap, locked, unlocked, skipped, uses


def rule_rcu_discipline(ctx, rid, funcs, reason, contract=None, bound=3000, deref_exempt=None):
    """(a) nothing that must run unlocked (synchronize, retire, raw_ptr/exempt_ptr release, functions asserting !is_locked - transitively) is
    called inside an rcu_lock scope; (b) no function is both required-locked and required-unlocked (belief contradiction); (c) the set of
    members whose callers must hold the read lock is exactly the reference contract table (a member that starts to rely on its caller's lock
    has lost its own rcu_lock scope)"""
    beliefs, sites, fmap, locked, unlocked, skipped, uses = analyse(ctx, funcs, bound, deref_exempt)
    ctx.info["rcu_beliefs"] = {"asserted": len(beliefs), "requires_locked": len(locked), "requires_unlocked": len(unlocked)}
    n = 0
    for m, lst in sites.items():
        F = fmap[m]
        clean = True
        for cm, cq, depth, node in lst:
            if depth >= 1 and (cm in unlocked or MUST_UNLOCKED.search(cq)):
                clean = False
                ctx.bad(rid, F, "%s is called inside an RCU read-side critical section" % cq.split("::")[-1], node,
                        detail="it (transitively) waits for a grace period, retires or asserts !is_locked(): under the read lock this deadlocks. " + reason,
                        sig="unlocked-callee-under-lock:%s" % cq.split("::")[-1])
            if depth == 0 and cm in locked and m in unlocked and beliefs.get(m) != "locked":
                clean = False
                ctx.bad(rid, F, "%s needs the RCU read lock but is called from a context that must run unlocked" % cq.split("::")[-1], node,
                        detail="belief contradiction: this function (transitively) synchronizes/retires, so it cannot rely on its caller's lock, "
                        "and it does not lock itself around this call. " + reason, sig="locked-callee-in-unlocked-context:%s" % cq.split("::")[-1])
        n += 1
        if clean:
            ctx.ok(rid, F, "RCU lock requirements of all callees hold at every call site", None, sig="rcu-consistent")
    derived = sorted(set("%s|%s" % (fmap[m].q, fmap[m].file.split("/cds/")[-1]) for m in locked if m in fmap))
    if contract is not None:
        allowed = set(contract)
        called = set(cm for lst in sites.values() for cm, cq, depth, node in lst)
        called_q = set((cq, len(node.get("args", []))) for lst in sites.values() for cm, cq, depth, node in lst)
        for m in locked:
            if m not in fmap:
                continue
            # only entry points (members no analysed function calls): an internal helper that relies on its caller's lock is fine as long as
            # every chain of callers ends in a lock scope or in a documented 'RCU must be locked' entry point
            if m in called or (fmap[m].q, len(fmap[m].params)) in called_q:
                continue      # (by name as well: the caller may be an instantiation that was not parsed)
            F = fmap[m]
            key = "%s|%s" % (F.q, F.file.split("/cds/")[-1])
            if key not in allowed:
                # which call makes it depend on the caller's lock
                culprit = [(cq, node) for cm, cq, depth, node in sites[m] if depth == 0 and cm in locked]
                if not culprit and m in uses:
                    un, ln = list(uses[m].values())[0]
                    ctx.bad(rid, F, "%s dereferences a node read from the container outside any RCU read-side critical section" % F.q.split("::")[-1], un,
                            detail="the pointer loaded at line %s (%s) is used at line %s (%s) with no rcu_lock held and the member is not documented as "
                            "'RCU must be locked by the caller': the node can be reclaimed in between. %s" % (ln.get("l"), F.text(ln)[:80], un.get("l"), F.text(un)[:80], reason),
                            sig="unlocked-deref")
                    continue
                ctx.bad(rid, F, "%s now relies on its caller holding the RCU read lock, but its contract is to lock itself" % F.q.split("::")[-1],
                        culprit[0][1] if culprit else None,
                        detail="it reaches %s (which requires the lock) outside any rcu_lock scope: a traversal outside the read-side critical "
                        "section can touch reclaimed nodes. %s" % (culprit[0][0].split("::")[-1] if culprit else "a locked-only callee", reason),
                        sig="lost-lock-scope")
    return n, skipped, derived
