"""C25 - Bit-manipulation helpers are correct for every input (decided clauses: DESIGN.md §4 C25)."""
from sa import run as _run
from . import bits

PROPERTY = "C25"
LEVEL = "proof"
FILES = r"^%s/cds/(algo/(bit_reversal|bitop|base|split_bitstring)\.h|details/bitop_generic\.h|compiler/gcc/amd64/bitop\.h)$" % _run.REPO
TUS = {
    "quick": ["/verif/drivers/bits.cpp"],
    "thorough": ["/verif/drivers/bits.cpp", "test/unit/misc/split_bitstring.cpp", "test/unit/misc/bit_reversal.cpp", "test/unit/misc/bitop.cpp",
                 "test/unit/intrusive-set/intrusive_feldman_hashset_hp.cpp", "test/unit/map/feldman_hashmap_hp.cpp"],
}
EXPLANATION = (
    "Bit-provenance abstract interpretation with one fully symbolic input proves, for ALL inputs, that every bit-reversal routine "
    "(swar, lookup incl. its 256-entry table, muldiv byte kernels and their 32/64-bit compositions, platform rbo32/rbo64, bitop::RBO) "
    "equals the reference reversal (involution follows). number_splitter<Int>::cut is evaluated for every (offset, count) pair with a "
    "symbolic number: result = bits [offset, offset+count), offset advances by count. Affine normal forms prove that safe_cut of all three "
    "splitters clamps to exactly rest_count() (using the constructors' last_-first_ invariant) and a path rule shows it never calls cut at "
    "end of stream. A type-level lint forbids narrow shifts that are implicitly widened. SBC / ZBC (SWAR population count, 32 and 64 bit, and "
    "the BitOps wrappers) are evaluated in a lane domain (exact affine forms over the input bits per field; a mask or shift that cuts the "
    "reachable high bits of a field is a definite loss): result = number of set / clear bits for all inputs. NOT decided: MSB/LSB (inline asm), log2* "
    "(built on the asm), the looped split_bitstring::cut and byte_splitter::cut bodies, round trips of cut sequences.")
ASSUMPTIONS = ["clang's integer promotion/conversion nodes in the AST are what the compiler applies",
               "no-carry additions are recognised by disjoint supports; anything else is 'unknown' and fails the obligation rather than passing"]

REVERSALS = [
    "cds::algo::bit_reversal::swar::operator()", "cds::algo::bit_reversal::lookup::operator()",
    "cds::algo::bit_reversal::muldiv::operator()", "cds::algo::bit_reversal::muldiv::muldiv32_byte",
    "cds::algo::bit_reversal::muldiv::muldiv64_byte", "cds::algo::bit_reversal::muldiv::muldiv32",
    "cds::algo::bit_reversal::muldiv::muldiv64", "cds::bitop::platform::rbo32", "cds::bitop::platform::rbo64",
    "cds::bitop::RBO", "cds::bitop::details::BitOps::RBO",
]


def r25_1(ctx):
    n = bits.rule_reversal(ctx, "R25.1", REVERSALS)
    if n < 18:
        ctx.broken("only %d reversal routines found (expected 18)" % n)
r25_1.rule_id = "R25.1"


def r25_2(ctx):
    bits.rule_no_widening_shift(ctx, "R25.2", r"/cds/algo/split_bitstring\.h$", min_functions=3)
r25_2.rule_id = "R25.2"


def r25_3(ctx):
    n = bits.rule_number_splitter_cut(ctx, "R25.3")
    if n < 3:
        ctx.broken("number_splitter::cut instantiated for %d integer types only" % n)
r25_3.rule_id = "R25.3"


def r25_4(ctx):
    bits.rule_safe_cut(ctx, "R25.4")
r25_4.rule_id = "R25.4"


def r25_5(ctx):
    bits.rule_cursor_reads(ctx, "R25.5")
r25_5.rule_id = "R25.5"


def r25_6(ctx):
    n = bits.rule_popcount(ctx, "R25.6")
    if n < 6:
        ctx.broken("SBC/ZBC functions not found (%d)" % n)
r25_6.rule_id = "R25.6"


RULES = [r25_1, r25_2, r25_3, r25_4, r25_5, r25_6]
FLOORS = {"R25.1": 18, "R25.2": 3, "R25.3": 3, "R25.4": 20, "R25.5": 6, "R25.6": 6}
