"""C16 - Lock-based hash containers (structural clauses: every bucket / probe-set access inside the scope of a cell lock taken for the same
hash, resize only under the resize lock, policy lock/unlock pairing; DESIGN.md §4 C16).  Linearizability across resizes is NOT decided."""
import re

from sa import run as _run
from sa import q as Q
from sa.cfg import cfg_of, PathBoundExceeded
from sa.pathsim import PathSim, C, NULL
from sa.q import cond_atoms, strip_sv, sv_field_path, atomic_op, noepoch

PROPERTY = "C16"
LEVEL = "other"
FILES = (r"^%s/cds/(intrusive/(cuckoo_set|striped_set|striped_set/\w+)\.h|container/(cuckoo_(set|map)|striped_(set|map)|striped_(set|map)/\w+)\.h|sync/lock_array\.h)"
         % _run.REPO)
MAX_INST = {"quick": 3, "thorough": 0}
TUS = {"quick": ["test/unit/striped-set/intrusive_cuckoo_set.cpp", "test/unit/striped-set/intrusive_boost_slist.cpp", "test/unit/striped-set/cuckoo_set.cpp",
                 "test/unit/striped-set/set_std_list.cpp", "test/unit/striped-map/map_std_map.cpp"],
       "thorough": ["test/unit/striped-set/*.cpp", "test/unit/striped-map/*.cpp"]}
EXPLANATION = (
    "Structural clauses only. StripedSet/Map and CuckooSet/Map (intrusive and container layers, striping and refinable policies): every bucket / "
    "probe-set lookup bucket(hash) happens inside the lifetime of a scoped cell lock constructed from the same hash value (or hash array), or of a "
    "full / resize lock; helpers that touch buckets without locking are reached only from such scopes (call-graph propagation up to the entry "
    "points); the hash used is computed from the operation's own key; the table is re-allocated (internal_resize / allocate_bucket_tables) only "
    "inside a resize-lock scope and after re-checking the capacity; lock policies: a cell-lock object unlocks exactly the locks it locked, "
    "refinable acquire() returns only after re-validating owner and lock array under the lock. NOT decided: linearizability, deadlock freedom, "
    "relocation correctness under interleavings (element conservation on paths: C17).")
ASSUMPTIONS = ["clang CFG (-DNDEBUG)", "necessary conditions only"]
R = "Otherwise a bucket is read or modified while another thread resizes or modifies it (C16)."

CELL = re.compile(r"::scoped_cell_(try)?lock$")
FULL = re.compile(r"::scoped_(full|resize)_lock$")
OWNERS = re.compile(r"cds::(intrusive|container)::(StripedSet|StripedMap|CuckooSet|CuckooMap)::")


def _has(sv, pred):
    if pred(sv):
        return True
    if isinstance(sv, (tuple, frozenset)):
        return any(_has(x, pred) for x in sv if isinstance(x, (tuple, frozenset)))
    return False


def lock_scopes(p):
    """per event index: list of live lock objects (kind, hash argument SV or None)"""
    live = {}
    out = []
    for e in p.events:
        out.append(list(live.values()))
        if e.kind == "var" and e.extra:
            t = str(e.extra[1] or "")
            if CELL.search(t) or FULL.search(t):
                args = e.val[2] if isinstance(e.val, tuple) and len(e.val) > 2 and isinstance(e.val[2], tuple) else ()
                h = args[1] if len(args) > 1 else None
                live[e.obj] = ("cell" if CELL.search(t) else "full", noepoch(h) if isinstance(h, tuple) else h, "try" in t)
        elif e.kind == "dtor" and e.obj in live:
            del live[e.obj]
    out.append(list(live.values()))
    return out


def _hash_base(sv):
    """bucket(h) -> h ; bucket(i, arr[i]) -> arr"""
    sv = noepoch(sv) if isinstance(sv, tuple) else sv
    if isinstance(sv, tuple) and sv[:1] == ("elem",):
        return sv[1]
    return sv


def _var_ids(sv, out=None, d=0):
    """declaration ids of the variables a value was read from (local arrays keep their identity across by-pointer calls)"""
    if out is None:
        out = set()
    if isinstance(sv, tuple) and d < 8:
        if sv[:1] in (("out",), ("phi",), ("init",), ("p",)) and len(sv) > 1 and isinstance(sv[1], int):
            out.add(sv[1])
        for x in sv:
            if isinstance(x, tuple):
                _var_ids(x, out, d + 1)
    return out


def _same(a, b):
    if a == b:
        return True
    ia, ib = _var_ids(a), _var_ids(b)
    return bool(ia) and bool(ia & ib)


def rule_bucket_lock_scope(ctx, RID, R):
    """bucket access inside a matching lock scope; propagation of 'needs the caller's lock'"""
    n = 0
    origin = {}     # F.m -> where the unlocked bucket access (transitively) happens
    needs = {}      # F.m -> node of the first unlocked bucket access
    sites = {}      # F.m -> [(callee m, callee q, locked?, node)]
    fmap = {}
    for F in ctx.db.funcs.values():
        if not OWNERS.match(F.q) or F.kind in ("ctor", "dtor"):
            continue
        name = F.q.split("::")[-1]
        try:
            ps = PathSim(F, bound=3000).run()
        except PathBoundExceeded:
            continue
        fmap[F.m] = F
        lst = {}
        for p in ps:
            sc = lock_scopes(p)
            for i, e in enumerate(p.events):
                if e.kind != "call" or not e.q or e.node is None:
                    continue
                locked = bool(sc[i])
                lst[(id(e.node), locked)] = (e.node.get("m"), e.q, locked, e.node)
                if re.search(r"(StripedSet|StripedMap|CuckooSet|CuckooMap)::bucket$", e.q) and e.args:
                    n += 1
                    hb = _hash_base(e.args[-1])
                    if not locked:
                        needs.setdefault(F.m, e.node)
                        origin.setdefault(F.m, "%s (%s:%s)" % (F.q.split("::")[-1], F.file.split("/")[-1], e.node.get("l")))
                        continue
                    ok = any(k == "full" or _same(h, hb) for k, h, t in sc[i])
                    ctx.check(ok, RID, F, "a bucket is looked up under a cell lock taken for the same hash (or under the full / resize lock)", e.node,
                              detail="live locks: %s; bucket hash: %r. %s" % ([(k, h) for k, h, t in sc[i]], hb, R), sig="lock-hash-agreement")
        sites[F.m] = list(lst.values())
    if n < 15:
        ctx.broken("bucket() call sites not found (%d)" % n)
    # propagate 'requires the caller's lock'
    req = set(needs)
    changed = True
    while changed:
        changed = False
        for m, lst in sites.items():
            if m in req:
                continue
            for cm, cq, locked, node in lst:
                if cm in req and not locked:
                    req.add(m)
                    needs[m] = node
                    origin[m] = origin.get(cm, "?")
                    changed = True
                    break
    called_q = set((cq, len(node.get("args", []))) for lst in sites.values() for cm, cq, locked, node in lst)
    called = set(cm for lst in sites.values() for cm, cq, locked, node in lst)
    for m in req:
        F = fmap[m]
        name = F.q.split("::")[-1]
        if m in called or (F.q, len(F.params)) in called_q:
            ctx.ok(RID, F, "helper that relies on its caller's cell lock; every caller chain is checked", None, sig="helper-needs-lock")
            continue
        if name in ("internal_resize",):
            continue
        ctx.bad(RID, F, "%s touches a bucket with no cell / full lock held and no caller provides one" % name, needs[m],
                detail="the unlocked bucket lookup is in %s. %s" % (origin.get(m, "?"), R), sig="unlocked-bucket-access")
    return n


def r16_1(ctx):
    rule_bucket_lock_scope(ctx, "R16.1", R)
r16_1.rule_id = "R16.1"


def r16_2(ctx):
    """resize discipline"""
    n = 0
    for F in ctx.db.funcs.values():
        if not OWNERS.match(F.q):
            continue
        if not Q.calls_in(F, r"::(internal_resize|allocate_bucket_tables|alloc_bucket_table)$") or F.kind in ("ctor", "dtor"):
            continue
        name = F.q.split("::")[-1]
        if name in ("internal_resize", "allocate_bucket_tables", "alloc_bucket_table"):
            if name == "internal_resize":
                # only called from resize()
                pass
            continue
        for p in PathSim(F, bound=3000).run():
            sc = lock_scopes(p)
            ev = p.events
            for i, e in enumerate(ev):
                if e.kind == "call" and e.q and re.search(r"::(internal_resize|allocate_bucket_tables)$", e.q):
                    n += 1
                    full = any(k == "full" for k, h, t in sc[i])
                    ctx.check(full, "R16.2", F, "the bucket table is re-allocated only inside a resize-lock scope", e.node, detail=R, sig="resize-under-lock")
                    # capacity re-checked under the lock
                    rechk = False
                    for atom, tv, bev in cond_atoms(p):
                        j = ev.index(bev)
                        if j < i and sc[j] and _has(atom, lambda s: isinstance(s, tuple) and s[:1] == ("call",) and str(s[1]).endswith("::bucket_count")):
                            rechk = True
                    ctx.check(rechk, "R16.2", F, "the capacity is re-checked after the resize lock was obtained (someone else may have resized)", e.node,
                              detail="two threads that both decided to grow would otherwise double the table twice. " + R, sig="resize-recheck")
    for F in ctx.db.funcs.values():
        if OWNERS.match(F.q) and Q.calls_in(F, r"::internal_resize$"):
            n += 1
            ctx.check(F.q.split("::")[-1] == "resize", "R16.2", F, "internal_resize() is reached only from resize()", None, sig="internal-resize-caller")
    if n < 3:
        ctx.broken("resize sites not found (%d)" % n)
r16_2.rule_id = "R16.2"


def r16_3(ctx):
    """operations hash their own key once and use that hash for lock and bucket"""
    n = 0
    for F in ctx.db.funcs.values():
        if not OWNERS.match(F.q) or F.kind in ("ctor", "dtor"):
            continue
        if not Q.calls_in(F, r"::hashing$"):
            continue
        keyp = [("p", pr["d"], pr["n"]) for pr in F.params]
        try:
            ps = PathSim(F, bound=3000).run()
        except PathBoundExceeded:
            continue
        for p in ps:
            hs = [e for e in p.events if e.kind == "call" and e.q and e.q.endswith("::hashing")]
            if not hs:
                continue
            n += 1
            own = all(any(_has(a, lambda s, k=k: s == k) for a in e.args for k in keyp) for e in hs)
            ctx.check(own, "R16.3", F, "the hash is computed from the operation's own key", hs[0].node, detail=R, sig="own-key-hash")
    if n < 10:
        ctx.broken("hashing() call sites not found (%d)" % n)
r16_3.rule_id = "R16.3"


def r16_4(ctx):
    """lock policies: what a scoped lock object locks, it unlocks; refinable acquire re-validates under the lock"""
    n = 0
    for F in ctx.db.funcs.values():
        if not re.search(r"(striped_set|cuckoo)::(striping|refinable)::(scoped_cell_lock|scoped_full_lock|scoped_resize_lock|scoped_cell_trylock)::", F.q):
            continue
        cls = F.cls
        def uses(G, rx):
            return [e for b, i, e in G.all_elements() if e.get("k") in ("call", "ctor") and re.search(rx, e.get("q") or "")]
        if F.kind == "ctor":
            n += 1
            locks = uses(F, r"::(lock|lock_all|acquire\w*|try_lock|try_acquire|try_second_acquire)$|std::unique_lock::unique_lock$|::scoped_(full|cell)_lock::scoped_(full|cell)_lock$")
            ctx.check(bool(locks), "R16.4", F, "a scoped lock object acquires its lock(s) in the constructor", None, detail=R, sig="ctor-locks")
            dt = [g for g in ctx.db.funcs.values() if g.kind == "dtor" and g.cls == cls and g.ct == F.ct]
            if dt:
                un = uses(dt[0], r"::(unlock|unlock_all|release\w*)$")
                ctx.check(bool(un), "R16.4", dt[0], "the destructor of a scoped lock object releases what the constructor acquired", None, detail=R, sig="dtor-unlocks")
    withlock = 0
    for F in ctx.db.funcs.values():
        if not re.search(r"(striped_set|cuckoo)::refinable::acquire$", F.q):
            continue
        cfg = cfg_of(F)
        lockloops = []
        for h, body in cfg.loops().items():
            for b in body:
                if any(e.get("k") == "call" and re.search(r"::lock$", e.get("q") or "") for e in F.blocks[b].elems):
                    lockloops.append((h, set(body)))
        # innermost loops that contain the lock call
        lockloops = [(h, b) for h, b in lockloops if not any(h2 != h and b2 < b for h2, b2 in lockloops)]
        for p in PathSim(F, bound=3000).run():
            if p.outcome != "return":
                continue
            ev = p.events
            lk = [i for i, e in enumerate(ev) if e.kind == "call" and e.q and re.search(r"::lock$", e.q) and not (e.obj is not None and sv_field_path(e.obj)[-1:] == ["m_access"])]
            if lk:
                after_idx = lk[-1]
            else:
                vis = [k for k, b in enumerate(p.blocks) if any(b == h for h, body in lockloops)]
                if not vis:
                    continue
                after = set(p.blocks[vis[-1] + 1:])
                firsts = [i for i, e in enumerate(ev) if e.site is not None and e.site[0] in after]
                if not firsts:
                    continue
                after_idx = firsts[0] - 1
            n += 1
            withlock += 1
            tail = ev[after_idx + 1:]
            reval = [e for e in tail if e.kind == "call" and atomic_op(e) == "load" and sv_field_path(e.obj)[-1:] == ["m_Owner"]]
            ctx.check(bool(reval), "R16.4", F, "refinable::acquire re-reads the resize owner after taking the cell locks, before it returns", None,
                      detail="a resize that started between the first owner check and the lock acquisition would otherwise run concurrently with the operation. " + R,
                      sig="acquire-revalidates")
            # ... and the lock array / capacity it locked in is still the current one
            same = False
            loadobj = {e.val: repr(e.obj) for e in ev if e.kind == "call" and e.obj is not None}
            for atom, tv, bev in cond_atoms(p):
                if ev.index(bev) > after_idx and tv and isinstance(atom, tuple) and atom[:2] == ("op", "=="):
                    txt = repr(atom) + " ".join(loadobj.get(x, "") for x in atom[2:4])
                    if re.search(r"m_arrLocks|m_nCapacity", txt):
                        same = True
            ctx.check(same, "R16.4", F, "refinable::acquire returns only if the lock array (capacity) it took its lock from is still the current one", None,
                      detail="a resize completed between the snapshot of the lock array and the lock acquisition leaves the caller with a lock of the retired "
                      "array, which excludes nobody (the owner mark is clear again). " + R, sig="acquire-same-array")
            un = [e for e in tail if e.kind == "call" and e.q and re.search(r"::unlock$", e.q)]
            ctx.check(not un, "R16.4", F, "refinable::acquire returns with the cell locks held", None, detail=R, sig="acquire-holds")
    if n < 6 or withlock < 1:
        ctx.broken("lock policy sites not found (%d, %d acquire paths with a lock)" % (n, withlock))
r16_4.rule_id = "R16.4"


RULES = [r16_1, r16_2, r16_3, r16_4]
FLOORS = {"R16.1": 15, "R16.2": 3, "R16.3": 10, "R16.4": 6}
