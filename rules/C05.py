"""C05 - RCU disposes every retired object exactly once (structural clauses, DESIGN.md §4 C05)."""
from sa import run as _run
from . import rcu

PROPERTY = "C05"
LEVEL = "other"
FILES = r"^%s/(cds/urcu/.*\.h|src/urcu_(gp|sh)\.cpp)$" % _run.REPO
NAMES = r"^cds::urcu::"
TUS = {
    "quick": ["test/unit/list/michael_rcu_gpb.cpp", "test/unit/list/michael_rcu_gpi.cpp", "test/unit/list/michael_rcu_gpt.cpp",
              "test/unit/list/michael_rcu_shb.cpp",
              # the iterator-range overload of batch_retire is instantiated only by the Ellen tree
              "test/unit/tree/intrusive_ellenbintree_rcu_gpi.cpp", "test/unit/tree/intrusive_ellenbintree_rcu_gpb.cpp"],
    "thorough": ["test/unit/list/*_rcu_*.cpp", "test/unit/tree/*_rcu_*.cpp", "src/urcu_gp.cpp", "src/urcu_sh.cpp"],
}
EXPLANATION = (
    "Path-exhaustive obligations over the RCU flavours' reclamation code: push_buffer makes one push attempt and frees the pointer exactly "
    "when it did not fit (after synchronize); clear_buffer and the disposer thread's dispose_buffer free-or-keep each popped element exactly "
    "once under the epoch guard; Destruct()/destructors drain the buffer with the maximal epoch before the singleton is deleted; "
    "general_instant frees each element once after synchronize; retire_ptr/batch_retire hand each element over exactly once (batch_retire leaves its element loop only through the loop's own range / chain test) tagged with "
    "the current epoch. The exactly-once delivery of the MPMC buffer itself is property C07, not decided here.")
ASSUMPTIONS = ["clang CFG of the instantiated RCU classes (-DNDEBUG)", "necessary conditions only"]
R = "Otherwise a retired object is disposed twice or never (C05)."


def r05_1(ctx):
    rcu.rule_push_buffer(ctx, "R05.1", R)
r05_1.rule_id = "R05.1"


def r05_2(ctx):
    rcu.rule_clear_buffer(ctx, "R05.2", R)
    rcu.rule_dispose_buffer(ctx, "R05.2", R)
r05_2.rule_id = "R05.2"


def r05_3(ctx):
    rcu.rule_drain(ctx, "R05.3", R)
r05_3.rule_id = "R05.3"


def r05_4(ctx):
    rcu.rule_gpi_retire(ctx, "R05.4", R)
r05_4.rule_id = "R05.4"


def r05_5(ctx):
    rcu.rule_retire_push(ctx, "R05.5", R)
r05_5.rule_id = "R05.5"


RULES = [r05_1, r05_2, r05_3, r05_4, r05_5]
FLOORS = {"R05.1": 6, "R05.2": 6, "R05.3": 6, "R05.4": 4, "R05.5": 9}
