"""C13 - Ordered lists (structural clauses: guard / RCU-lock discipline, mark-then-unlink-then-retire, lock+validate around lazy-list
mutations; DESIGN.md §4 C13).  Linearizability is NOT decided."""
import json
import os
import re

from sa import run as _run
from sa import q as Q
from sa.cfg import cfg_of, PathBoundExceeded
from sa.pathsim import PathSim, C, NULL
from sa.q import norm_cond, node_line, cond_atoms, path_end, strip_sv, sv_field_path, atomic_op, noepoch, lock_state, sv_mentions
from . import e2, e3

PROPERTY = "C13"
LEVEL = "other"
FILES = (r"^%s/cds/(intrusive/(impl/(michael_list|lazy_list|iterable_list)|michael_list_\w+|lazy_list_\w+)\.h|"
         r"container/(impl/)?(michael|lazy|iterable)_(kv)?list(_\w+)?\.h|urcu/)" % _run.REPO)
NEED_BELIEF = True
TUS = {"quick": ["test/unit/intrusive-list/intrusive_michael_hp.cpp", "test/unit/intrusive-list/intrusive_lazy_dhp.cpp",
                 "test/unit/intrusive-list/intrusive_iterable_hp.cpp", "test/unit/intrusive-list/intrusive_michael_rcu_gpb.cpp",
                 "test/unit/intrusive-list/intrusive_lazy_rcu_gpb.cpp", "test/unit/list/michael_rcu_gpb.cpp", "test/unit/list/kv_lazy_rcu_gpb.cpp"],
       "thorough": ["test/unit/intrusive-list/*.cpp", "test/unit/list/*.cpp"]}
BELIEF_TUS = {"quick": ["test/unit/intrusive-list/intrusive_michael_rcu_gpb.cpp", "test/unit/intrusive-list/intrusive_lazy_rcu_gpb.cpp",
                        "test/unit/list/michael_rcu_gpb.cpp", "test/unit/list/kv_lazy_rcu_gpb.cpp"],
              "thorough": ["test/unit/intrusive-list/*rcu*.cpp", "test/unit/list/*rcu*.cpp"]}
EXPLANATION = (
    "Structural clauses only. HP/DHP lists: a link read from a shared atomic is dereferenced only after hazard-pointer protection on every "
    "path. RCU lists: nothing that synchronizes/retires runs inside an rcu_lock scope, no belief contradiction, and the set of members that "
    "rely on the caller's read lock equals the reference contract table (a member that lost its own rcu_lock scope is reported). MichaelList: "
    "a node is retired only after this thread's physical-unlink CAS succeeded, which is attempted only after the logical-mark CAS succeeded; a "
    "new node's next link is initialised before the publishing CAS. LazyList: link_node/unlink_node run only inside the position lock scope "
    "and after validate() returned true, retirement happens after the locks are released and only on the success result; a successful validate_link implies that the locked predecessor is not logically removed (own mark test, or "
    "every marking store redirects the removed node's link to the operation's start node). NOT decided: "
    "linearizability, absence of duplicate keys under races.")
ASSUMPTIONS = ["clang CFG (-DNDEBUG); asserts harvested from a second parse with -UNDEBUG", "rules/rcu_contract.json is the reviewed reference of members "
               "whose callers must hold the RCU lock"]
R = "Otherwise a node is touched after reclamation, retired while still reachable, or linked/unlinked on stale neighbours (C13)."


def contract():
    p = os.path.join(os.path.dirname(os.path.abspath(__file__)), "rcu_contract.json")
    return json.load(open(p))["requires_caller_lock"]


def _lists(ctx):
    return [f for f in ctx.db.funcs.values() if re.match(r"cds::(intrusive|container)::(Michael|Lazy|Iterable)(KV)?List::", f.q)]


def exempt_nonretirable(F, e, ld):
    """IterableList never retires its nodes while the list lives (only the data they point to): walking node->next needs no guard"""
    return F.q.startswith("cds::intrusive::IterableList::") and re.search(r"(\.|->)next\.load", F.text(ld.node) + " ") is not None and \
        re.search(r"(\.|->)(next|data)\b", F.text(e.node) + " ") is not None


def r13_1(ctx):
    a, s = e2.rule_guard_discipline(ctx, "R13.1", _lists(ctx), R, exempt=exempt_nonretirable)
    if a < 30:
        ctx.broken("only %d HP/DHP list members analysed for guard discipline" % a)
r13_1.rule_id = "R13.1"


def r13_2(ctx):
    n, s, derived = e3.rule_rcu_discipline(ctx, "R13.2", _lists(ctx), R, contract=contract())
    if n < 100:
        ctx.broken("only %d RCU list members analysed" % n)
r13_2.rule_id = "R13.2"


def _won(p, e):
    for atom, tv, bev in cond_atoms(p):
        if atom == e.val:
            return tv
    return None


def r13_3(ctx):
    """MichaelList: retire only after the physical unlink CAS won; unlink only after the mark CAS won; publish after init"""
    n = 0
    for F in ctx.db.funcs.values():
        if not re.match(r"cds::intrusive::MichaelList::(unlink_node|search|link_node|erase_at|find_at|inserting_search)$", F.q):
            continue
        if not Q.calls_in(F, r"::(retire_node|dispose_node|retire)$") and not F.q.endswith("link_node"):
            continue
        try:
            ps = PathSim(F, bound=4000).run()
        except PathBoundExceeded:
            continue
        for p in ps:
            ev = p.events
            cas = [i for i, e in enumerate(ev) if e.kind == "call" and (atomic_op(e) or "").startswith("compare_exchange")]
            for i, e in enumerate(ev):
                if e.kind == "call" and e.q and re.search(r"::(retire_node|dispose_node)$", e.q):
                    n += 1
                    # the CAS that replaces *this* node (its expected value is the node being retired) must have been won by this thread
                    proj = {x.val: x.obj for x in ev[:i] if x.kind == "call" and x.q and e2.PROJ.search(x.q) and x.obj is not None}

                    def canon(sv, d=0):
                        if d > 12:
                            return sv
                        if sv in proj:
                            return canon(proj[sv], d + 1)
                        if isinstance(sv, tuple):
                            sv = noepoch(sv)
                            if sv[:1] == ("obj",) and len(sv) > 2 and isinstance(sv[2], tuple) and len(sv[2]) >= 1 and str(sv[1]).endswith("marked_ptr"):
                                return canon(sv[2][0], d + 1)      # marked_ptr(p[, bits]) names p
                            return tuple(canon(x, d + 1) if isinstance(x, tuple) else x for x in sv)
                        return sv
                    tgt = canon(e.args[0]) if e.args else None
                    before = [j for j in cas if j < i and _won(p, ev[j]) is True and ev[j].args and canon(ev[j].args[0]) == tgt]
                    ctx.check(bool(before), "R13.3", F, "a node is retired only after this thread's unlinking CAS succeeded", e.node, detail=R, sig="retire-after-unlink")
            if F.q.endswith("::unlink_node") and F.gc_kind() != "nogc":
                won = [j for j in cas if _won(p, ev[j]) is True]
                if len(cas) >= 2:
                    n += 1
                    ctx.check(_won(p, ev[cas[0]]) is True, "R13.3", F, "the physical unlink is attempted only after the logical-delete mark succeeded",
                              ev[cas[1]].node, detail=R, sig="mark-before-unlink")
                if p.outcome == "return" and p.ret == C(1):
                    ctx.check(bool(cas) and _won(p, ev[cas[0]]) is True, "R13.3", F, "unlink_node reports success only when its mark CAS succeeded", None, sig="unlink-success")
            if F.q.endswith("::link_node") and cas:
                n += 1
                st = [j for j, e in enumerate(ev) if e.kind == "call" and atomic_op(e) == "store" and sv_field_path(e.obj)[-1:] == ["m_pNext"] and j < cas[0]]
                ctx.check(bool(st), "R13.3", F, "the new node's next link is initialised before the CAS that publishes the node", ev[cas[0]].node, detail=R, sig="publish-after-init")
                if p.outcome == "return":
                    ctx.check((p.ret == C(1)) == (_won(p, ev[cas[0]]) is True), "R13.3", F, "link_node reports exactly the outcome of its publishing CAS", None, sig="link-result")
    from . import skiplist
    mk = skiplist.rule_mark_cas_from_unmarked(ctx, "R13.3", [f for f in ctx.db.funcs.values() if re.match(r"cds::intrusive::MichaelList::(unlink_node|erase_at|extract_at|unlink_at)$", f.q)
                                                        and f.gc_kind() != "nogc"], R)
    if n < 10 or mk < 1:
        ctx.broken("MichaelList link/unlink/retire sites not found (%d, %d mark CAS sites)" % (n, mk))
r13_3.rule_id = "R13.3"


def raii_lock_classes(db):
    """classes whose constructor locks and whose destructor unlocks (found structurally, not by name)"""
    locks, unlocks = set(), set()
    for F in db.funcs.values():
        if F.kind == "ctor" and Q.calls_in(F, r"::lock$"):
            locks.add(F.cls)
        elif F.kind == "dtor" and Q.calls_in(F, r"::unlock$"):
            unlocks.add(F.cls)
    return (locks & unlocks) | {"std::unique_lock", "std::lock_guard"}


def r13_4(ctx):
    """LazyList: mutations under the position lock and after validate(); retire outside the lock, on success"""
    n = 0
    raii = raii_lock_classes(ctx.db)
    for F in ctx.db.funcs.values():
        if not re.match(r"cds::intrusive::LazyList::", F.q):
            continue
        if not Q.calls_in(F, r"LazyList::(link_node|unlink_node)$"):
            continue
        if F.q.split("::")[-1] in ("link_node", "unlink_node"):
            continue
        if F.q.split("::")[-1] == "clear":
            # clear() is not among the operations C13 quantifies over (it locks head+first without re-validating: see DESIGN.md, observations)
            continue
        try:
            ps = PathSim(F, bound=4000).run()
        except PathBoundExceeded:
            continue
        for p in ps:
            ev = p.events
            depth = 0
            live = {}
            dl = []
            for e in ev:
                dl.append(depth)
                if e.kind == "var" and e.extra and str(e.extra[1] or "") in raii:
                    live[e.obj] = 1
                    depth += 1
                elif e.kind == "dtor" and e.obj in live:
                    depth -= live.pop(e.obj)
            vals = [e for e in ev if e.kind == "call" and e.q and e.q.endswith("LazyList::validate")]
            validated = any(_won(p, v) is True for v in vals)
            for i, e in enumerate(ev):
                if e.kind == "call" and e.q and re.search(r"LazyList::(link_node|unlink_node)$", e.q):
                    n += 1
                    ctx.check(dl[i] >= 1, "R13.4", F, "%s runs inside the position lock scope" % e.q.split("::")[-1], e.node, detail=R, sig="mutate-under-lock")
                    ctx.check(validated, "R13.4", F, "%s runs only after validate() confirmed the locked neighbours" % e.q.split("::")[-1], e.node, detail=R,
                              sig="mutate-after-validate")
                if e.kind == "call" and e.q and re.search(r"LazyList::(retire_node|dispose_node)$", e.q):
                    n += 1
                    ctx.check(dl[i] == 0, "R13.4", F, "the unlinked node is retired after the position locks are released", e.node, detail=R, sig="retire-outside-lock")
                    un = [x for x in ev[:i] if x.kind == "call" and x.q and x.q.endswith("LazyList::unlink_node")]
                    ctx.check(bool(un), "R13.4", F, "a node is retired only on a path that unlinked it", e.node, detail=R, sig="retire-after-unlink")
    if n < 10:
        ctx.broken("LazyList mutation sites not found (%d)" % n)
r13_4.rule_id = "R13.4"


def r13_5(ctx):
    """the premise of R13.1's IterableList exemption: list nodes are freed only by the (single-threaded) destroy()/destructor, or when they
    were never published (allocated on this path and the publishing CAS failed / was never attempted)"""
    n = 0
    for F in ctx.db.funcs.values():
        if not F.q.startswith("cds::intrusive::IterableList::") or not Q.calls_in(F, r"IterableList::delete_node$"):
            continue
        name = F.q.split("::")[-1]
        if name in ("destroy", "~IterableList"):
            n += 1
            ctx.ok("R13.5", F, "nodes are freed by the tear-down routine", None, sig="node-free-teardown")
            continue
        for p in PathSim(F, bound=2000).run():
            ev = p.events
            for i, e in enumerate(ev):
                if e.kind == "call" and e.q and e.q.endswith("IterableList::delete_node"):
                    n += 1
                    a = e.args[0] if e.args else None
                    fresh = any(x.kind == "call" and x.val == a and x.q and x.q.endswith("::alloc_node") for x in ev[:i])
                    pub = [x for x in ev[:i] if x.kind == "call" and (atomic_op(x) or "").startswith("compare_exchange") and x.args and len(x.args) > 1 and x.args[1] == a]
                    lost = all(_won(p, x) is False for x in pub)
                    ctx.check(fresh and lost, "R13.5", F, "an IterableList node is freed outside tear-down only if it was allocated here and never published", e.node,
                              detail="traversals walk node->next without guards because nodes outlive every operation. " + R, sig="node-free-unpublished")
    if n < 3:
        ctx.broken("IterableList::delete_node call sites not found (%d)" % n)
r13_5.rule_id = "R13.5"


def r13_6(ctx):
    """IterableList link protocol: both neighbours' data slots are pinned (LSB mark set by a CAS this thread won) while the position is
    validated (pPrev->next re-read, find_prev re-scan) and while the new data / node is published; every pinned slot is released on every exit"""
    n = 0
    for F in ctx.db.funcs.values():
        if not re.match(r"cds::intrusive::IterableList::(link_data|link_aux_node)$", F.q):
            continue
        for p in PathSim(F, bound=4000).run():
            if p.outcome != "return":
                continue
            ev = p.events
            pinned = {}        # slot location (noepoch) -> index of the winning mark CAS
            released = {}
            lo = None
            for i, e in enumerate(ev):
                if e.kind != "call":
                    continue
                op = atomic_op(e)
                loc = noepoch(e.obj) if e.obj is not None else None
                isdata = loc is not None and sv_field_path(loc)[-1:] == ["data"]
                if isdata and (op or "").startswith("compare_exchange") and len(e.args) >= 2:
                    newv = e.args[1]
                    mark = any(x.kind == "call" and x.val == newv and x.q and x.q.endswith("operator|") and x.args and x.args[0] == e.args[0] and x.args[1] == C(1) for x in ev[:i])
                    if mark:
                        if _won(p, e) is True:
                            pinned[loc] = i
                    elif loc in pinned and loc not in released:
                        # the reuse CAS replaces the pinned (marked) value of pPrev: publication; it also drops the pin when it wins
                        n += 1
                        ctx.check(len(pinned) - len(released) >= 2, "R13.6", F, "data is published into a reused node only while both neighbours are pinned", e.node, detail=R, sig="publish-pinned")
                        released[loc] = i
                elif isdata and op == "store" and loc in pinned and loc not in released:
                    released[loc] = i
                elif op is not None and (op or "").startswith("compare_exchange") and loc is not None and sv_field_path(loc)[-1:] == ["next"]:
                    n += 1
                    ctx.check(len(pinned) - len(released) >= 2, "R13.6", F, "a new node is linked only while both neighbours are pinned", e.node, detail=R, sig="publish-pinned")
                elif (e.q and e.q.endswith("::find_prev")) or (op == "load" and loc is not None and sv_field_path(loc)[-1:] == ["next"] and _has_param(loc, F, "pos")):
                    n += 1
                    ctx.check(len(pinned) - len(released) >= 2, "R13.6", F, "the insert position is re-validated only while both neighbours are pinned", e.node,
                              detail="a validation made before the slots are pinned can be invalidated before the marks are set: the value is then linked behind a larger "
                              "key (lost insert / duplicate key). " + R, sig="validate-pinned")
            n += 1
            ctx.check(set(pinned) <= set(released), "R13.6", F, "every pinned data slot is released on every exit", None,
                      detail="pinned: %d, released: %d. A slot left marked blocks erase/insert at that node forever. %s" % (len(pinned), len(released), R), sig="pins-released")
    if n < 20:
        ctx.broken("IterableList link protocol sites not found (%d)" % n)
r13_6.rule_id = "R13.6"


def _has_param(sv, F, name):
    tgt = [("p", pr["d"], pr["n"]) for pr in F.params if pr["n"] == name]
    if not tgt:
        return False

    def walk(x):
        if x == tgt[0]:
            return True
        return isinstance(x, tuple) and any(walk(y) for y in x if isinstance(y, tuple))
    return walk(sv)


def _mask_of(F, e):
    """mask (template argument) of the marked_ptr a bits() call is applied to"""
    o = F.deref(e.node.get("obj")) if e.node is not None and e.node.get("obj") is not None else None
    t = (o or {}).get("t") or ""
    m = re.search(r"marked_ptr<.*,\s*(\d+)\s*>\s*(const)?\s*&?$", t.strip())
    return int(m.group(1)) if m else None


def r13_7(ctx):
    """MichaelList::search positions on / compares with a node only after it established that the node carries NO deletion mark (every mark bit
    clear): a node marked by erase *or* extract is helped out or skipped, never reported as the position"""
    n = 0
    for F in ctx.db.funcs.values():
        if not re.match(r"cds::intrusive::MichaelList::search$", F.q):
            continue
        try:
            ps = PathSim(F, bound=6000).run()
        except PathBoundExceeded:
            ctx.broken("path bound exceeded in %s" % F.q)
            continue
        for p in ps:
            ev = p.events
            cmps = [i for i, e in enumerate(ev) if e.kind == "call" and e.q and e.q.endswith("operator()") and len(e.args) == 2 and
                    any(_has_call(a, ev, "to_value_ptr") for a in e.args)]
            if not cmps:
                continue
            i = cmps[-1]
            bits = [(j, e) for j, e in enumerate(ev[:i]) if e.kind == "call" and e.q and e.q.endswith("marked_ptr::bits")]
            if not bits:
                continue
            n += 1
            clear = False
            why = "no decision on the mark bits before the comparison"
            for atom, tv, bev in cond_atoms(p):
                if ev.index(bev) > i:
                    continue
                for j, be in bits:
                    if atom == be.val:
                        clear = (tv is False)
                        why = "bits() tested as a whole"
                    elif isinstance(atom, tuple) and atom[:2] == ("op", "==") and be.val in atom[2:4]:
                        k = [x for x in atom[2:4] if x != be.val][0]
                        mask = _mask_of(F, be)
                        if isinstance(k, tuple) and k[:1] == ("c",):
                            if k[1] == 0:
                                clear = (tv is True)
                            elif tv is False and mask is not None and set(range(mask + 1)) - {k[1]} == {0}:
                                clear = True
                            else:
                                clear = False
                            why = "bits() compared with %s (mark mask %s)" % (k[1], mask)
            ctx.check(clear, "R13.7", F, "search compares / positions on a node only after finding every deletion-mark bit of its next link clear", ev[i].node,
                      detail="%s. A node marked for extraction (or erase) that is taken for a live one stays linked: the key remains visible after a successful "
                      "extract/erase. %s" % (why, R), sig="position-on-unmarked")
    if n < 4:
        ctx.broken("MichaelList::search comparison sites not found (%d)" % n)
r13_7.rule_id = "R13.7"


def _has_call(sv, ev, suffix, d=0):
    if d > 6:
        return False
    if isinstance(sv, tuple):
        if sv[:1] == ("call",) and str(sv[1]).endswith(suffix):
            return True
        return any(_has_call(x, ev, suffix, d + 1) for x in sv if isinstance(x, tuple))
    return False


def r13_8(ctx):
    """ordered-list searches advance past a node only when its key is STRICTLY less than the searched key: the iteration that compared a node's
    key with the key and then moves on to the next node must have established cmp < 0 (an equal key stops the search - otherwise a duplicate
    can be inserted behind it)"""
    n = 0
    for F in ctx.db.funcs.values():
        if not re.match(r"cds::intrusive::(IterableList::(find_prev|search|inserting_search)|MichaelList::search|LazyList::search)$", F.q):
            continue
        cfg = cfg_of(F)
        for h in list(cfg.loops()):
            try:
                ps = PathSim(F, bound=6000, start=h).run()
            except PathBoundExceeded:
                continue
            for p in ps:
                if p.outcome != "back":
                    continue
                ev = p.events
                cm = [e for e in ev if e.kind == "call" and e.q and e.q.endswith("operator()") and len(e.args) == 2 and any(_has_call(a, ev, "to_value_ptr") or
                      (isinstance(a, tuple) and a[:1] == ("deref",)) for a in e.args)]
                if not cm:
                    continue
                c = cm[-1]
                rel = None
                for atom, tv, bev in cond_atoms(p):
                    if ev.index(bev) < ev.index(c):
                        continue
                    if isinstance(atom, tuple) and atom[:1] == ("op",) and len(atom) == 4 and c.val in atom[2:4] and C(0) in atom[2:4]:
                        op = atom[1]
                        if atom[2] == C(0):      # 0 op c  ->  c op' 0
                            op = {"<": ">", ">": "<", "<=": ">=", ">=": "<="}.get(op, op)
                        rel = (op, tv)
                    elif atom == c.val:
                        rel = ("!=", tv)        # used as a truth value
                if rel is None:
                    continue
                n += 1
                strictly_less = rel in (("<", True), (">=", False))
                ctx.check(strictly_less, "R13.8", F, "the search moves on to the next node only after finding the current key strictly less than the searched key", c.node,
                          detail="decision on the comparison before advancing: cmp %s 0 is %s. If an equal key does not stop the search, the position returned lies "
                          "behind it and a second copy of the key can be linked. %s" % (rel[0], rel[1], R), sig="advance-strictly-less")
    if n < 4:
        ctx.broken("ordered-list search advance decisions not found (%d)" % n)
r13_8.rule_id = "R13.8"


def _conjuncts(sv):
    sv = noepoch(sv)
    if isinstance(sv, tuple) and sv[:2] == ("op", "&&") and len(sv) == 4:
        return _conjuncts(sv[2]) + _conjuncts(sv[3])
    return [sv]


def r13_9(ctx):
    """LazyList: a successful validation implies that the locked predecessor is not logically removed.  Either validate_link tests the
    predecessor's mark itself, or every store that sets the mark also redirects the removed node's link to the list head (which is never a
    search's 'current' node), so that 'pPred->m_pNext == pCur' cannot hold for a removed pPred (the comparison ignores the mark bit)."""
    n = 0
    groups = {}
    for F in ctx.db.funcs.values():
        if re.match(r"cds::intrusive::LazyList::", F.q):
            groups.setdefault(F.ct, []).append(F)
    for ct, fs in groups.items():
        vl = [F for F in fs if F.q.endswith("::validate_link")] or [F for F in fs if F.q.endswith("::validate")]
        if not vl:
            continue
        pcache = {}

        def paths_of(G):
            if id(G) not in pcache:
                try:
                    pcache[id(G)] = PathSim(G, bound=4000).run()
                except PathBoundExceeded:
                    pcache[id(G)] = None
            return pcache[id(G)]
        # B: marking stores
        marks = []      # (F, event, ptr value)
        for F in fs:
            if not Q.calls_in(F, r"std::atomic::(store|compare_exchange_(weak|strong)|exchange)$"):
                continue
            ps = paths_of(F)
            if ps is None:
                continue
            seen = set()
            for p in ps:
                for e in p.events:
                    if e.kind != "call" or not atomic_op(e) or atomic_op(e) == "load" or sv_field_path(e.obj)[-1:] != ["m_pNext"]:
                        continue
                    for a in e.args:
                        a = noepoch(a)
                        if isinstance(a, tuple) and a[:1] == ("obj",) and "marked_ptr" in str(a[1]) and isinstance(a[2], tuple) and len(a[2]) == 2 \
                                and isinstance(a[2][1], tuple) and a[2][1][:1] == ("c",) and a[2][1][1] not in (0, None):
                            k = (id(e.node), repr(a[2][0]))
                            if k not in seen:
                                seen.add(k)
                                marks.append((F, e, a[2][0]))
        if not marks:
            continue        # insert-only list: nothing is ever marked
        head = ("addr", ("fld", ("this",), "m_Head"))

        def start_node(F, ptr, depth=0):
            """ptr is the list head or the start node the operation was given: &m_Head, or a parameter that every in-class caller fills with a
            start node (a parameter of an entry point without in-class callers - SplitListSet passes a bucket's dummy head - counts)"""
            if ptr == head:
                return True
            if depth > 6 or not (isinstance(ptr, tuple) and ptr[:1] == ("p",)):
                return False
            idx = [i for i, pp in enumerate(F.params) if pp["d"] == ptr[1]]
            if not idx:
                return False
            for G in fs:
                if G is F or not Q.calls_in(G, re.escape(F.q) + "$"):
                    continue
                gps = paths_of(G)
                if gps is None:
                    return False
                for p in gps:
                    for x in p.events:
                        if x.kind == "call" and x.q == F.q and len(x.args) == len(F.params):
                            if not start_node(G, noepoch(x.args[idx[0]]), depth + 1):
                                return False
            return True
        not_head = [(F, e, ptr) for F, e, ptr in marks if not start_node(F, ptr)]
        for V in vl:
            for p in PathSim(V, bound=2000).run():
                if p.outcome != "return" or p.ret == C(0):
                    continue
                if any(e.kind == "branch" and isinstance(e.extra, tuple) and e.extra[0] == "&&" and e.extra[1] is False for e in p.events):
                    continue            # a conjunct was false: this path returns false
                pred = V.params[0]["d"] if V.params else None
                marked_calls = [noepoch(e.val) for e in p.events if e.kind == "call" and e.q and e.q.endswith("node::is_marked")
                                and isinstance(e.obj, tuple) and noepoch(e.obj)[:2] == ("p", pred)]
                conj = _conjuncts(p.ret) if p.ret is not None else []
                for e in p.events:
                    if e.kind == "branch" and isinstance(e.extra, tuple) and e.extra[0] != "switch":
                        atom, pol = norm_cond(e.val)
                        conj.append(noepoch(atom) if e.extra[1] == pol else ("un", "!", noepoch(atom)))
                a_ok = any(c == ("un", "!", m) for c in conj for m in marked_calls)
                n += 1
                ctx.check(a_ok or not not_head, "R13.9", V, "a successful validation implies the locked predecessor is not logically removed", None,
                          detail="validate_link does not test the predecessor's mark, and the marking store at %s keeps a link (%r) that is not the list head: "
                          "'pPred->m_pNext == pCur' ignores the mark bit and holds for a removed predecessor whose frozen forward link still names pCur - the new node "
                          "is linked behind a dead node (lost insert). %s"
                          % (", ".join("%s:%s" % (f.q.split("::")[-1], node_line(e.node)) for f, e, _ in not_head[:3]), not_head[0][2] if not_head else None, R),
                          sig="validate-pred-unmarked")
    if n < 2:
        ctx.broken("LazyList validate_link success paths not found (%d)" % n)
r13_9.rule_id = "R13.9"


RULES = [r13_1, r13_2, r13_3, r13_4, r13_5, r13_6, r13_7, r13_8, r13_9]
FLOORS = {"R13.1": 30, "R13.2": 100, "R13.3": 10, "R13.4": 10, "R13.5": 3, "R13.6": 20, "R13.7": 4, "R13.8": 4, "R13.9": 2}
