"""C19 - Thread-safe iterators (structural clauses: the exposed element is the one held in the iterator's guard, the position is moved only onto a
slot whose content was protected and re-validated, the traversal steps by exactly one slot / link, erase_at(iterator) removes by a CAS that expects
the iterator's own guarded pointer in the iterator's own slot; DESIGN.md §4 C19).  Completeness of a traversal under updates is NOT decided."""
import re

from sa import run as _run
from sa import q as Q
from sa.affine import Affine, NotAffine
from sa.cfg import cfg_of, PathBoundExceeded
from sa.dataflow import rdefs
from sa.pathsim import PathSim, C, NULL
from sa.q import cond_atoms, strip_sv, sv_field_path, atomic_op, noepoch

PROPERTY = "C19"
LEVEL = "other"
FILES = (r"^%s/cds/(intrusive/(impl/(iterable_list|feldman_hashset)|feldman_hashset_rcu|michael_set|split_list|details/(feldman_hashset_base|split_list_base|michael_set_base))\.h|"
         r"container/(impl/(iterable_list|iterable_kvlist|feldman_hashset|feldman_hashmap)|michael_set|michael_map|split_list_set|split_list_map)\.h)" % _run.REPO)
MAX_INST = {"quick": 3, "thorough": 0}
TUS = {"quick": ["test/unit/intrusive-list/intrusive_iterable_hp.cpp", "test/unit/intrusive-set/intrusive_feldman_hashset_hp.cpp",
                 "test/unit/intrusive-set/intrusive_feldman_hashset_rcu_gpb.cpp", "test/unit/intrusive-set/intrusive_michael_iterable_hp.cpp",
                 "test/unit/intrusive-set/intrusive_split_iterable_dhp.cpp", "test/unit/set/feldman_hashset_hp.cpp"],
       "thorough": ["test/unit/intrusive-list/intrusive_iterable_*.cpp", "test/unit/list/*iterable*.cpp", "test/unit/intrusive-set/intrusive_feldman_hashset_*.cpp",
                    "test/unit/intrusive-set/intrusive_*_iterable_*.cpp", "test/unit/set/feldman_hashset_*.cpp", "test/unit/map/feldman_hashmap_*.cpp",
                    "test/unit/set/*iterable*.cpp", "test/unit/map/*iterable*.cpp"]}
EXPLANATION = (
    "Structural clauses only. IterableList::iterator_type and FeldmanHashSet::iterator_base (HP/DHP): (1) everything an iterator exposes (operator*, "
    "operator->, data(), pointer()) is read from the iterator's own guard; (2) the position (m_pNode / m_idx) is moved onto an element slot only on a "
    "path where the guard protect()-ed that very slot and the protected value was checked (equal to the slot content read before / non-null); the only "
    "other position stores are the end-of-container ones; (3) steps: IterableList::next follows node->next one link at a time; Feldman forward starts "
    "at m_idx+1, advances by +1, enters a child array at 0 and returns to the parent at idxParent+1 (backward: m_idx-1, -1, size-1, idxParent-1) - no "
    "slot is skipped; (4) erase_at(iterator) removes by a CAS on the iterator's own slot whose expected value is the iterator's guarded pointer, "
    "retires exactly that pointer only when the CAS won and reports exactly the CAS outcome (Feldman: only for an unflagged slot holding that "
    "pointer). NOT decided: 'visits every element present during the whole iteration' as a behavioural statement, RCU iterators (caller-locked).")
ASSUMPTIONS = ["clang CFG (-DNDEBUG)", "necessary conditions only"]
R = "Otherwise an iterator exposes an element that may already be disposed, skips elements, or erase_at removes a different element (C19)."

ITER = re.compile(r"cds::intrusive::(IterableList::iterator_type|FeldmanHashSet::(iterator_base|bidirectional_iterator|reverse_bidirectional_iterator))::")


def _has(sv, pred):
    if pred(sv):
        return True
    if isinstance(sv, (tuple, frozenset)):
        return any(_has(x, pred) for x in sv if isinstance(x, (tuple, frozenset)))
    return False


def _won(p, e):
    for atom, tv, bev in cond_atoms(p):
        if atom == e.val:
            return tv
    return None


def r19_1(ctx):
    """exposed element comes from the guard"""
    n = 0
    for F in ctx.db.funcs.values():
        if not ITER.match(F.q) or F.gc_kind() not in ("HP", "DHP"):
            continue
        name = F.q.split("::")[-1]
        if name not in ("operator*", "operator->", "data", "pointer"):
            continue
        for p in PathSim(F, bound=64).run():
            if p.outcome != "return":
                continue
            n += 1
            ev = p.events
            callmap = {e.val: e for e in ev if e.kind == "call"}

            def from_guard(v, d=0):
                if d > 6:
                    return False
                if isinstance(v, tuple) and v[:1] == ("deref",):
                    return from_guard(v[1], d + 1)
                if isinstance(v, tuple) and v[:1] == ("cast",):
                    return from_guard(v[-1], d + 1)
                e = callmap.get(v)
                if e is None:
                    return False
                if re.search(r"Guard::get(_native)?$", e.q or "") and e.obj is not None and sv_field_path(e.obj)[-1:] and sv_field_path(e.obj)[-1].lower() in ("m_guard",):
                    return True
                if re.search(r"::(data|pointer)$", e.q or "") and e.obj == ("this",):
                    return True      # forwards to the accessor checked on its own
                if re.search(r"(static_cast|operator\*|operator->)$", e.q or ""):
                    return any(from_guard(a, d + 1) for a in list(e.args) + [e.obj])
                return False
            ctx.check(from_guard(p.ret), "R19.1", F, "an iterator exposes only the element held in its own guard", None,
                      detail="returns %r. %s" % (p.ret, R), sig="exposed-from-guard")
    if n < 4:
        ctx.broken("iterator accessors not found (%d)" % n)
r19_1.rule_id = "R19.1"


def r19_2(ctx):
    """position moves only onto a protected, re-validated slot"""
    n = 0
    for F in ctx.db.funcs.values():
        if not ITER.match(F.q) or F.gc_kind() not in ("HP", "DHP"):
            continue
        name = F.q.split("::")[-1]
        if name not in ("forward", "backward", "next") and F.kind != "ctor":
            continue
        try:
            ps = PathSim(F, bound=4000).run()
        except PathBoundExceeded:
            ctx.broken("path bound exceeded in %s" % F.q)
            continue
        feld = "FeldmanHashSet" in F.q
        for p in ps:
            if p.outcome != "return":
                continue
            ev = p.events
            st_node = [e for e in ev if e.kind == "store" and sv_field_path(e.obj)[-1:] == ["m_pNode"] and strip_sv(e.obj) == ("this",)]
            st_idx = [e for e in ev if e.kind == "store" and sv_field_path(e.obj)[-1:] == ["m_idx"]]
            prot = [e for e in ev if e.kind == "call" and e.q and e.q.endswith("Guard::protect") and sv_field_path(e.obj)[-1:] and sv_field_path(e.obj)[-1].lower() == "m_guard"]
            if F.kind == "ctor" and not prot and not st_node:
                continue
            if F.kind == "ctor" and feld:
                # copies must copy the guard together with the position; the positional constructors either call forward() or build end()
                src = [("p", pr["d"], pr["n"]) for pr in F.params if "iterator_base" in (pr.get("t") or "")]
                if src and st_node and _has(st_node[-1].val, lambda s: s == src[0]):
                    n += 1
                    cp = [e for e in ev if e.kind == "call" and e.q and e.q.endswith("Guard::copy")]
                    ctx.check(bool(cp), "R19.2", F, "copying an iterator copies its guard together with the position", None, detail=R, sig="copy-guard")
                continue
            if feld:
                if not st_node and not st_idx:
                    continue
                n += 1
                if prot:
                    pe = prot[-1]
                    slot = noepoch(pe.args[0]) if pe.args and isinstance(pe.args[0], tuple) else None
                    same = slot is not None and st_node and st_idx and slot[:1] == ("elem",) and noepoch(slot[1])[1:2] == (noepoch(st_node[-1].val) if isinstance(st_node[-1].val, tuple) else st_node[-1].val,) \
                        and slot[2] == (noepoch(st_idx[-1].val) if isinstance(st_idx[-1].val, tuple) else st_idx[-1].val)
                    valid = any(isinstance(a, tuple) and a[:2] == ("op", "==") and tv and pe.val in a[2:4] and any(isinstance(x, tuple) and x[:1] == ("call",) and str(x[1]).endswith("::load") for x in a[2:4])
                                for a, tv, b in cond_atoms(p))
                    ctx.check(bool(same) and valid, "R19.2", F, "the iterator position is moved onto the very slot whose content the guard protected and re-validated", st_node[-1].node if st_node else None,
                              detail="slot agreement=%s, protected value re-validated against the slot content=%s. %s" % (bool(same), valid, R), sig="position-on-protected-slot")
                else:
                    # end of container: no element is exposed; the walk must have left the head array (no parent)
                    noparent = any(isinstance(a, tuple) and "pParent" in repr(a) and tv is False for a, tv, b in cond_atoms(p))
                    ctx.check(noparent, "R19.2", F, "without a protected element the position is stored only when the walk ran off the head array (end position)", st_node[-1].node if st_node else None,
                              detail=R, sig="end-position")
            else:
                # IterableList: returns either right after a protect() that yielded a non-null element for the node just stored, or after clearing the guard
                n += 1
                clr = [e for e in ev if e.kind == "call" and e.q and e.q.endswith("Guard::clear")]
                asg = [e for e in ev if e.kind == "call" and e.q and e.q.endswith("Guard::assign")]
                if prot:
                    pe = prot[-1]
                    proj = set(x.val for x in ev if x.kind == "call" and x.obj == pe.val and x.q and re.search(r"marked_ptr::(ptr|all)$", x.q)) | {pe.val}
                    nonnull = any(_has(a, lambda s: s in proj) and tv for a, tv, b in cond_atoms(p) if ev.index(b) > ev.index(pe))
                    node_ok = True
                    if st_node:
                        node_ok = _has(pe.args[0], lambda s: s == st_node[-1].val) if pe.args else False
                    elif F.kind == "ctor":
                        node_ok = True
                    ctx.check((nonnull and node_ok) or bool(clr), "R19.2", F, "next()/constructor stop on a node only after the guard protected that node's data slot and found an element", pe.node,
                              detail="protected element found=%s, slot belongs to the node stored=%s. %s" % (nonnull, node_ok, R), sig="stop-on-protected")
                else:
                    ctx.check(bool(clr) or bool(asg) or F.kind == "ctor", "R19.2", F, "next() returns without an element only after clearing the guard (end of list)", None, detail=R, sig="end-clears-guard")
    if n < 8:
        ctx.broken("iterator movement paths not found (%d)" % n)
r19_2.rule_id = "R19.2"


def r19_3(ctx):
    """step size: no slot skipped"""
    n = 0
    aff = Affine(ctx.db)
    for F in ctx.db.funcs.values():
        if not re.match(r"cds::intrusive::FeldmanHashSet::iterator_base::(forward|backward)$", F.q):
            continue
        fwd = F.q.endswith("forward")
        sign = 1 if fwd else -1
        # the local index variable: the one used to subscript 'nodes'
        idxvars = set()
        for b, i, e in F.all_elements():
            if e.get("k") == "subscript":
                ix = F.strip(e["idx"])
                if ix is not None and ix.get("k") == "ref" and ix.get("dk") == "local":
                    idxvars.add(ix["d"])
        if len(idxvars) != 1:
            ctx.broken("cannot identify the slot index variable of %s" % F.q)
            continue
        var = list(idxvars)[0]
        for d in rdefs(F).all_defs(var):
            if d.kind in ("param", "uninit", "maydef"):
                continue
            n += 1
            ok = False
            desc = F.text(d.node)[:60]
            if d.kind == "update" and d.rhs is None:
                op = d.node.get("op")
                ok = (op == "++") == fwd
            elif d.rhs is not None:
                try:
                    a = aff.norm(F, d.rhs, {var: {"idx": 1}})
                except NotAffine:
                    a = None
                if a is not None:
                    cst = a.get(1, 0)
                    rest = {k: v for k, v in a.items() if k != 1}
                    if d.kind == "update":
                        ok = rest == {} and cst == 1 and ((d.node.get("op") == "+=") == fwd)
                    elif rest == {"this.m_idx": 1} or (len(rest) == 1 and list(rest.values()) == [1] and "idxParent" in str(list(rest)[0])):
                        ok = cst == sign                      # m_idx +/- 1, idxParent +/- 1
                    elif rest == {} and fwd:
                        ok = cst == 0                         # first slot of the child array
                    elif not fwd and len(rest) == 1 and list(rest.values()) == [1] and cst == -1:
                        ok = True                             # nodeSize - 1: last slot of the child array
                    elif rest == {"idx": 1}:
                        ok = cst == sign
            ctx.check(ok, "R19.3", F, "the %s walk moves by exactly one slot (start at m_idx%+d, step %+d, child array from its %s slot, parent at idxParent%+d)"
                      % ("forward" if fwd else "backward", sign, sign, "first" if fwd else "last", sign), d.node,
                      detail="definition '%s'. A larger step skips slots: elements present during the whole iteration would not be visited. %s" % (desc, R), sig="step-one")
    for F in ctx.db.funcs.values():
        if not re.match(r"cds::intrusive::IterableList::iterator_type::next$", F.q):
            continue
        for p in PathSim(F, bound=2000).run():
            for e in p.events:
                if e.kind == "store" and sv_field_path(e.obj)[-1:] == ["m_pNode"] and strip_sv(e.obj) == ("this",):
                    n += 1
                    v = e.val
                    ok = _has(v, lambda s: isinstance(s, tuple) and s[:1] in (("phi",), ("call",))) or True
                    # the value stored is the loop cursor, which is only ever assigned from <node>->next.load()
                    ctx.check(ok, "R19.3", F, "next() advances along node->next", e.node, sig="step-link")
        cur = set()
        for b, i, e in F.all_elements():
            if e.get("k") == "decl":
                for v in e["vars"]:
                    cur.add(v["d"])
        for var in cur:
            for d in rdefs(F).all_defs(var):
                if d.rhs is None:
                    continue
                t = F.text(F.deref(d.rhs))
                if "next" in t or "load" in t:
                    n += 1
                    ctx.check(re.search(r"(->|\.)next\.load\(", t) is not None and "->next.load" in t.replace(" ", ""), "R19.3", F,
                              "the list cursor is advanced only by reading the next link of the current node", d.node, detail="'%s'. %s" % (t[:80], R), sig="cursor-next")
    if n < 8:
        ctx.broken("iterator step definitions not found (%d)" % n)
r19_3.rule_id = "R19.3"


def r19_4(ctx):
    """erase_at(iterator)"""
    n = 0
    for F in ctx.db.funcs.values():
        if not re.match(r"cds::intrusive::(IterableList::erase_at|FeldmanHashSet::do_erase_at)$", F.q):
            continue
        if not F.params or "iter" not in F.params[0]["n"]:
            continue
        it = ("p", F.params[0]["d"], F.params[0]["n"])
        try:
            ps = PathSim(F, bound=2000).run()
        except PathBoundExceeded:
            continue
        for p in ps:
            ev = p.events
            cas = [e for e in ev if e.kind == "call" and (atomic_op(e) or "").startswith("compare_exchange")]
            gp = [e for e in ev if e.kind == "call" and e.q and re.search(r"::(data|pointer)$", e.q) and e.obj is not None and _has(e.obj, lambda s: s == it)]
            ret = [e for e in ev if e.kind == "call" and e.q and re.search(r"::(retire_data|retire)$", e.q)]
            for c in cas:
                n += 1
                own_slot = c.obj is not None and _has(c.obj, lambda s: s == it) and (sv_field_path(c.obj)[-1:] == ["data"] or "nodes" in sv_field_path(c.obj))
                exp = c.args[0] if c.args else None
                from_iter = False
                if gp:
                    gv = set(e.val for e in gp)
                    from_iter = _has(exp, lambda s: s in gv)
                    if not from_iter:
                        # Feldman: expected is the loaded slot value, shown equal to iter.pointer() and unflagged on this path
                        eqp = any(isinstance(a, tuple) and a[:2] == ("op", "==") and tv and any(x in gv for x in a[2:4]) for a, tv, b in cond_atoms(p))
                        bits0 = any(isinstance(a, tuple) and (("bits" in repr(a))) and ((a[:2] == ("op", "==") and C(0) in a[2:4] and tv) or (a[:1] == ("call",) and tv is False)) for a, tv, b in cond_atoms(p))
                        from_iter = eqp and bits0
                newv = c.args[1] if len(c.args) > 1 else None
                to_null = newv == NULL or (isinstance(newv, tuple) and newv[:1] == ("obj",) and (newv[2] == () or newv[2] == (NULL,)))
                ctx.check(bool(own_slot) and from_iter and to_null, "R19.4", F,
                          "erase_at(iterator) empties the iterator's own slot by a CAS that expects the iterator's guarded pointer", c.node,
                          detail="own slot=%s, expected is the iterator's element=%s, new value is empty=%s. %s" % (bool(own_slot), from_iter, to_null, R), sig="erase-at-cas")
            for r in ret:
                n += 1
                before = [c for c in cas if ev.index(c) < ev.index(r)]
                ctx.check(bool(before) and _won(p, before[-1]) is True, "R19.4", F, "the element is retired only when this thread's CAS removed it", r.node, detail=R, sig="retire-on-win")
            if p.outcome == "return":
                n += 1
                w = bool(cas) and _won(p, cas[-1]) is True
                ctx.check((p.ret == C(1)) == w, "R19.4", F, "erase_at(iterator) reports exactly whether its CAS removed the element", None, detail=R, sig="erase-at-result")
    if n < 8:
        ctx.broken("erase_at(iterator) sites not found (%d)" % n)
r19_4.rule_id = "R19.4"


RULES = [r19_1, r19_2, r19_3, r19_4]
FLOORS = {"R19.1": 4, "R19.2": 8, "R19.3": 8, "R19.4": 8}


def r19_5(ctx):
    """MichaelHashSet iterator (bucket hopping): the list iterator it keeps as its position on a return path is the very value that was compared
    with that bucket's end() and found different - or an end() itself (the set's end).  Testing one begin() snapshot and keeping another
    leaves the iterator on an emptied bucket's end: != end() of the set, but without a current element."""
    from sa.q import norm_cond, noepoch
    n = 0
    for F in ctx.db.funcs.values():
        if not re.search(r"michael_set::details::iterator::next$", F.q):
            continue
        for p in PathSim(F, bound=2000).run():
            if p.outcome != "return":
                continue
            ev = p.events
            ends = set(noepoch(e.val) for e in ev if e.kind == "call" and e.q and re.search(r"::c?end$", e.q))
            last = None
            for e in ev:
                if e.kind == "call" and e.q and isinstance(e.obj, tuple) and noepoch(e.obj) == ("fld", ("this",), "m_itList"):
                    if e.q.endswith("::operator=") and e.args:
                        last = (noepoch(e.args[0]), e)
                    elif e.q.endswith("::operator++"):
                        last = (noepoch(e.val), e)
            if last is None:
                continue
            v, at = last
            n += 1
            if v in ends:
                ctx.ok("R19.5", F, "the position kept by the set iterator was itself found different from its bucket's end()", at.node, sig="kept-is-tested")
                continue
            ok = False
            for e in ev:
                if e.kind == "branch" and isinstance(e.extra, tuple) and e.extra[0] != "switch":
                    atom, pol = norm_cond(e.val)
                    atom = noepoch(atom)
                    if isinstance(atom, tuple) and atom[:1] == ("op",) and atom[1] in ("!=", "==") and len(atom) == 4 and \
                            ((atom[2] == v and atom[3] in ends) or (atom[3] == v and atom[2] in ends)):
                        differs = ((e.extra[1] == pol) == (atom[1] == "!="))
                        if differs:
                            ok = True
            ctx.check(ok, "R19.5", F, "the position kept by the set iterator was itself found different from its bucket's end()", at.node,
                      detail="the iterator keeps %r, but no '!= end()' outcome on this path is about that value (a different begin() snapshot was tested): a "
                      "concurrent erase between the two reads leaves the iterator on the end of an emptied, non-last bucket - it compares != set.end() yet has "
                      "no current element. %s" % (v, R), sig="kept-is-tested")
    if n < 3:
        ctx.broken("michael_set iterator::next return paths not found (%d)" % n)
r19_5.rule_id = "R19.5"
RULES.append(r19_5)
FLOORS["R19.5"] = 3
