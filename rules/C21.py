"""C21 - Free lists never hand out a node twice and never lose one (structural clauses, DESIGN.md §4 C21)."""
import re

from sa import run as _run
from sa import q as Q
from sa.pathsim import PathSim, C, NULL
from sa.q import cond_atoms, path_end, strip_sv, sv_field_path, atomic_op, sv_affine, aff_sub, zero_facts, sv_mentions

PROPERTY = "C21"
LEVEL = "other"
FILES = r"^%s/cds/intrusive/free_list(_tagged|_cached)?\.h$" % _run.REPO
TUS = {"quick": ["/verif/drivers/freelists.cpp"], "thorough": ["/verif/drivers/freelists.cpp", "src/dhp.cpp", "test/stress/freelist/*.cpp"]}
EXPLANATION = (
    "Path rules: TaggedFreeList - the desired value of every head CAS carries tag = expected.tag + 1 recomputed from the current expected value, "
    "put links the node to the expected head before the CAS, get installs the expected head's successor; FreeList - the successor of the head is "
    "read only after a successful reference increment on a node whose count is non-zero, every successful increment is released exactly once "
    "(-2 when the head CAS won, -1 otherwise, re-adding the node when that drops the last reference of a node that should be on the list), put "
    "adds only when the previous count was 0, add_knowing_refcount_is_zero initialises next and count before publishing; CachedFreeList - a "
    "node leaves a cache cell only through a successful CAS to null and enters only through a CAS from null. Not decided: the bag property "
    "under interleavings.")
ASSUMPTIONS = ["clang CFG (-DNDEBUG)", "necessary conditions only"]
R = "Otherwise a node can be handed to two getters (ABA / premature reuse) or dropped (C21)."
SHOULD = 0x80000000


def _won(p, e):
    for atom, tv, bev in cond_atoms(p):
        if atom == e.val:
            return tv
    return None


def _obj_field_store(ev, upto, objsv, field):
    """last store to <objsv>.<field> before event index upto"""
    last = None
    for e in ev[:upto]:
        if e.kind == "store" and e.obj is not None and e.obj[0] == "fld" and e.obj[1] == objsv and e.obj[2] == field:
            last = e
    return last


def r21_1(ctx):
    """TaggedFreeList"""
    for name in ("put", "get"):
        fs = ctx.db.find(q="cds::intrusive::TaggedFreeList::" + name)
        if not fs:
            ctx.broken("TaggedFreeList::%s not instantiated (CDS_DCAS_SUPPORT off?)" % name)
        for F in fs:
            n = 0
            for p in PathSim(F, bound=256).run():
                ev = p.events
                for i, e in enumerate(ev):
                    if not (e.kind == "call" and (atomic_op(e) or "").startswith("compare_exchange") and sv_field_path(e.obj)[-1:] == ["m_Head"]):
                        continue
                    n += 1
                    exp, des = e.args[0], e.args[1]
                    tg = _obj_field_store(ev, i, des, "tag")
                    ok = tg is not None and isinstance(tg.val, tuple) and tg.val[0] == "op" and tg.val[1] == "+" and tg.val[3] == C(1) and \
                        tg.val[2][0] == "fld" and tg.val[2][1] == exp and tg.val[2][2] == "tag"
                    ctx.check(ok, "R21.1", F, "%s: the new head's tag is the current expected tag + 1" % name, e.node,
                              detail="tag stored: %r; expected head: %r. %s" % (tg.val if tg else None, exp, R), sig="tag-plus-one")
                    pt = _obj_field_store(ev, i, des, "ptr")
                    if name == "get":
                        ok2 = pt is not None and any(x.kind == "call" and atomic_op(x) == "load" and x.val == pt.val and
                                                    sv_field_path(x.obj)[-1:] == ["m_freeListNext"] and sv_mentions(x.obj, exp) for x in ev[:i])
                        ctx.check(ok2, "R21.1", F, "get: the new head is the successor of the expected head", e.node, detail=R, sig="get-next")
                        if _won(p, e):
                            ctx.check(p.outcome == "return" and isinstance(p.ret, tuple) and p.ret[0] == "fld" and p.ret[1] == exp and p.ret[2] == "ptr",
                                      "R21.1", F, "get: the node returned is the head that was removed", None, sig="get-ret")
                    else:
                        node = ("p", F.params[0]["d"], F.params[0]["n"])
                        lk = [x for x in ev[:i] if x.kind == "call" and atomic_op(x) == "store" and sv_field_path(x.obj)[-1:] == ["m_freeListNext"] and strip_sv(x.obj) == node]
                        ok2 = bool(lk) and isinstance(lk[-1].args[0], tuple) and lk[-1].args[0][0] == "fld" and lk[-1].args[0][1] == exp and lk[-1].args[0][2] == "ptr"
                        ctx.check(ok2, "R21.1", F, "put: the node is linked to the expected head before it is published", e.node, detail=R, sig="put-link")
            if n == 0:
                ctx.bad("R21.1", F, "no CAS on the list head", None, sig="no-cas")
r21_1.rule_id = "R21.1"


def r21_2(ctx):
    """FreeList::get / put / add_knowing_refcount_is_zero"""
    G = ctx.need("cds::intrusive::FreeList::get")[0]
    for p in PathSim(G, bound=1024).run():
        ev = p.events
        inc = [i for i, e in enumerate(ev) if e.kind == "call" and (atomic_op(e) or "").startswith("compare_exchange") and sv_field_path(e.obj)[-1:] == ["m_freeListRefs"]]
        hc = [i for i, e in enumerate(ev) if e.kind == "call" and (atomic_op(e) or "").startswith("compare_exchange") and sv_field_path(e.obj)[-1:] == ["m_Head"]]
        nx = [i for i, e in enumerate(ev) if e.kind == "call" and atomic_op(e) == "load" and sv_field_path(e.obj)[-1:] == ["m_freeListNext"]]
        dec = [i for i, e in enumerate(ev) if e.kind == "call" and atomic_op(e) == "fetch_sub" and sv_field_path(e.obj)[-1:] == ["m_freeListRefs"]]
        got_ref = bool(inc) and _won(p, ev[inc[0]]) is True
        for i in nx + hc:
            ctx.check(got_ref and inc[0] < i, "R21.2", G, "the head's successor is read (and the head CAS tried) only while holding a reference on the head",
                      ev[i].node, detail=R, sig="ref-before-next")
        if inc:
            e = ev[inc[0]]
            d = aff_sub(sv_affine(e.args[1]), sv_affine(e.args[0]))
            ctx.check(d == {1: 1}, "R21.2", G, "the reference CAS increments the count by one", e.node, sig="inc-one")
            # guarded by (refs & mask) != 0
            nz = False
            for atom, tv, bev in cond_atoms(p):
                if isinstance(atom, tuple) and atom[0] == "op" and atom[1] == "&" and (atom[3] == C(0x7FFFFFFF) or atom[2] == C(0x7FFFFFFF)) and tv:
                    nz = True
            ctx.check(nz, "R21.2", G, "a reference is taken only on a node whose count is non-zero", e.node, detail=R, sig="inc-nonzero")
        if got_ref and p.outcome in ("return", "back"):
            won_head = bool(hc) and _won(p, ev[hc[0]]) is True
            if len(dec) != 1:
                ctx.bad("R21.2", G, "a successful reference increment is released %d times on a path" % len(dec), ev[inc[0]].node, detail=R, sig="release-once")
                continue
            dv = ev[dec[0]].args[0]
            if won_head:
                ctx.check(dv == C(2) and p.outcome == "return", "R21.2", G, "after removing the head both its own and the list's reference are dropped (-2) and the node is returned",
                          ev[dec[0]].node, detail=R, sig="release-won")
                ctx.check(hc and ev[hc[0]].args[1] == ev[nx[0]].val if nx else False, "R21.2", G, "the head is replaced by the successor that was read under the reference",
                          ev[hc[0]].node, sig="head-next")
            else:
                ctx.check(dv == C(1), "R21.2", G, "a lost race drops only the own reference (-1)", ev[dec[0]].node, detail=R, sig="release-lost")
                adds = [e for e in ev if e.kind == "call" and e.q and e.q.endswith("add_knowing_refcount_is_zero")]
                last = None
                for d0, bev in zero_facts(p):
                    if d0.get(ev[dec[0]].val) in (1, -1) and abs(d0.get(1, 0)) == SHOULD + 1:
                        last = True
                ctx.check(bool(adds) == (last is True), "R21.2", G, "the node is re-added exactly when the dropped reference was the last one of a node that should be on the list",
                          ev[dec[0]].node, detail=R, sig="readd-last")
                if adds:
                    ctx.check(strip_sv(adds[0].args[0]) == strip_sv(ev[dec[0]].obj), "R21.2", G, "the node re-added is the one whose reference was dropped", adds[0].node, sig="readd-node")
    readds = 0
    for p in PathSim(G, bound=1024).run():
        if any(e.kind == "call" and e.q and e.q.endswith("add_knowing_refcount_is_zero") for e in p.events):
            readds += 1
    ctx.check(readds >= 1, "R21.2", G, "a getter that lost the race re-adds a node whose last reference it dropped (the result of the decrement is examined)",
              None, detail="no path of get() re-adds the node: a node put back while a getter held a reference is lost. " + R, sig="readd-exists")
    P = ctx.need("cds::intrusive::FreeList::put")[0]
    for p in PathSim(P, bound=64).run():
        if p.outcome != "return":
            continue
        ev = p.events
        fa = [e for e in ev if e.kind == "call" and atomic_op(e) == "fetch_add" and sv_field_path(e.obj)[-1:] == ["m_freeListRefs"]]
        adds = [e for e in ev if e.kind == "call" and e.q and e.q.endswith("add_knowing_refcount_is_zero")]
        ok = len(fa) == 1 and fa[0].args[0] == C(SHOULD)
        ctx.check(ok, "R21.2", P, "put sets the should-be-on-freelist flag by one fetch_add", fa[0].node if fa else None, sig="put-flag")
        if fa:
            zero = any(d0 == {fa[0].val: 1} or d0 == {fa[0].val: -1} for d0, b in zero_facts(p))
            ctx.check(bool(adds) == zero, "R21.2", P, "put links the node itself exactly when nobody held a reference (previous count 0)",
                      fa[0].node, detail=R, sig="put-add-zero")
    A = ctx.need("cds::intrusive::FreeList::add_knowing_refcount_is_zero")[0]
    for p in PathSim(A, bound=256).run():
        ev = p.events
        hc = [i for i, e in enumerate(ev) if e.kind == "call" and (atomic_op(e) or "").startswith("compare_exchange") and sv_field_path(e.obj)[-1:] == ["m_Head"]]
        if not hc:
            continue
        node = ("p", A.params[0]["d"], A.params[0]["n"])
        nxt = [i for i, e in enumerate(ev) if e.kind == "call" and atomic_op(e) == "store" and sv_field_path(e.obj)[-1:] == ["m_freeListNext"]]
        rf = [i for i, e in enumerate(ev) if e.kind == "call" and atomic_op(e) == "store" and sv_field_path(e.obj)[-1:] == ["m_freeListRefs"]]
        ok = nxt and rf and nxt[-1] < hc[0] and rf[-1] < hc[0] and ev[nxt[-1]].args[0] == ev[hc[0]].args[0] and ev[rf[-1]].args[0] == C(1) and ev[hc[0]].args[1] == node
        ctx.check(bool(ok), "R21.2", A, "the node's next (= expected head) and count (= 1) are set before the head CAS publishes it", ev[hc[0]].node, detail=R, sig="add-init")
        if nxt and rf:
            # the count leaving zero is what lets a stale getter (one that loaded this node as head earlier) take a reference and read the link:
            # the link must be written first and the count store must publish it (release)
            order = ev[rf[-1]].args[1] if len(ev[rf[-1]].args) > 1 else None
            rel = isinstance(order, tuple) and order[:1] == ("c",) and order[1] in (3, 4, 5)
            ctx.check(nxt[-1] < rf[-1] and rel, "R21.2", A, "the node's count leaves zero only after its next link was written, with a release store", ev[rf[-1]].node,
                      detail="link store before count store: %s, count store is a release store: %s. A getter that still holds this node as a stale head may increment the "
                      "count the moment it is non-zero and then reads the link: it must see the new one. %s" % (nxt[-1] < rf[-1], rel, R), sig="add-link-before-count")
        if _won(p, ev[hc[0]]) is False:
            fa = [e for e in ev[hc[0]:] if e.kind == "call" and atomic_op(e) == "fetch_add" and sv_field_path(e.obj)[-1:] == ["m_freeListRefs"]]
            ok2 = len(fa) == 1 and fa[0].args[0] == C(SHOULD - 1)
            ctx.check(ok2, "R21.2", A, "a failed publication turns the list reference back into the should-be-on-freelist flag", ev[hc[0]].node, detail=R, sig="add-fail")
            if fa:
                retry = p.outcome == "back"
                one = any((d0.get(fa[0].val) in (1, -1) and abs(d0.get(1, 0)) == 1 and len(d0) == 2) for d0, b in zero_facts(p))
                ctx.check(retry == one, "R21.2", A, "the publication is retried by this thread exactly when it still held the only reference", fa[0].node, sig="add-retry")
r21_2.rule_id = "R21.2"


def r21_3(ctx):
    """CachedFreeList: cache cells change only by CAS null<->node"""
    for name in ("put", "get"):
        for F in ctx.need("cds::intrusive::CachedFreeList::" + name):
            for p in PathSim(F, bound=512).run():
                ev = p.events
                for i, e in enumerate(ev):
                    if e.kind == "call" and (atomic_op(e) or "").startswith("compare_exchange"):
                        exp, des = e.args[0], e.args[1]
                        if name == "put":
                            ctx.check(exp == NULL and des == ("p", F.params[0]["d"], F.params[0]["n"]), "R21.3", F,
                                      "put: a node enters a cache cell only through CAS(null -> node)", e.node, detail=R, sig="cache-put")
                            if _won(p, e):
                                more = [x for x in ev[i:] if x.kind == "call" and x.q and x.q.endswith("::put")]
                                ctx.check(not more, "R21.3", F, "put: a cached node is not also put on the free list", e.node, detail=R, sig="cache-put-once")
                        else:
                            ctx.check(des == NULL, "R21.3", F, "get: a node leaves a cache cell only through a CAS to null", e.node, detail=R, sig="cache-get")
                            if _won(p, e) and p.outcome == "return":
                                ctx.check(p.ret == exp, "R21.3", F, "get: the node returned is the one the successful CAS removed", None, sig="cache-get-ret")
                    if e.kind == "call" and atomic_op(e) in ("store", "exchange") and name in ("put", "get"):
                        ctx.bad("R21.3", F, "%s writes a cache cell without CAS" % name, e.node, detail=R, sig="cache-raw-store")
            if name == "put":
                # on the path where the CAS failed the node goes to the underlying free list exactly once
                for p in PathSim(F, bound=64).run():
                    if p.outcome != "return":
                        continue
                    cas = [e for e in p.events if e.kind == "call" and (atomic_op(e) or "").startswith("compare_exchange")]
                    puts = [e for e in p.events if e.kind == "call" and e.q and e.q.endswith("::put")]
                    if cas and _won(p, cas[0]) is False:
                        ctx.check(len(puts) == 1, "R21.3", F, "put: a node that did not fit in the cache is put on the free list exactly once", None, detail=R, sig="cache-fallback")
                    elif cas and puts:
                        ctx.bad("R21.3", F, "put: the node is put on the free list although the cache CAS may have stored it (result not examined)",
                                puts[0].node, detail=R, sig="cache-put-unchecked")
r21_3.rule_id = "R21.3"


RULES = [r21_1, r21_2, r21_3]
FLOORS = {"R21.1": 4, "R21.2": 12, "R21.3": 5}
