"""C08 - SegmentedQueue (structural clauses: cell life cycle empty -> item -> item|deleted, success/empty results tied to the winning CAS /
the observed empty cell, new tail only after a full scan, head removal only after an exhausted scan, segment list mutated under its lock and
the removed segment retired after unlock; DESIGN.md §4 C08).  The quasi-FIFO bound and conservation under every schedule are NOT decided."""
import re

from sa import run as _run
from sa import q as Q
from sa.cfg import cfg_of, PathBoundExceeded
from sa.pathsim import PathSim, C, NULL
from sa.q import cond_atoms, path_end, strip_sv, sv_field_path, atomic_op, noepoch, lock_state, sv_mentions
from . import e2

PROPERTY = "C08"
LEVEL = "other"
FILES = r"^%s/cds/(intrusive|container)/segmented_queue\.h$" % _run.REPO
TUS = {"quick": ["test/unit/queue/intrusive_segmented_queue_hp.cpp", "test/unit/queue/segmented_queue_dhp.cpp"],
       "thorough": ["test/unit/queue/*segmented_queue*.cpp", "test/stress/queue/intrusive_push_pop.cpp"]}
EXPLANATION = (
    "Structural clauses only, decided on every path of SegmentedQueue::enqueue / do_dequeue / dequeue / clear_with and of "
    "segment_list::create_tail / remove_head: (1) a cell is written only by the segment initialiser (empty), by enqueue's CAS from the empty "
    "cell to the pushed item, and by do_dequeue's CAS from the loaded unmarked non-null item to the same item with the deleted bit - a cell "
    "never returns to empty; (2) enqueue reports success only on its winning CAS, counts the item once and asks for a new tail segment only "
    "after the permutation was exhausted (or no segment exists); (3) do_dequeue reports success only on its winning CAS of an item it had "
    "published in the caller's guard, reports empty only for a null head segment or after a whole scan that saw an empty cell, and removes "
    "the head only after a whole scan saw neither an empty nor a live cell; (4) the segment list and the head/tail pointers are modified only "
    "inside the list lock, remove_head pops only the segment the caller scanned, and retires exactly that segment after unlocking; the segment "
    "allocation size and initialised cell count agree with the quasi factor that indexes the cells; (5) HP guard discipline (E2). "
    "NOT decided: the quasi-FIFO bound, linearizability, conservation under every interleaving.")
ASSUMPTIONS = ["clang CFG (-DNDEBUG)", "necessary conditions only", "the permutation generator yields indices in [0, quasi_factor) (cds/opt/permutation.h is not part of C08's anchors)"]
R = "Otherwise an item is lost, dequeued twice or overtaken by more than a segment (C08)."

SQ = r"cds::intrusive::SegmentedQueue::"


def _cell(sv):
    fp = sv_field_path(sv)
    return fp[-1:] == ["data"] and "cells" in fp


def _has(sv, pred):
    if pred(sv):
        return True
    if isinstance(sv, (tuple, frozenset)):
        return any(_has(x, pred) for x in sv if isinstance(x, (tuple, frozenset)))
    return False


def _won(p, e):
    for atom, tv, bev in cond_atoms(p):
        if atom == e.val:
            return tv
    return None


def _truth(p, pred):
    """truth value of the last branch whose atom satisfies pred"""
    res = None
    for atom, tv, bev in cond_atoms(p):
        if pred(atom):
            res = tv
    return res


def _is_call(sv, suffix):
    return isinstance(sv, tuple) and len(sv) >= 2 and sv[0] == "call" and isinstance(sv[1], str) and sv[1].endswith(suffix)


def r08_1(ctx):
    """cell writers (WHO + transition shape)"""
    n = 0
    for F in ctx.db.funcs.values():
        if not F.q.startswith(SQ):
            continue
        writes = [c for c in Q.calls_in(F, r"std::(atomic|__atomic_base)::(store|exchange|compare_exchange_\w+|fetch_\w+)$")]
        if not writes:
            continue
        try:
            ps = PathSim(F, bound=4000).run()
        except PathBoundExceeded:
            ctx.broken("path bound exceeded in %s" % F.q)
            continue
        name = F.q[len("cds::intrusive::SegmentedQueue::"):]
        for p in ps:
            ev = p.events
            for i, e in enumerate(ev):
                op = atomic_op(e)
                if e.kind != "call" or op in (None, "load") or e.obj is None or not _cell(e.obj):
                    continue
                n += 1
                if name in ("segment::init", "segment::segment"):
                    ctx.check(op == "store", "R08.1", F, "the segment initialiser only stores the empty cell value", e.node, detail=R, sig="init-store")
                    continue
                if name == "enqueue":
                    ok = op.startswith("compare_exchange") and len(e.args) >= 2
                    exp_empty = ok and isinstance(e.args[0], tuple) and e.args[0][0] == "obj" and e.args[0][1].endswith("marked_ptr") and e.args[0][2] == ()
                    newv = e.args[1] if ok else None
                    new_is_val = ok and isinstance(newv, tuple) and newv[0] == "obj" and len(newv[2]) == 1 and _has(newv[2][0], lambda s: isinstance(s, tuple) and s[:1] == ("p",) and s[-1] == "val")
                    ctx.check(bool(exp_empty), "R08.1", F, "enqueue writes a cell only by a CAS whose expected value is the empty cell", e.node, detail=R, sig="enqueue-from-empty")
                    ctx.check(bool(new_is_val), "R08.1", F, "enqueue's CAS installs exactly the pushed item (unmarked)", e.node, detail=R, sig="enqueue-installs-val")
                    continue
                if name == "do_dequeue":
                    ok = op.startswith("compare_exchange") and len(e.args) >= 2
                    exp = e.args[0] if ok else None
                    loaded = ok and _is_call(exp, "::load") and any(x.kind == "call" and x.val == exp and x.obj is not None and noepoch(x.obj) == noepoch(e.obj) for x in ev[:i])
                    ctx.check(bool(loaded), "R08.1", F, "do_dequeue's CAS expects the value it loaded from the same cell", e.node, detail=R, sig="dequeue-expected-loaded")
                    newv = e.args[1] if ok else None
                    marks = ok and _is_call(newv, "operator|") and any(x.kind == "call" and x.val == newv and x.args and x.args[0] == exp and x.args[1] == C(1) for x in ev[:i])
                    ctx.check(bool(marks), "R08.1", F, "do_dequeue's CAS installs the same item with only the deleted bit added (never the empty value)", e.node, detail=R, sig="dequeue-marks")
                    nonnull = _truth(p, lambda a: _is_call(a, "marked_ptr::ptr") and any(x.kind == "call" and x.val == a and x.obj == exp for x in ev[:i]))
                    unmarked = _truth(p, lambda a: _is_call(a, "marked_ptr::bits") and any(x.kind == "call" and x.val == a and x.obj == exp for x in ev[:i]))
                    ctx.check(nonnull is True and unmarked is False, "R08.1", F, "do_dequeue marks a cell only when it holds a live item (non-null, deleted bit clear)", e.node,
                              detail=R, sig="dequeue-live-only")
                    pub = any(x.kind == "call" and x.q and x.q.endswith("Guard::assign") and x.args and any(y.kind == "call" and y.val == x.args[-1] and y.obj == exp and y.q.endswith("marked_ptr::ptr") for y in ev[:i])
                              and _has(x.obj, lambda s: isinstance(s, tuple) and s[:1] == ("p",) and s[-1] == "itemGuard") for x in ev[:i])
                    ctx.check(pub, "R08.1", F, "the item is published in the caller's guard before the CAS that takes it", e.node,
                              detail="dequeue() returns the guard's content. " + R, sig="dequeue-guarded")
                    continue
                ctx.bad("R08.1", F, "a segment cell is written outside init / enqueue / do_dequeue", e.node, detail=R, sig="foreign-cell-writer")
    if n < 6:
        ctx.broken("cell writes not found (%d)" % n)
r08_1.rule_id = "R08.1"


def _scan_done(p, upto):
    """gen.next() was observed false (DoStmt exit) before event index upto"""
    res = None
    for atom, tv, bev in cond_atoms(p):
        if _is_call(atom, "::next") and p.events.index(bev) < upto:
            res = tv
    return res is False


def r08_2(ctx):
    """enqueue"""
    n = 0
    for F in ctx.need("cds::intrusive::SegmentedQueue::enqueue"):
        cfg = cfg_of(F)
        inloop = set()
        for h, body in cfg.loops().items():
            inloop |= set(body)
        for p in PathSim(F, bound=4000).run():
            ev = p.events
            cas = [e for e in ev if e.kind == "call" and (atomic_op(e) or "").startswith("compare_exchange") and e.obj is not None and _cell(e.obj)]
            if p.outcome == "return":
                n += 1
                ctx.check(p.ret == C(1) and cas and _won(p, cas[-1]) is True, "R08.2", F, "enqueue returns (true) only on the path where its cell CAS succeeded", None, detail=R, sig="enqueue-success")
                inc = [e for e in ev if e.kind == "call" and e.q and re.search(r"item_counter::operator\+\+$", e.q)]
                ctx.check(len(inc) == 1, "R08.2", F, "the item counter is incremented exactly once per enqueue", None, detail=R, sig="enqueue-count")
            for i, e in enumerate(ev):
                if e.kind == "call" and e.q and re.search(r"item_counter::operator", e.q):
                    ctx.check(e.site[0] not in inloop, "R08.2", F, "the item counter is not touched inside the retry loops", e.node, detail=R, sig="enqueue-count-loop")
                if e.kind == "call" and e.q and e.q.endswith("segment_list::create_tail"):
                    n += 1
                    nullseg = _truth(p, lambda a: isinstance(a, tuple) and _is_call(a if a[0] == "call" else (a[1] if len(a) > 1 and isinstance(a[1], tuple) else ()), "segment_list::tail"))
                    first = not any(x.kind == "branch" and x.extra and x.extra[0] in ("DoStmt",) for x in ev[:i])
                    ctx.check(_scan_done(p, i) or (first and nullseg is False), "R08.2", F,
                              "a new tail segment is requested only when no segment exists or after every cell of the current tail was found occupied", e.node,
                              detail="otherwise items are spread over more than one segment and the quasi-factor bound breaks. " + R, sig="new-tail-after-scan")
    if n < 4:
        ctx.broken("enqueue paths not found (%d)" % n)
r08_2.rule_id = "R08.2"


def r08_3(ctx):
    """do_dequeue / dequeue / clear_with"""
    n = 0
    for F in ctx.need("cds::intrusive::SegmentedQueue::do_dequeue"):
        # the 'saw an empty cell' flag is set only where the loaded cell was null
        allp = PathSim(F, bound=4000).run()
        for b, i, e in F.all_elements():
            if e.get("k") == "bin" and e.get("op") == "=" and "bHadNullValue" in F.text(F.deref(e["lhs"])):
                site = e["_site"]
                for p in allp:
                    ev = p.events
                    if site[0] not in p.blocks:
                        continue
                    n += 1
                    # last 'item.ptr()' decision taken before the assignment's block is entered
                    res = None
                    for atom, tv, bev in cond_atoms(p):
                        if bev.site is not None and p.blocks.index(bev.site[0]) < p.blocks.index(site[0]) and _is_call(atom, "marked_ptr::ptr") and \
                                any(x.kind == "call" and x.val == atom and _is_call(x.obj, "::load") for x in ev):
                            res = tv
                    ctx.check(res is False, "R08.3", F, "the empty-cell flag is set only when the scanned cell held no item", e, detail=R, sig="flag-on-null")
        for p in allp:
            ev = p.events
            cas = [e for e in ev if e.kind == "call" and (atomic_op(e) or "").startswith("compare_exchange") and e.obj is not None and _cell(e.obj)]
            if p.outcome == "return" and p.ret == C(1):
                n += 1
                ctx.check(bool(cas) and _won(p, cas[-1]) is True, "R08.3", F, "do_dequeue reports an item only on the path where its cell CAS succeeded", None, detail=R, sig="dequeue-success")
                dec = [e for e in ev if e.kind == "call" and e.q and re.search(r"item_counter::operator--$", e.q)]
                ctx.check(len(dec) == 1, "R08.3", F, "the item counter is decremented exactly once per successful dequeue", None, detail=R, sig="dequeue-count")
            elif p.outcome == "return":
                n += 1
                ctx.check(p.ret == C(0), "R08.3", F, "do_dequeue returns a boolean constant", None, sig="dequeue-ret")
                last = cond_atoms(p)[-1] if cond_atoms(p) else None
                okk = False
                if last is not None:
                    atom, tv, bev = last
                    txt = F.text(bev.node) if bev.node is not None else ""
                    if "pHeadSegment" in txt and "cells" not in txt:
                        okk = True          # null head segment
                    elif "bHadNullValue" in txt and _scan_done(p, len(ev)):
                        okk = (tv is True) if not txt.strip().startswith("!") else (tv is False)
                ctx.check(okk, "R08.3", F, "empty is reported only for a null head segment or after a complete scan that saw an empty cell", None,
                          detail="an early 'empty' misses items whose enqueue completed before the call. " + R, sig="empty-after-scan")
                ctx.check(not any(e.kind == "call" and e.q and "item_counter::operator" in e.q for e in ev), "R08.3", F, "a failed dequeue leaves the item counter alone", None, sig="dequeue-count")
            for i, e in enumerate(ev):
                if e.kind == "call" and e.q and e.q.endswith("segment_list::remove_head"):
                    n += 1
                    flag = None
                    for atom, tv, bev in cond_atoms(p):
                        if bev.node is not None and "bHadNullValue" in F.text(bev.node) and ev.index(bev) < i:
                            flag = tv
                    ctx.check(_scan_done(p, i) and flag is False, "R08.3", F, "the head segment is removed only after a complete scan found every cell dequeued (no empty, no live cell)",
                              e.node, detail=R, sig="remove-head-after-exhausted")
                    seg = e.args[0] if e.args else None
                    ctx.check(seg is not None and any(x.kind == "call" and atomic_op(x) == "load" and x.obj is not None and _cell(x.obj) and _has(x.obj, lambda s: s == seg) for x in ev[:i]),
                              "R08.3", F, "remove_head is given the segment that was scanned", e.node, detail=R, sig="remove-scanned")
    for F in ctx.db.funcs.values():
        if not re.match(SQ + r"(dequeue|clear_with)$", F.q):
            continue
        for p in PathSim(F, bound=512).run():
            ev = p.events
            for i, e in enumerate(ev):
                if e.kind == "call" and e.q and re.search(r"Guard::get$", e.q):
                    n += 1
                    dq = [x for x in ev[:i] if x.kind == "call" and x.q and x.q.endswith("::do_dequeue")]
                    ctx.check(bool(dq) and _won(p, dq[-1]) is True, "R08.3", F, "the guard's item is used only when do_dequeue() reported success", e.node, detail=R, sig="item-on-success")
                    if dq:
                        g = dq[-1].args[0] if dq[-1].args else None
                        same = e.obj is not None and g is not None and (noepoch(strip_sv(e.obj)) == noepoch(strip_sv(g)) or
                                                                        (isinstance(e.obj, tuple) and e.obj[:1] == ("out",) and str(e.obj[2]).endswith("::do_dequeue")))
                        ctx.check(same, "R08.3", F,
                                  "the returned item comes from the guard do_dequeue() filled", e.node, sig="item-same-guard")
            if F.q.endswith("::dequeue") and p.outcome == "return":
                dq = [x for x in ev if x.kind == "call" and x.q and x.q.endswith("::do_dequeue")]
                if dq and _won(p, dq[-1]) is False:
                    ctx.check(p.ret == NULL or p.ret == C(0), "R08.3", F, "dequeue returns nullptr when do_dequeue() found nothing", None, sig="null-on-empty")
    if n < 10:
        ctx.broken("dequeue paths not found (%d)" % n)
r08_3.rule_id = "R08.3"


LISTOP = re.compile(r"boost::intrusive::slist\w*::(push_back|push_front|pop_front|clear|clear_and_dispose|erase\w*|insert\w*|back|front|empty|begin|end|size)$")
LISTMUT = re.compile(r"::(push_back|push_front|pop_front|clear|clear_and_dispose|erase\w*|insert\w*)$")


def r08_4(ctx):
    """segment list"""
    n = 0
    for F in ctx.db.funcs.values():
        if not re.match(SQ + r"segment_list::(create_tail|remove_head)$", F.q):
            continue
        name = F.q.split("::")[-1]
        for p in PathSim(F, bound=4000).run():
            ev = p.events
            held = lock_state(p, lambda o: sv_field_path(o)[-1:] == ["m_Lock"])
            popped = None
            for i, e in enumerate(ev):
                if e.kind != "call" or not e.q:
                    continue
                op = atomic_op(e)
                if LISTOP.search(e.q) and e.obj is not None and sv_field_path(e.obj)[-1:] == ["m_List"]:
                    n += 1
                    ctx.check(held[i] >= 1, "R08.4", F, "the segment list is accessed only while its lock is held", e.node, detail=R, sig="list-under-lock")
                    if e.q.endswith("::pop_front"):
                        popped = i
                        # only the caller's (scanned) head is popped
                        same = None
                        for atom, tv, bev in cond_atoms(p):
                            if ev.index(bev) < i and isinstance(atom, tuple) and atom[0] == "op" and atom[1] in ("!=", "==") and \
                                    _has(atom, lambda s: isinstance(s, tuple) and s[:1] == ("p",) and s[-1] == "pHead") and \
                                    _has(atom, lambda s: _is_call(s, "::front")):
                                same = (tv is False) if atom[1] == "!=" else (tv is True)
                        ctx.check(same is True, "R08.4", F, "remove_head pops the front segment only when it is the segment the caller scanned", e.node,
                                  detail="otherwise a segment that still holds live items is dropped. " + R, sig="pop-scanned-head")
                if op in ("store", "exchange") and e.obj is not None and sv_field_path(e.obj)[-1:] in (["m_pHead"], ["m_pTail"]):
                    n += 1
                    ctx.check(held[i] >= 1, "R08.4", F, "m_pHead / m_pTail are written only while the list lock is held", e.node, detail=R, sig="ptr-under-lock")
                if e.q.endswith("::retire_segment"):
                    n += 1
                    ctx.check(held[i] == 0, "R08.4", F, "the removed segment is retired after the list lock is released", e.node, detail=R, sig="retire-outside-lock")
                    ctx.check(popped is not None, "R08.4", F, "a segment is retired only on the path that popped it from the list", e.node, detail=R, sig="retire-after-pop")
                    ctx.check(bool(e.args) and isinstance(e.args[0], tuple) and e.args[0][:1] == ("p",) and e.args[0][-1] == "pHead", "R08.4", F,
                              "the retired segment is the popped one (the caller's head)", e.node, detail=R, sig="retire-popped")
                if e.q.endswith("::allocate_segment"):
                    n += 1
                    ctx.check(held[i] >= 1, "R08.4", F, "a segment is created only while the list lock is held", e.node, detail=R, sig="alloc-under-lock")
                    # only when the caller's tail is still the last segment (or the list is empty)
                    stale = None
                    for atom, tv, bev in cond_atoms(p):
                        if ev.index(bev) < i and isinstance(atom, tuple) and atom[0] == "op" and atom[1] in ("!=", "==") and \
                                _has(atom, lambda s: isinstance(s, tuple) and s[:1] == ("p",) and s[-1] == "pTail") and _has(atom, lambda s: _is_call(s, "::back")):
                            stale = (tv is True) if atom[1] == "!=" else (tv is False)
                    empty = None
                    for atom, tv, bev in cond_atoms(p):
                        if ev.index(bev) < i and _is_call(atom, "::empty"):
                            empty = tv if empty is None else empty
                    ctx.check(empty is True or stale is False, "R08.4", F, "a new segment is appended only when the caller's tail is still the last segment (or the list is empty)",
                              e.node, detail="otherwise two threads that both found the tail full each append a segment. " + R, sig="alloc-current-tail")
            if name == "create_tail" and any(e.kind == "call" and e.q and e.q.endswith("::allocate_segment") for e in ev) and p.outcome == "return":
                al = [e for e in ev if e.kind == "call" and e.q and e.q.endswith("::allocate_segment")][0]
                pb = [e for e in ev if e.kind == "call" and e.q and e.q.endswith("::push_back") and e.args and _has(e.args[0], lambda s: s == al.val)]
                st = [e for e in ev if e.kind == "call" and atomic_op(e) == "store" and sv_field_path(e.obj)[-1:] == ["m_pTail"] and e.args and e.args[0] == al.val]
                ctx.check(bool(pb) and bool(st), "R08.4", F, "the new segment is appended to the list and published as the tail", al.node, detail=R, sig="new-segment-linked")
                ga = [e for e in ev if e.kind == "call" and e.q and e.q.endswith("Guard::assign") and e.args and e.args[-1] == al.val]
                ctx.check(bool(ga), "R08.4", F, "the new tail is handed to the caller's guard", al.node, sig="new-segment-guarded")
            if p.outcome == "return":
                ctx.check(held[-1] == 0, "R08.4", F, "the list lock is released on every exit", None, sig="lock-balanced")
    # allocation size and initialised count agree with the quasi factor used for indexing
    for F in ctx.need("cds::intrusive::SegmentedQueue::segment_list::allocate_segment"):
        for c in Q.calls_in(F, r"::NewBlock$"):
            n += 1
            a = [F.deref(x) for x in c.get("args", [])]

            def strip(x):
                for _ in range(6):
                    x = F.deref(x)
                    if isinstance(x, dict) and x.get("k") in ("w", "cast"):
                        x = x["sub"]
                    else:
                        break
                return x

            def is_q(x):
                x = strip(x)
                return isinstance(x, dict) and ((x.get("k") == "member" and x.get("n") == "m_nQuasiFactor") or (x.get("k") == "call" and (x.get("q") or "").endswith("::quasi_factor")))

            def szof(x, what):
                x = strip(x)
                return isinstance(x, dict) and x.get("k") == "sizeof" and (x.get("st") is None or re.search(what, x["st"]) is not None)
            sz = strip(a[0]) if a else None
            ok = isinstance(sz, dict) and sz.get("k") == "bin" and sz.get("op") == "+"
            if ok:
                l, r = strip(sz["lhs"]), strip(sz["rhs"])
                if szof(r, r"segment$"):
                    l, r = r, l
                ok = szof(l, r"segment$") and isinstance(r, dict) and r.get("k") == "bin" and r.get("op") == "*" and \
                    ((szof(r["lhs"], r"cell$|atomic|padding") and is_q(r["rhs"])) or (szof(r["rhs"], r"cell$|atomic|padding") and is_q(r["lhs"])))
            ctx.check(bool(ok), "R08.4", F, "a segment block has room for quasi-factor cells after the header (sizeof(segment) + sizeof(cell) * quasi factor)", c, detail=R, sig="alloc-size")
            ctx.check(len(a) >= 2 and is_q(a[1]), "R08.4", F, "the segment initialises exactly quasi-factor cells", c, detail=R, sig="alloc-count")
    for F in ctx.need("cds::intrusive::SegmentedQueue::SegmentedQueue"):
        ok = False
        for b, i, e in F.all_elements():
            if e.get("k") in ("ctor", "construct") and "segment_list" in (e.get("q") or ""):
                ok = "ceil2" in F.text(e)
                n += 1
        ctx.check(ok, "R08.4", F, "the quasi factor handed to the segment list is rounded up to a power of two", None,
                  detail="random2_permutation masks with (n-1). " + R, sig="ceil2")
    if n < 20:
        ctx.broken("segment list sites not found (%d)" % n)
r08_4.rule_id = "R08.4"


def r08_5(ctx):
    fs = [f for f in ctx.db.funcs.values() if f.q.startswith(SQ) or f.q.startswith("cds::container::SegmentedQueue::")]
    a, s = e2.rule_guard_discipline(ctx, "R08.5", fs, R)
    if a < 6:
        ctx.broken("only %d SegmentedQueue members analysed for guard discipline" % a)
r08_5.rule_id = "R08.5"


RULES = [r08_1, r08_2, r08_3, r08_4, r08_5]
FLOORS = {"R08.1": 10, "R08.2": 6, "R08.3": 12, "R08.4": 20, "R08.5": 6}
