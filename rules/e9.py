"""E9 - path-effect consistency: item counter, functor new-item flag and return value agree on every returning path."""
import re

from sa import q as Q
from sa.cfg import cfg_of, PathBoundExceeded
from sa.pathsim import PathSim, C, NULL
from sa.q import cond_atoms

CNT = re.compile(r"item_counter::operator(\+\+|--)$|item_counter::(inc|dec)$")
ELIM = re.compile(r"elimination|::backoff$")


def classify_ret(r):
    if r is None:
        return "void"
    if r == C(1):
        return "true"
    if r == C(0):
        return "false"
    if r == NULL:
        return "null"
    if isinstance(r, tuple) and r and r[0] == "pair":
        a = r[1][1] if isinstance(r[1], tuple) and r[1][0] == "c" else "?"
        b = r[2][1] if isinstance(r[2], tuple) and r[2][0] == "c" else "?"
        return "pair(%s,%s)" % (a, b)
    return "val"


def counter_ops(p):
    return ["++" if ("++" in e.q or e.q.endswith("inc")) else "--" for e in p.events if e.kind == "call" and e.q and CNT.search(e.q)]


def functor_flags(p):
    """leading constant bool passed to a functor that is a parameter of the function (insert/update callbacks)"""
    out = []
    for e in p.events:
        if e.kind == "call" and e.q and e.q.endswith("operator()") and e.obj is not None and isinstance(e.obj, tuple) and e.obj[0] == "p" \
                and e.args and e.args[0] in (C(0), C(1)):
            out.append((e.args[0][1], e))
    return out


def eliminated(p):
    for atom, tv, bev in cond_atoms(p):
        if tv and isinstance(atom, tuple) and atom[0] in ("call", "callv") and ELIM.search(str(atom[1])):
            return True
    return False


def rule_counter_return(ctx, rid, file_re, bound=3000, reason=""):
    rx = re.compile(file_re)
    analysed = skipped = 0
    families = set()
    for F in ctx.db.funcs.values():
        if not rx.search(F.file):
            continue
        if not any(e.get("k") == "call" and e.get("q") and CNT.search(e["q"]) for _, _, e in F.all_elements()):
            continue
        try:
            ps = PathSim(F, bound=bound).run()
        except PathBoundExceeded:
            skipped += 1
            continue
        analysed += 1
        families.add(F.cls)
        ctx.paths += len(ps)
        rets = [p for p in ps if p.outcome == "return"]
        kinds = set(classify_ret(p.ret) for p in rets)
        has_inc = any("++" in counter_ops(p) for p in rets)
        has_dec = any("--" in counter_ops(p) for p in rets)
        name = F.q.split("::")[-1]
        if name in ("clear", "clear_array", "destroy", "~" + (F.cls or "").split("::")[-1]):
            continue
        for p in rets:
            ops = counter_ops(p)
            rk = classify_ret(p.ret)
            node = p.events[-1].node if p.events else None
            if len(ops) > 1:
                ctx.bad(rid, F, "the item counter is changed %d times on one path of %s" % (len(ops), name), node, detail=reason, sig="counter-twice")
                continue
            if ops:
                ok = rk in ("true", "val", "void", "pair(1,1)") if ops[0] == "++" else rk in ("true", "val", "void")
                ctx.check(ok, rid, F, "%s: the item counter is %s only on a path that reports success" % (name, "incremented" if ops[0] == "++" else "decremented"),
                          node, detail="path returns %s. %s" % (rk, reason), sig="counter-on-failure:%s" % ops[0])
            else:
                if rk == "pair(1,1)" and has_inc:
                    ctx.bad(rid, F, "%s reports a new item (true,true) on a path that does not increment the item counter" % name, node,
                            detail=reason, sig="new-item-not-counted")
                elif rk == "true" and (has_inc != has_dec) and "pair(1,1)" not in kinds and not eliminated(p):
                    ctx.bad(rid, F, "%s reports success on a path that leaves the item counter unchanged" % name, node,
                            detail="other success paths of the function %s it. %s" % ("increment" if has_inc else "decrement", reason), sig="success-not-counted")
                else:
                    ctx.ok(rid, F, "%s: failure/neutral path leaves the counter unchanged" % name, node, sig="neutral")
            # functor flags (update-like functions)
            fl = functor_flags(p)
            if rk.startswith("pair("):
                for b, e in fl:
                    want = "pair(1,1)" if b else "pair(1,0)"
                    ctx.check(rk == want, rid, F, "%s: functor called with bNew=%s on a path returning %s" % (name, bool(b), want), e.node,
                              detail="path returns %s. %s" % (rk, reason), sig="flag-vs-return:%d" % b)
                    if b:
                        ctx.check(ops == ["++"], rid, F, "%s: an item announced as new to the functor is counted" % name, e.node, detail=reason, sig="flag-new-counted")
                if rk == "pair(0,0)":
                    ctx.check(not fl, rid, F, "%s: no functor call on the (false,false) path" % name, node, detail=reason, sig="flag-on-failure")
            elif rk in ("false", "null"):
                ins = [e for b, e in fl]
                ctx.check(not ins, rid, F, "%s: the insert/update functor is not called on a failing path" % name, node, detail=reason, sig="functor-on-failure")
    return analysed, skipped, families


def rule_size_reads_counter(ctx, rid, file_re):
    rx = re.compile(file_re)
    n = 0
    for F in ctx.db.funcs.values():
        if not rx.search(F.file) or not F.q.endswith("::size") or F.params:
            continue
        uses_counter = any(x.get("k") == "member" and x.get("n") == "m_ItemCounter" for _, _, e in F.all_elements() for x in F.walk(e))
        calls_size = any(e.get("k") == "call" and e.get("q", "").endswith("::size") for _, _, e in F.all_elements())
        cls_has = any(g.cls == F.cls and any(x.get("k") == "member" and x.get("n") == "m_ItemCounter" for _, _, e in g.all_elements() for x in g.walk(e))
                      for g in ctx.db.by_q.get(F.cls + "::insert", []) + ctx.db.by_q.get(F.cls + "::insert_at", []) + ctx.db.by_q.get(F.cls + "::enqueue", []))
        if not cls_has:
            continue
        n += 1
        ctx.check(uses_counter or calls_size, rid, F, "size() reports the item counter", None, sig="size-counter")
    return n
