"""E9 - path-effect consistency: item counter, functor new-item flag and return value agree on every returning path."""
import re

from sa import q as Q
from sa.cfg import cfg_of, PathBoundExceeded
from sa.pathsim import PathSim, C, NULL
from sa.q import cond_atoms

CNT = re.compile(r"item_counter::operator(\+\+|--)$|item_counter::(inc|dec)$")
ELIM = re.compile(r"elimination|::backoff$")


def classify_ret(r):
    if r is None:
        return "void"
    if r == C(1):
        return "true"
    if r == C(0):
        return "false"
    if r == NULL:
        return "null"
    if isinstance(r, tuple) and r and r[0] == "pair":
        a = r[1][1] if isinstance(r[1], tuple) and r[1][0] == "c" else "?"
        b = r[2][1] if isinstance(r[2], tuple) and r[2][0] == "c" else "?"
        return "pair(%s,%s)" % (a, b)
    return "val"


def effective_ret(p):
    """the returned value with the path's member stores into a returned local pair applied (bRet.second = true; return bRet;)"""
    r = p.ret
    if isinstance(r, tuple) and r and r[0] == "pair" and len(r) == 3:
        a, b = r[1], r[2]
        for e in p.events:
            if e.kind == "store" and isinstance(e.obj, tuple) and e.obj[:1] == ("fld",) and e.obj[1] == r:
                if e.obj[2] == "first":
                    a = e.val
                elif e.obj[2] == "second":
                    b = e.val
        return ("pair", a, b)
    return r


def uncertain_null(p):
    """the path returns null only because a symbolic pointer (not a literal, not a boolean call result) tested false in the deciding branch: the
    engine cannot tell whether that pointer can be null there (e.g. 'return pDel ? to_value_ptr( pDel ) : nullptr' after pDel = pos.pCur)"""
    if p.ret != NULL:
        return False
    atoms = cond_atoms(p)
    if not atoms:
        return False
    atom, tv, bev = atoms[-1]
    if tv is not False:
        return False
    return isinstance(atom, tuple) and atom[:1] in (("fld",), ("elem",), ("phi",), ("p",), ("init",))


def counter_ops(p):
    return ["++" if ("++" in e.q or e.q.endswith("inc")) else "--" for e in p.events if e.kind == "call" and e.q and CNT.search(e.q)]


def functor_flags(p):
    """leading constant bool passed to a functor that is a parameter of the function (insert/update callbacks)"""
    out = []
    for e in p.events:
        if e.kind == "call" and e.q and e.q.endswith("operator()") and e.obj is not None and isinstance(e.obj, tuple) and e.obj[0] == "p" \
                and e.args and e.args[0] in (C(0), C(1)):
            out.append((e.args[0][1], e))
    return out


def eliminated(p):
    for atom, tv, bev in cond_atoms(p):
        if tv and isinstance(atom, tuple) and atom[0] in ("call", "callv") and ELIM.search(str(atom[1])):
            return True
    return False


def rule_counter_return(ctx, rid, file_re, bound=3000, reason=""):
    rx = re.compile(file_re)
    analysed = skipped = 0
    families = set()
    counted_cls = set()
    for F in ctx.db.funcs.values():
        if rx.search(F.file) and F.cls and any(e.get("k") == "call" and e.get("q") and CNT.search(e["q"]) and "++" in e["q"] for _, _, e in F.all_elements()):
            counted_cls.add(F.cls)
    for F in ctx.db.funcs.values():
        if not rx.search(F.file):
            continue
        has_cnt = any(e.get("k") == "call" and e.get("q") and CNT.search(e["q"]) for _, _, e in F.all_elements())
        flagged = (F.ret or "").startswith("std::pair<") and F.cls in counted_cls and any(
            e.get("k") == "call" and e.get("q", "").endswith("operator()") and e.get("args") and F.strip(e["args"][0]).get("b") is not None
            and F.strip(e.get("obj")).get("dk") == "parm" for _, _, e in F.all_elements() if e.get("mem"))
        if not has_cnt and not flagged:
            continue
        try:
            ps = PathSim(F, bound=bound).run()
        except PathBoundExceeded:
            skipped += 1
            continue
        analysed += 1
        families.add(F.cls)
        ctx.paths += len(ps)
        rets = [p for p in ps if p.outcome == "return"]
        kinds = set(classify_ret(effective_ret(p)) for p in rets)
        has_inc = any("++" in counter_ops(p) for p in rets) or (flagged and F.kind != "lambda")
        has_dec = any("--" in counter_ops(p) for p in rets)
        name = F.q.split("::")[-1]
        if name in ("clear", "clear_array", "destroy", "~" + (F.cls or "").split("::")[-1]):
            continue
        # bool parameters that switch the counting on/off (e.g. do_dequeue( res, bDeque ) used by empty())
        param_gate = set()
        for p in rets:
            if counter_ops(p):
                for atom, tv, bev in cond_atoms(p):
                    if isinstance(atom, tuple) and atom and atom[0] == "p":
                        param_gate.add((atom, tv))
        for p in rets:
            ops = counter_ops(p)
            if ops and uncertain_null(p):
                continue
            rk = classify_ret(effective_ret(p))
            gated_off = any((atom, not tv) in param_gate for atom, tv, bev in cond_atoms(p) if isinstance(atom, tuple) and atom and atom[0] == "p")
            node = p.events[-1].node if p.events else None
            if len(ops) > 1:
                ctx.bad(rid, F, "the item counter is changed %d times on one path of %s" % (len(ops), name), node, detail=reason, sig="counter-twice")
                continue
            if ops:
                ok = rk in ("true", "val", "void", "pair(1,1)", "pair(?,1)") if ops[0] == "++" else rk in ("true", "val", "void")
                ctx.check(ok, rid, F, "%s: the item counter is %s only on a path that reports success" % (name, "incremented" if ops[0] == "++" else "decremented"),
                          node, detail="path returns %s. %s" % (rk, reason), sig="counter-on-failure:%s" % ops[0])
            else:
                if rk in ("pair(1,1)", "pair(?,1)") and has_inc:
                    ctx.bad(rid, F, "%s reports a new item (true,true) on a path that does not increment the item counter" % name, node,
                            detail=reason, sig="new-item-not-counted")
                elif rk == "true" and (has_inc != has_dec) and "pair(1,1)" not in kinds and not eliminated(p) and not gated_off:
                    ctx.bad(rid, F, "%s reports success on a path that leaves the item counter unchanged" % name, node,
                            detail="other success paths of the function %s it. %s" % ("increment" if has_inc else "decrement", reason), sig="success-not-counted")
                else:
                    ctx.ok(rid, F, "%s: failure/neutral path leaves the counter unchanged" % name, node, sig="neutral")
            # functor flags (update-like functions)
            fl = functor_flags(p)
            if rk.startswith("pair("):
                for b, e in fl:
                    want = "pair(1,1)" if b else "pair(1,0)"
                    if rk.startswith("pair(?"):
                        want = "pair(?,1)" if b else "pair(?,0)"     # pair<iterator,bool>
                    ctx.check(rk == want, rid, F, "%s: functor called with bNew=%s on a path returning %s" % (name, bool(b), want), e.node,
                              detail="path returns %s. %s" % (rk, reason), sig="flag-vs-return:%d" % b)
                    if b:
                        ctx.check(ops == ["++"], rid, F, "%s: an item announced as new to the functor is counted" % name, e.node, detail=reason, sig="flag-new-counted")
                if rk == "pair(0,0)":
                    ctx.check(not fl, rid, F, "%s: no functor call on the (false,false) path" % name, node, detail=reason, sig="flag-on-failure")
            elif rk in ("false", "null"):
                ins = [e for b, e in fl]
                ctx.check(not ins, rid, F, "%s: the insert/update functor is not called on a failing path" % name, node, detail=reason, sig="functor-on-failure")
    return analysed, skipped, families


def rule_size_reads_counter(ctx, rid, file_re):
    rx = re.compile(file_re)
    n = 0
    for F in ctx.db.funcs.values():
        if not rx.search(F.file) or not F.q.endswith("::size") or F.params:
            continue
        uses_counter = any(x.get("k") == "member" and x.get("n") == "m_ItemCounter" for _, _, e in F.all_elements() for x in F.walk(e))
        calls_size = any(e.get("k") == "call" and e.get("q", "").endswith("::size") for _, _, e in F.all_elements())
        cls_has = any(g.cls == F.cls and any(x.get("k") == "member" and x.get("n") == "m_ItemCounter" for _, _, e in g.all_elements() for x in g.walk(e))
                      for g in ctx.db.by_q.get(F.cls + "::insert", []) + ctx.db.by_q.get(F.cls + "::insert_at", []) + ctx.db.by_q.get(F.cls + "::enqueue", []))
        if not cls_has:
            continue
        n += 1
        ctx.check(uses_counter or calls_size, rid, F, "size() reports the item counter", None, sig="size-counter")
    return n


INSERT_API = re.compile(r"::(insert|insert_with|emplace|emplace_with|push|push_back|push_front|enqueue|enqueue_with|update|upsert)$")
ERASE_API = re.compile(r"::(erase|erase_with|unlink|extract|extract_with|extract_min|extract_max|pop|pop_back|pop_front|dequeue|dequeue_with)$")
INSERT_NAME = re.compile(r"(insert|emplace|push|enqueue|update|upsert|link)")
ERASE_NAME = re.compile(r"(erase|unlink|extract|pop|dequeue|remove|clear)")


def _ops_of(F):
    s = set()
    for _, _, e in F.all_elements():
        if e.get("k") == "call" and e.get("q") and CNT.search(e["q"]):
            s.add("++" if ("++" in e["q"] or e["q"].endswith("inc")) else "--")
    return s


def rule_counter_reachability(ctx, rid, file_re, reason=""):
    """(a) direction: functions named like insertions only increment, like removals only decrement; (b) every public insert-like /
    erase-like member of a class that maintains an item counter reaches (through calls inside the library) a counter change of the right
    direction; (c) definitions of the same member in sibling specialisations (HP/RCU/nogc files) agree on whether they change the counter"""
    rx = re.compile(file_re)
    funcs = [F for F in ctx.db.funcs.values() if rx.search(F.file)]
    ops = {F.m: _ops_of(F) for F in funcs}
    by_m = {F.m: F for F in funcs}
    counted_cls = set(F.cls for F in funcs if ops[F.m] and F.cls)
    n = 0
    # (a)
    for F in funcs:
        if not ops[F.m]:
            continue
        name = F.q.split("::")[-1]
        if name == "operator()" and F.kind == "lambda":
            continue
        ins, era = bool(INSERT_NAME.search(name)), bool(ERASE_NAME.search(name))
        if ins == era:
            continue
        n += 1
        want = "++" if ins else "--"
        ctx.check(ops[F.m] == {want}, rid, F, "%s changes the item counter only in the direction of its operation (%s)" % (name, want), None,
                  detail="operations found: %s. %s" % (sorted(ops[F.m]), reason), sig="direction")
    # (b)
    memo = {}

    def closure(m, depth=0):
        if m in memo:
            return memo[m]
        memo[m] = set()
        F = by_m.get(m)
        if F is None or depth > 12:
            return set()
        res = set(ops.get(m, ()))
        for _, _, e in F.all_elements():
            if e.get("k") in ("call", "ctor") and e.get("m") in by_m and e["m"] != m:
                res |= closure(e["m"], depth + 1)
            if e.get("k") == "lambda" and e.get("m") in by_m:
                res |= closure(e["m"], depth + 1)
        memo[m] = res
        return res
    for F in funcs:
        if F.cls not in counted_cls:
            continue
        if INSERT_API.search(F.q):
            want = "++"
        elif ERASE_API.search(F.q):
            want = "--"
        else:
            continue
        n += 1
        ctx.check(want in closure(F.m), rid, F, "%s reaches an item-counter %s" % (F.q.split("::")[-1], "increment" if want == "++" else "decrement"),
                  None, detail="the class maintains an item counter but this operation never changes it: size()/empty() drift. " + reason,
                  sig="api-reaches-counter:%s" % want)
    # (c) - only effects inside the same container class count: the item counter of an underlying list (e.g. IterableList below a split
    # list, which counts its dummy nodes) is another object's counter
    def owner(q):
        return "::".join(q.split("::")[:3])
    memo2 = {}

    def closure_same(m, own, depth=0):
        key = (m, own)
        if key in memo2:
            return memo2[key]
        memo2[key] = set()
        F = by_m.get(m)
        if F is None or depth > 12:
            return set()
        res = set(ops.get(m, ()))
        if any(e.get("k") == "call" and re.search(r"item_counter::reset$", e.get("q") or "") for _, _, e in F.all_elements()):
            res.add("reset")       # clear() implemented by resetting the counter is a counter change as well
        for _, _, e in F.all_elements():
            if e.get("k") in ("call", "ctor", "lambda") and e.get("m") in by_m and e["m"] != m and owner(by_m[e["m"]].q) == own:
                res |= closure_same(e["m"], own, depth + 1)
        memo2[key] = res
        return res
    groups = {}
    for F in funcs:
        if F.kind in ("ctor", "dtor"):
            continue      # what a destructor does to the counter of the dying object is immaterial (nogc variants reset it through clear())
        groups.setdefault(F.q, {}).setdefault(F.file, []).append(F)
    for q, byfile in groups.items():
        if len(byfile) < 2:
            continue
        has = {f: any(closure_same(F.m, owner(F.q)) for F in fs) for f, fs in byfile.items()}      # counts itself or through its own class's members
        if any(has.values()) and not all(has.values()):
            for f, fs in byfile.items():
                if not has[f]:
                    n += 1
                    ctx.bad(rid, fs[0], "%s changes the item counter in sibling specialisations (%s) but not in this one" % (
                        q.split("::")[-1], ", ".join(sorted(x.split("/")[-1] for x in has if has[x]))), None, detail=reason, sig="sibling-counter")
        elif all(has.values()):
            n += 1
            ctx.ok(rid, next(iter(byfile.values()))[0], "sibling specialisations of %s agree on counting" % q.split("::")[-1], None, sig="sibling-agree")
    return n
