"""C23 - Flat combining executes each request exactly once under mutual exclusion (structural clauses, DESIGN.md §4 C23)."""
import re

from sa import run as _run
from sa import q as Q
from sa.cfg import cfg_of
from sa.pathsim import PathSim, C, NULL
from sa.q import cond_atoms, path_end, strip_sv, sv_field_path, atomic_op, sv_mentions

PROPERTY = "C23"
LEVEL = "other"
FILES = r"^%s/cds/algo/flat_combining/(kernel|wait_strategy|defs)\.h$" % _run.REPO
TUS = {"quick": ["test/unit/queue/fcqueue.cpp", "test/unit/deque/fcdeque.cpp"],
       "thorough": ["test/unit/queue/fcqueue.cpp", "test/unit/queue/intrusive_fcqueue.cpp", "test/unit/deque/fcdeque.cpp", "test/unit/stack/fcstack.cpp",
                    "test/unit/stack/intrusive_fcstack.cpp", "test/unit/pqueue/fcpqueue_*.cpp"]}
EXPLANATION = (
    "Path rules over the flat-combining kernel: combining()/batch_combining() are entered only on paths that hold the combiner mutex (try_lock "
    "succeeded, or wait_for_combining returned false, which itself happens only after a successful try_lock without unlock) inside an adopting "
    "lock_guard, after the caller's record was re-published; a request word is published (release) before combining is attempted; combining_pass "
    "applies a record only when it is active with a pending operation and marks it done right after, once; operation_done publishes req_Response "
    "(release) before notifying; the requester's wait loop returns 'done' only when it observed req_Response; compact_list frees a publication "
    "record only when it is in state 'removed' and the unlinking CAS succeeded, and deactivates only records it unlinked. Not decided: the "
    "interleaving statement.")
ASSUMPTIONS = ["clang CFG (-DNDEBUG)", "necessary conditions only"]
R = "Otherwise a request is executed without the combiner lock, twice, never, or a freed publication record is touched (C23)."
REQ_RESPONSE = 1
REL = {3, 4, 5}


def _won(p, e):
    for atom, tv, bev in cond_atoms(p):
        if atom == e.val:
            return tv
    return None


def r23_1(ctx):
    for name, inner in (("try_combining", r"kernel::combining$"), ("try_batch_combining", r"kernel::batch_combining$")):
        for F in ctx.need("cds::algo::flat_combining::kernel::" + name):
            n = 0
            for p in PathSim(F, bound=256).run():
                if p.outcome != "return":
                    continue
                ev = p.events
                cmb = [i for i, e in enumerate(ev) if e.kind == "call" and e.q and re.search(inner, e.q)]
                tl = [e for e in ev if e.kind == "call" and e.q and e.q.endswith("::try_lock")]
                wf = [e for e in ev if e.kind == "call" and e.q and e.q.endswith("::wait_for_combining")]
                holder = (tl and _won(p, tl[0]) is True) or (wf and _won(p, wf[0]) is False)
                for i in cmb:
                    n += 1
                    ctx.check(bool(holder), "R23.1", F, "%s: the combining pass runs only on a path that owns the combiner mutex" % name, ev[i].node, detail=R, sig="combiner-owns")
                    lg = [j for j, e in enumerate(ev) if e.kind == "var" and e.extra and e.extra[1] == "std::lock_guard" and j < i]
                    un = [j for j, e in enumerate(ev) if e.kind == "dtor" and e.extra and e.extra[1] == "std::lock_guard" and j > i]
                    ctx.check(bool(lg) and bool(un), "R23.1", F, "%s: the adopted mutex is released when the combining pass ends" % name, ev[i].node, sig="adopt-release")
                    rp = [j for j, e in enumerate(ev) if e.kind == "call" and e.q and e.q.endswith("::republish") and j < i]
                    ctx.check(bool(rp) and (not lg or rp[-1] > lg[-1]), "R23.1", F, "%s: the caller's record is re-published (under the lock) before combining" % name,
                              ev[i].node, detail="an excluded record would never be executed and its owner would wait forever", sig="republish")
                if not cmb:
                    # the request was executed by another combiner: only possible after waiting returned 'done'
                    ctx.check(bool(wf) and _won(p, wf[0]) is True, "R23.1", F, "%s: returns without combining only after the wait reported the response" % name,
                              None, detail=R, sig="return-after-response")
            if n == 0:
                ctx.bad("R23.1", F, "%s never combines" % name, None, sig="no-combining")
    W = ctx.need("cds::algo::flat_combining::kernel::wait_for_combining")
    for F in W:
        for p in PathSim(F, bound=512).run():
            if p.outcome != "return":
                continue
            ev = p.events
            tl = [i for i, e in enumerate(ev) if e.kind == "call" and e.q and e.q.endswith("::try_lock")]
            ul = [i for i, e in enumerate(ev) if e.kind == "call" and e.q and e.q.endswith("::unlock")]
            locked = bool(tl) and _won(p, ev[tl[-1]]) is True
            if p.ret == C(0):
                ctx.check(locked and not [i for i in ul if i > tl[-1]], "R23.1", F,
                          "wait_for_combining reports 'become the combiner' only while holding the mutex it just acquired", None, detail=R, sig="wait-false-holds")
            else:
                ctx.check((not locked) or bool([i for i in ul if i > tl[-1]]), "R23.1", F,
                          "wait_for_combining releases the mutex before reporting that the operation is done", None, detail=R, sig="wait-true-unlocked")
                # the response was observed
                seen = False
                for atom, tv, bev in cond_atoms(p):
                    if isinstance(atom, tuple) and atom[0] == "op" and atom[1] == "==" and C(REQ_RESPONSE) in (atom[2], atom[3]) and tv:
                        seen = True
                ctx.check(seen, "R23.1", F, "wait_for_combining reports 'done' only after reading req_Response from the record", None, detail=R, sig="wait-true-response")
r23_1.rule_id = "R23.1"


def r23_2(ctx):
    for F in ctx.need("cds::algo::flat_combining::kernel::combining_pass"):
        cfg = cfg_of(F)
        loops = cfg.loops()
        h, body = max(loops.items(), key=lambda hb: len(hb[1]))
        seen = 0
        for p in PathSim(F, bound=512, start=h, region=set(body)).run():
            ev = p.events
            ap = [i for i, e in enumerate(ev) if e.kind == "call" and e.q and e.q.endswith("::fc_apply")]
            dn = [i for i, e in enumerate(ev) if e.kind == "call" and e.q and e.q.endswith("::operation_done")]
            if not ap and not dn:
                continue
            seen += 1
            ok = len(ap) == 1 and len(dn) == 1 and ap[0] < dn[0]
            ctx.check(ok, "R23.2", F, "a record is applied once and marked done right afterwards, once", ev[(ap or dn)[0]].node, detail=R, sig="apply-done")
            if not ok:
                continue
            rec = strip_sv(ev[ap[0]].args[0]) if ev[ap[0]].args else None
            ctx.check(rec is not None and strip_sv(ev[dn[0]].args[0]) == rec and isinstance(rec, tuple) and rec[0] == "phi", "R23.2", F,
                      "fc_apply and operation_done act on the current record of the publication list", ev[ap[0]].node, sig="same-record")
            act = opk = False
            for e in ev:
                if e.kind == "branch" and isinstance(e.extra, tuple) and e.extra[0] == "switch" and e.extra[1] == 2:
                    act = True      # case active (enum value 2 is checked below against the source)
            for atom, tv, bev in cond_atoms(p):
                if isinstance(atom, tuple) and atom[0] == "op" and atom[1] in (">=", "<") and (atom[3] == C(2) or atom[2] == C(2)):
                    opk = (atom[1] == ">=" and tv) or (atom[1] == "<" and not tv)
            # resolve 'active' from the case label text rather than its number
            labs = [F.blocks[b].label for b in p.blocks if F.blocks[b].label and "case" in F.blocks[b].label]
            act = any("active" == F.text(l.get("lhs")).split("::")[-1] for l in labs if l.get("lhs") is not None)
            ctx.check(act, "R23.2", F, "a record is applied only in state 'active'", ev[ap[0]].node, detail=R, sig="apply-active")
            ctx.check(opk, "R23.2", F, "a record is applied only when it carries a pending operation (op >= req_Operation)", ev[ap[0]].node, detail=R, sig="apply-pending")
        ctx.check(seen >= 1, "R23.2", F, "combining_pass applies records", None, sig="has-apply")
        # the walk covers the whole list: p = m_pHead ... p = p->pNext on every iteration
        from sa.dataflow import rdefs, roots
        t = F.blocks[h].term
        c = F.strip(t["cond"]) if t and t.get("cond") else None
        ok = False
        if c is not None and c.get("k") == "ref":
            ds = rdefs(F).all_defs(c["d"])
            ini = [d for d in ds if d.kind == "init"]
            stp = [d for d in ds if d.kind == "assign"]
            ok = any(any(r[0] == "member" and r[2] == "m_pHead" for r in roots(F, d.rhs, d.site)) for d in ini) and bool(stp) and \
                all(any(r[0] == "call" and r[1].endswith("::load") and any(o[0] == "member" and o[2] == "pNext" for o in r[2]) for r in roots(F, d.rhs, d.site)) for d in stp)
        ctx.check(ok, "R23.2", F, "the pass walks the whole publication list (m_pHead, then pNext)", t, sig="walk")
    for F in ctx.need("cds::algo::flat_combining::kernel::operation_done"):
        for p in PathSim(F, bound=16).run():
            ev = p.events
            st = [i for i, e in enumerate(ev) if e.kind == "call" and atomic_op(e) == "store" and sv_field_path(e.obj)[-1:] == ["nRequest"]]
            nt = [i for i, e in enumerate(ev) if e.kind == "call" and e.q and e.q.endswith("::notify")]
            ok = len(st) == 1 and ev[st[0]].args[0] == C(REQ_RESPONSE) and ev[st[0]].args[1][0] == "c" and ev[st[0]].args[1][1] in REL and (not nt or st[0] < nt[0])
            ctx.check(ok, "R23.2", F, "operation_done publishes req_Response with release ordering before notifying the requester", ev[st[0]].node if st else None,
                      detail=R, sig="done-store")
    for name in ("combine", "batch_combine"):
        for F in ctx.need("cds::algo::flat_combining::kernel::" + name):
            for p in PathSim(F, bound=16).run():
                ev = p.events
                st = [i for i, e in enumerate(ev) if e.kind == "call" and atomic_op(e) == "store" and sv_field_path(e.obj)[-1:] == ["nRequest"]]
                tc = [i for i, e in enumerate(ev) if e.kind == "call" and e.q and re.search(r"::try_(batch_)?combining$", e.q)]
                ok = len(st) == 1 and tc and st[0] < tc[0] and ev[st[0]].args[0] == ("p", F.params[0]["d"], F.params[0]["n"]) and ev[st[0]].args[1][1] in REL
                ctx.check(bool(ok), "R23.2", F, "%s publishes the operation code (release) before trying to combine" % name, ev[st[0]].node if st else None, sig="publish-op")
r23_2.rule_id = "R23.2"


def r23_3(ctx):
    for F in ctx.need("cds::algo::flat_combining::kernel::compact_list"):
        frees = Q.calls_in(F, r"::free_publication_record$")
        ctx.check(len(frees) >= 1, "R23.3", F, "compact_list reclaims removed records", None, sig="has-free")
        n = 0
        for p in PathSim(F, bound=4096).run():
            ev = p.events
            for i, e in enumerate(ev):
                if e.kind == "call" and e.q and e.q.endswith("::free_publication_record"):
                    n += 1
                    rec = strip_sv(e.args[0])
                    removed = False
                    for atom, tv, bev in cond_atoms(p):
                        if isinstance(atom, tuple) and atom[0] == "op" and atom[1] == "==" and tv and bev.node is not None and "removed" in ctx_text(F, bev.node):
                            removed = True
                    cas = [x for x in ev[:i] if x.kind == "call" and (atomic_op(x) or "").startswith("compare_exchange") and sv_field_path(x.obj)[-1:] == ["pNextAllocated"]]
                    unlinked = bool(cas) and _won(p, cas[-1]) is True and strip_sv(cas[-1].args[0]) == rec
                    ctx.check(removed, "R23.3", F, "a publication record is freed only in state 'removed'", e.node, detail=R, sig="free-removed")
                    ctx.check(unlinked, "R23.3", F, "a publication record is freed only after the CAS that unlinked it from the allocated list succeeded", e.node,
                              detail=R, sig="free-unlinked")
                if e.kind == "call" and atomic_op(e) == "store" and sv_field_path(e.obj)[-1:] == ["nState"]:
                    n += 1
                    cas = [x for x in ev[:i] if x.kind == "call" and (atomic_op(x) or "").startswith("compare_exchange") and sv_field_path(x.obj)[-1:] == ["pNext"]]
                    ok = bool(cas) and _won(p, cas[-1]) is True and strip_sv(cas[-1].args[0]) == strip_sv(e.obj)
                    ctx.check(ok, "R23.3", F, "a record is marked inactive only after it was unlinked from the publication list", e.node, detail=R, sig="inactive-unlinked")
        ctx.check(n >= 2, "R23.3", F, "compact_list free/deactivate sites found", None, sig="sites")
r23_3.rule_id = "R23.3"


def ctx_text(F, n):
    try:
        return F.text(n)
    except Exception:
        return ""


RULES = [r23_1, r23_2, r23_3]
FLOORS = {"R23.1": 12, "R23.2": 10, "R23.3": 4}


def r23_4(ctx):
    """compact_list: cursor discipline of the unlink loops - after a successful unlink the predecessor stays, the cursor moves to the
    successor that was installed; otherwise the predecessor becomes the current record"""
    from sa.q import noepoch
    for F in ctx.need("cds::algo::flat_combining::kernel::compact_list"):
        cfg = cfg_of(F)
        n = 0
        for h, body in cfg.loops().items():
            t = F.blocks[h].term
            c = F.strip(t["cond"]) if t and t.get("cond") else None
            if c is None or c.get("k") != "ref":
                continue
            cur_var = c["d"]
            ps = PathSim(F, bound=2048, start=h, region=set(body)).run()
            for p in ps:
                end = path_end(p)
                if end != ("back", h):
                    continue
                ev = p.events
                cas = [e for e in ev if e.kind == "call" and (atomic_op(e) or "").startswith("compare_exchange") and
                       sv_field_path(e.obj)[-1:] in (["pNext"], ["pNextAllocated"])]
                won = [e for e in cas if _won(p, e) is True]
                phi_cur = ("phi", cur_var, h, 0)
                # predecessor variable = base of the CAS object
                for e in won:
                    n += 1
                    prev = strip_sv(e.obj)
                    pv = [v for v, val in p.env.items() if False]
                    # which local held the predecessor at loop entry
                    prev_vars = [v for v in p.env if ("phi", v, h, 0) == prev]
                    ok_prev = bool(prev_vars) and p.env.get(prev_vars[0]) == prev
                    ctx.check(ok_prev, "R23.4", F, "after unlinking a record the predecessor cursor still denotes the record before it (a linked one)",
                              e.node, detail="the predecessor is moved onto the record that was just unlinked: the next unlink is applied to a detached "
                              "record and a still-linked record can be freed. " + R, sig="prev-after-unlink")
                    ok_cur = p.env.get(cur_var) == e.args[1]
                    ctx.check(ok_cur, "R23.4", F, "after unlinking a record the cursor continues with the successor that replaced it", e.node, sig="cur-after-unlink")
                    ctx.check(strip_sv(e.args[0]) == phi_cur, "R23.4", F, "the record unlinked is the current one", e.node, sig="unlink-current")
        ctx.check(n >= 3, "R23.4", F, "unlink sites of compact_list analysed", None, detail="%d" % n, sig="unlink-sites")
r23_4.rule_id = "R23.4"

RULES.append(r23_4)
FLOORS["R23.4"] = 4


def r23_5(ctx):
    """publication records belong to the kernel (it unlinks and frees the records of exited threads in compact_list): a wait strategy keeps no
    pointer / reference to a record or to one of its members beyond the call - nothing derived from the 'rec' parameter is stored into the
    strategy object or into any other object that outlives the call"""
    from sa.q import noepoch

    def of_decl(sv, ds, depth=0):
        """sv is, or is derived from, one of the declarations ds (a by-reference argument comes back as ('out', decl, callee, n))"""
        if not isinstance(sv, tuple) or depth > 10:
            return False
        if sv[:1] in (("p",), ("out",)) and len(sv) >= 2 and sv[1] in ds:
            return True
        return any(of_decl(x, ds, depth + 1) for x in sv if isinstance(x, tuple))
    n = 0
    for F in ctx.db.funcs.values():
        if not re.match(r"cds::algo::flat_combining::wait_strategy::\w+::(wait|notify|prepare|wakeup)$", F.q):
            continue
        recs = set(pr["d"] for pr in F.params if pr["n"] == "rec")
        try:
            ps = PathSim(F, bound=2000).run()
        except Exception:
            continue
        seen = set()
        for p in ps:
            for e in p.events:
                if e.kind != "store" or e.obj is None:
                    continue
                tgt = noepoch(e.obj)
                # stores into the record itself are the strategy's job; locals are values, not (tracked) stores
                if of_decl(tgt, recs):
                    continue
                key = id(e.node)
                if key in seen:
                    continue
                seen.add(key)
                n += 1
                esc = e.val is not None and of_decl(noepoch(e.val), recs)
                ctx.check(not esc, "R23.5", F, "a wait strategy stores nothing derived from the publication record outside that record", e.node,
                          detail="%s receives %r: the record is unlinked and freed by compact_list() once its thread has exited - a pointer kept in the strategy "
                          "dangles and is used by a later wakeup()/notify() (C23: 'reclaimed records of exited threads are not accessed afterwards')"
                          % ("->".join(sv_field_path(e.obj)[-2:]) or repr(tgt), noepoch(e.val)), sig="record-escape")
    if n < 2:
        ctx.broken("wait strategy member stores not found (%d)" % n)
r23_5.rule_id = "R23.5"
RULES.append(r23_5)
FLOORS["R23.5"] = 2
