"""SkipListSet rules shared by C15 and C18."""
import re

from sa import q as Q

# the routines that compute a position by a key-ordered search from the head (confirmed by reading the three implementations)
POSITION_WRITERS = ("find_position", "find_min_position", "find_max_position", "renew_insert_position", "find_slowpath", "find_fastpath_abort")


def rule_position_writers(ctx, rid, reason):
    """WHO rule: the insert/erase position (pPrev[], pSucc[], pCur) of a skip list is written only by the search routines, which establish
    pPrev[l].key < key <= pSucc[l].key at every level; any other writer bypasses that order check"""
    n = 0
    writers = set()
    for F in ctx.db.funcs.values():
        if not re.match(r"cds::intrusive::SkipListSet::", F.q) or F.kind in ("ctor", "dtor"):
            continue
        name = F.q.split("::")[-1]
        for b, i, e in F.all_elements():
            if e.get("k") != "bin" or e.get("op") not in ("=", "+=", "-="):
                continue
            lhs = F.deref(e["lhs"])
            for _ in range(6):
                if isinstance(lhs, dict) and lhs.get("k") in ("w", "cast"):
                    lhs = F.deref(lhs["sub"])
                elif isinstance(lhs, dict) and lhs.get("k") == "subscript":
                    lhs = F.deref(lhs["base"])
                else:
                    break
            if not (isinstance(lhs, dict) and lhs.get("k") == "member" and lhs.get("n") in ("pPrev", "pSucc", "pCur") and "position" in (lhs.get("cls") or "")):
                continue
            n += 1
            writers.add(name)
            ctx.check(name in POSITION_WRITERS, rid, F, "a skip-list position (pPrev[]/pSucc[]/pCur) is written only by the key-ordered search routines", e,
                      detail="a successor/predecessor taken from anywhere else is not known to bracket the key at that level: the node is then linked out of order "
                      "at that level. " + reason, sig="position-writer:%s" % lhs.get("n"))
    ctx.info["skiplist_position_writers"] = sorted(writers)
    return n


def rule_link_provenance(ctx, rid, reason):
    """the CAS that links a new node at level L swings pos.pPrev[L]->next(L) from pos.pSucc[L] (the searched position of the same level) to the node"""
    from sa.pathsim import PathSim
    from sa.cfg import PathBoundExceeded
    from sa.q import atomic_op, noepoch
    n = 0
    for F in ctx.db.funcs.values():
        if not re.match(r"cds::intrusive::SkipListSet::insert_at_position$", F.q):
            continue
        pnode = [("p", pr["d"], pr["n"]) for pr in F.params if pr["n"] == "pNode"]
        try:
            ps = PathSim(F, bound=6000).run()
        except PathBoundExceeded:
            ctx.broken("path bound exceeded in %s" % F.q)
            continue
        seen = set()
        for p in ps:
            ev = p.events
            nxt = {e.val: e for e in ev if e.kind == "call" and e.q and e.q.endswith("node::next")}
            for e in ev:
                if e.kind != "call" or not (atomic_op(e) or "").startswith("compare_exchange") or e.obj not in nxt or id(e.node) in seen:
                    continue
                ne = nxt[e.obj]
                o = noepoch(ne.obj) if isinstance(ne.obj, tuple) else ne.obj
                if not (isinstance(o, tuple) and o[:1] == ("elem",) and isinstance(o[1], tuple) and o[1][:1] == ("fld",) and o[1][-1] == "pPrev" or
                        (isinstance(o, tuple) and o[:1] == ("elem",) and "pPrev" in repr(o[1]))):
                    continue
                seen.add(id(e.node))
                n += 1
                lvl = o[2]
                ok_level = ne.args and noepoch(ne.args[0]) == lvl if isinstance(ne.args[0], tuple) else (ne.args and ne.args[0] == lvl)
                exp = e.args[0]
                while isinstance(exp, tuple) and exp[:1] == ("obj",) and len(exp) > 2 and exp[2]:
                    exp = exp[2][0]
                exp = noepoch(exp) if isinstance(exp, tuple) else exp
                ok_exp = isinstance(exp, tuple) and exp[:1] == ("elem",) and "pSucc" in repr(exp[1]) and exp[2] == lvl
                new = e.args[1]
                ok_new = bool(pnode) and pnode[0] in _flatten(new)
                ctx.check(bool(ok_level) and ok_exp and ok_new, rid, F, "the link CAS at level L swings pos.pPrev[L]->next(L) from pos.pSucc[L] to the new node", e.node,
                          detail="level agreement=%s, expected is pos.pSucc[L]=%s, new value is the node=%s. %s" % (bool(ok_level), ok_exp, ok_new, reason), sig="link-provenance")
    return n


def _flatten(sv):
    out = []
    st = [sv]
    while st:
        x = st.pop()
        out.append(x)
        if isinstance(x, tuple):
            st.extend(y for y in x if isinstance(y, tuple))
    return out


def rule_mark_cas_from_unmarked(ctx, rid, funcs, reason):
    """a logical-delete mark CAS (new value = expected | 1) starts from a value known to be unmarked, so that exactly one thread wins it:
    expected is built from a bit-stripped pointer (x.ptr(), a raw pointer, marked_ptr(p, 0)), or the path established bits() == 0 for it"""
    from sa.pathsim import PathSim, C
    from sa.cfg import PathBoundExceeded
    from sa.q import atomic_op, cond_atoms
    n = 0
    for F in funcs:
        try:
            ps = PathSim(F, bound=8000, entry_values=True).run()
        except PathBoundExceeded:
            try:
                ps = PathSim(F, bound=8000).run()
            except PathBoundExceeded:
                continue
        seen = {}
        for p in ps:
            ev = p.events
            for i, e in enumerate(ev):
                if e.kind != "call" or not (atomic_op(e) or "").startswith("compare_exchange") or len(e.args) < 2:
                    continue
                exp, new = e.args[0], e.args[1]
                ismark = any(x.kind == "call" and x.val == new and x.q and x.q.endswith("operator|") and x.args and x.args[0] == exp and x.args[1] == C(1) for x in ev[:i])
                if not ismark and isinstance(new, tuple) and new[:1] == ("obj",) and len(new) > 2 and len(new[2]) == 2 and new[2][1] == C(1):
                    ismark = True      # marked_ptr(p, 1)
                if not ismark:
                    continue
                if isinstance(exp, tuple) and exp[:1] in (("phi",), ("casexp",)):
                    verdict = None     # a retry: decided by the back-edge conditions below
                else:
                    verdict = _unmarked(exp, ev[:i], p)
                key = id(e.node)
                # one provably-unmarked first attempt per site is required; a provably marked-capable one is a violation
                if verdict is False:
                    seen[key] = (False, e)
                elif verdict is True and key not in seen:
                    seen[key] = (True, e)
                elif verdict is None and key not in seen:
                    # retry path: the loop must have re-established bits()==0 (branch on bits of the same variable)
                    ok = False
                    for atom, tv, bev in cond_atoms(p):
                        if ev.index(bev) < i and _is_bits_of(atom, exp, ev) and tv is False:
                            ok = True
                    if ok:
                        seen.setdefault(key, (True, e))
        for key, (ok, e) in seen.items():
            n += 1
            ctx.check(ok, rid, F, "a logical-delete mark CAS starts from a value known to be unmarked", e.node,
                      detail="if the expected value can already carry the mark, the CAS 'succeeds' without changing anything and a second remover also "
                      "believes it owns the node (double erase / double retire). " + reason, sig="mark-from-unmarked")
    return n


def _is_bits_of(atom, exp, ev):
    if isinstance(atom, tuple) and atom[:1] == ("call",) and str(atom[1]).endswith("marked_ptr::bits"):
        return any(x.kind == "call" and x.val == atom and x.obj == exp for x in ev)
    return False


def _unmarked(exp, before, p):
    from sa.pathsim import C, NULL
    from sa.q import cond_atoms
    if exp == NULL:
        return True
    if isinstance(exp, tuple) and exp[:1] == ("obj",) and len(exp) > 2 and str(exp[1]).endswith("marked_ptr"):
        args = exp[2]
        if len(args) == 0:
            return True
        if len(args) == 2 and args[1] == C(0):
            return True
        if len(args) == 1:
            a = args[0]
            if isinstance(a, tuple) and a[:1] == ("call",):
                if str(a[1]).endswith("marked_ptr::ptr"):
                    return True
                if str(a[1]).endswith("::load") or str(a[1]).endswith("::protect") or str(a[1]).endswith("::exchange"):
                    return False
                return None
            if isinstance(a, tuple) and a[:1] in (("fld",), ("p",), ("elem",), ("addr",)):
                return True      # a raw pointer stored in a position / parameter
            return None
    # a value with a bits()==0 fact on the path
    for atom, tv, bev in cond_atoms(p):
        if bev in before and _is_bits_of(atom, exp, before) and tv is False:
            return True
        if bev in before and isinstance(atom, tuple) and atom[:2] == ("op", "==") and any(_is_bits_of(x, exp, before) for x in atom[2:4]) and C(0) in atom[2:4] and tv:
            return True
    if isinstance(exp, tuple) and exp[:1] == ("call",) and (str(exp[1]).endswith("::load") or str(exp[1]).endswith("::protect")):
        return False
    return None
