"""Flat-combining container rules (FCDeque C10, FCQueue C06, FCStack C09): collision decision tables."""
import re

from sa import q as Q
from sa.cfg import cfg_of
from sa.pathsim import PathSim, C
from sa.q import cond_atoms, path_end


def opcode_table(ctx, F_apply, container_re):
    """opcode -> set of container methods fc_apply calls under that case label (derived from the source)"""
    table = {}
    cfg = cfg_of(F_apply)
    # blocks reachable from each case label block until the switch's join (first block with >1 preds after)
    for b, blk in F_apply.blocks.items():
        lab = blk.label or {}
        if "case" not in lab or lab["case"] is None:
            continue
        seen = set()
        st = [b]
        methods = set()
        while st:
            x = st.pop()
            if x in seen:
                continue
            seen.add(x)
            bx = F_apply.blocks[x]
            if x != b and (bx.label or {}).get("case") is not None:
                continue          # fell into the next case label: stop (cases end with break)
            for e in bx.elems:
                if e.get("k") == "call" and e.get("q") and re.search(container_re, e["q"]):
                    methods.add(e["q"].split("::")[-1])
            # stop at the switch exit: a block that is a successor of >1 case paths is the join; approximate by 'break' terminators
            if bx.term and bx.term.get("k") == "BreakStmt":
                continue
            for s in bx.real_succ():
                st.append(s)
        table[lab["case"]] = methods
    return table


def classify(methods):
    """(kind, end) from the container methods used"""
    kind = end = None
    if methods & {"push_front", "emplace_front"}:
        kind, end = "push", "front"
    if methods & {"push_back", "emplace_back"}:
        kind, end = "push", "back"
    if "pop_front" in methods and "pop_back" not in methods and kind is None:
        kind, end = "pop", "front"
    if "pop_back" in methods and "pop_front" not in methods and kind is None:
        kind, end = "pop", "back"
    if methods & {"push"} and kind is None:
        kind, end = "push", "any"
    if methods & {"pop"} and kind is None:
        kind, end = "pop", "any"
    return kind, end


def record_roots(p):
    """call value -> iterator variable value it was obtained from (via iterator::operator-> / operator*)"""
    root = {}
    for e in p.events:
        if e.kind == "call" and e.q and re.search(r"iterator::operator(->|\*)$", e.q):
            root[e.val] = e.obj
    return root


def opcodes_on_path(p):
    """iterator value -> opcode established on the path (switch case taken or '== const' branch that held)"""
    root = record_roots(p)
    opval = {}      # value of X->op() call -> iterator value
    for e in p.events:
        if e.kind == "call" and e.q and e.q.endswith("publication_record::op") and e.obj in root:
            opval[e.val] = root[e.obj]
    known = {}
    for e in p.events:
        if e.kind != "branch":
            continue
        if isinstance(e.extra, tuple) and e.extra[0] == "switch":
            if e.val in opval and e.extra[1] != "default":
                known[opval[e.val]] = e.extra[1]
    for atom, tv, ev in cond_atoms(p):
        if isinstance(atom, tuple) and atom[0] == "op" and atom[1] == "==" and tv:
            for a, b in ((atom[2], atom[3]), (atom[3], atom[2])):
                if a in opval and isinstance(b, tuple) and b[0] == "c":
                    known[opval[a]] = b[1]
    return known, root


def empty_truth(p, member):
    """True/False/None: outcome of <member>.empty() established on the path"""
    res = None
    empties = {e.val for e in p.events if e.kind == "call" and e.q and e.q.endswith("::empty") and
               Q.sv_field_path(e.obj)[-1:] == [member]}
    for atom, tv, ev in cond_atoms(p):
        if atom in empties:
            res = tv
    return res
