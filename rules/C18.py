"""C18 - Quiescent structure well-formed (decided clause only: size()/empty() agree with the contents where an item counter is enabled;
DESIGN.md §4 C18).  Sortedness, exactly-once traversal, AVL balance and the level sub-list property are runtime shape and NOT decided."""
import re

from sa import run as _run
from sa import q as Q
from sa.pathsim import PathSim, C
from . import e9, skiplist

PROPERTY = "C18"
LEVEL = "other"
FILES = r"^%s/cds/(intrusive|container)/" % _run.REPO
NAMES = r"."
TUS = {
    "quick": ["test/unit/intrusive-list/intrusive_michael_hp.cpp", "test/unit/intrusive-list/intrusive_lazy_hp.cpp",
              "test/unit/intrusive-list/intrusive_iterable_hp.cpp", "test/unit/intrusive-set/intrusive_skiplist_hp.cpp",
              "test/unit/tree/intrusive_ellenbintree_hp.cpp", "test/unit/intrusive-set/intrusive_split_michael_hp.cpp",
              "test/unit/tree/bronson_avltree_map_rcu_gpb.cpp"],
    "thorough": ["test/unit/intrusive-list/*.cpp", "test/unit/intrusive-set/intrusive_skiplist_*.cpp", "test/unit/intrusive-set/intrusive_split_*.cpp",
                 "test/unit/tree/*.cpp"],
}
EXPLANATION = (
    "Only the size()/empty() clause of C18 is decided: in the ordered containers (lists, skip list, Ellen tree, Bronson map, split list) the "
    "item counter changes at most once per operation and only on success paths, every public inserting/removing member reaches a counter "
    "change of the right direction, size() returns that counter. Plus one structural necessary condition of the skip-list level property: "
    "link positions (pPrev[]/pSucc[]/pCur) are produced only by the key-ordered search routines (who-may-write table). Sortedness, "
    "exactly-once traversal, search-tree order, AVL balance and the skip-list level property are properties of the runtime heap shape and are "
    "not decided by this check.")
ASSUMPTIONS = ["clang CFG (-DNDEBUG)", "only the counter clause is claimed"]
R = "Otherwise size()/empty() disagree with the contents at quiescent points (C18, size clause)."
ORDERED = r"/cds/(intrusive/(impl/(michael_list|lazy_list|iterable_list|skip_list|ellen_bintree)|michael_list_\w+|lazy_list_\w+|skip_list_\w+|ellen_bintree_\w+|split_list\w*)\.h|container/impl/bronson_avltree_map_rcu\.h)$"


def r18_1(ctx):
    analysed, skipped, fam = e9.rule_counter_return(ctx, "R18.1", ORDERED, reason=R)
    if analysed < 15:
        ctx.broken("only %d counter-changing members of the ordered containers analysed (%d skipped)" % (analysed, skipped))
    e9.rule_counter_reachability(ctx, "R18.1", ORDERED, reason=R)
r18_1.rule_id = "R18.1"


def r18_2(ctx):
    rx = re.compile(ORDERED)
    n = 0
    for F in ctx.db.funcs.values():
        if not rx.search(F.file) or F.params:
            continue
        name = F.q.split("::")[-1]
        if name == "size":
            ps = [p for p in PathSim(F, bound=64).run() if p.outcome == "return"]
            for p in ps:
                n += 1
                r = repr(p.ret)
                ok = "m_ItemCounter" in r or "item_counter" in r or "size" in r
                ctx.check(ok, "R18.2", F, "size() reports the item counter", None, detail="returns %s" % r[:160], sig="size-counter")
    if n < 6:
        ctx.broken("size() of the ordered containers not instantiated (%d)" % n)
r18_2.rule_id = "R18.2"


def r18_3(ctx):
    """necessary condition of 'each skip-list level is a sorted sub-list of the level below': positions used for linking come only from the
    key-ordered search routines"""
    n = skiplist.rule_position_writers(ctx, "R18.3", "Otherwise a skip-list level stops being a sorted sub-list of the level below (C18, level clause).")
    if n < 8:
        ctx.broken("skip-list position writes not found (%d)" % n)
    m = skiplist.rule_link_provenance(ctx, "R18.3", "Otherwise a skip-list level stops being a sorted sub-list of the level below (C18, level clause).")
    if m < 2:
        ctx.broken("skip-list link CAS sites not found (%d)" % m)
r18_3.rule_id = "R18.3"


def r18_4(ctx):
    """necessary condition of 'no key twice / strictly increasing traversal' at quiescent points: list searches advance only past strictly smaller keys
    (shared with C13 R13.8)"""
    from . import C13
    saved = None
    n0 = ctx.counts.get("R13.8", 0)
    # re-use the C13 rule under this property's rule id
    class _Proxy(object):
        def __init__(self, c):
            self.__dict__["c"] = c
        def __getattr__(self, k):
            return getattr(self.c, k)
        def check(self, ok, rid, *a, **kw):
            return self.c.check(ok, "R18.4", *a, **kw)
        def bad(self, rid, *a, **kw):
            return self.c.bad("R18.4", *a, **kw)
        def ok(self, rid, *a, **kw):
            return self.c.ok("R18.4", *a, **kw)
    C13.r13_8(_Proxy(ctx))
r18_4.rule_id = "R18.4"


def r18_5(ctx):
    """Bronson map: the consistency checker this property refers to computes subtree heights - the height of a node is one more than the larger
    child height; a recursion that hands the child height up unchanged makes every height 0 and the AVL balance test vacuous"""
    from sa.q import sv_affine
    n = 0
    for F in ctx.db.find(q="cds::container::BronsonAVLTreeMap::do_check_consistency"):
        for p in PathSim(F, bound=2000).run():
            if p.outcome != "return" or p.ret is None:
                continue
            rec = [e for e in p.events if e.kind == "call" and e.q and e.q.endswith("::do_check_consistency")]
            if not rec:
                continue           # the null-node base case
            n += 1
            a = sv_affine(p.ret)
            vals = set(e.val for e in rec)
            child = [k for k in a if k in vals]
            ok = len(child) == 1 and a.get(child[0]) == 1 and a.get(1, 0) == 1 and len([k for k in a if k != 1]) == 1
            ctx.check(ok, "R18.5", F, "the consistency checker returns (larger child height) + 1 for a non-null node", None,
                      detail="returns %r: with no increment every subtree height is 0 and |hLeft - hRight| > 1 can never be observed - check_consistency() "
                      "accepts unbalanced trees (C18: 'BronsonAVLTreeMap satisfies its consistency check: AVL balance')" % (p.ret,), sig="height-no-increment")
    if n < 2:
        ctx.broken("BronsonAVLTreeMap::do_check_consistency return paths not found (%d)" % n)
r18_5.rule_id = "R18.5"


def r18_6(ctx):
    """EllenBinTree: every path of try_insert that publishes the (re-used) new internal node applies the same setters to it - a necessary
    condition of 'routing keys direct every search to the right leaf' at quiescent points"""
    from . import ellen
    n = ellen.rule_publish_init_agreement(ctx, "R18.6", "Otherwise a present key becomes unreachable and the leaves fall out of order (C18).")
    if n < 3:
        ctx.broken("EllenBinTree::try_insert publishing paths not found (%d)" % n)
r18_6.rule_id = "R18.6"


RULES = [r18_1, r18_2, r18_3, r18_4, r18_5, r18_6]
FLOORS = {"R18.1": 100, "R18.2": 6, "R18.3": 8, "R18.4": 4, "R18.5": 2, "R18.6": 3}
