"""C22 - Spin locks and node monitors provide mutual exclusion (structural clauses, DESIGN.md §4 C22)."""
import re

from sa import run as _run
from sa import q as Q
from sa.cfg import cfg_of
from sa.pathsim import PathSim, C, NULL
from sa.q import cond_atoms, path_end, strip_sv, sv_field_path, atomic_op, sv_affine, aff_sub, zero_facts, sv_mentions

PROPERTY = "C22"
LEVEL = "other"
FILES = r"^%s/cds/sync/(spinlock|pool_monitor|injecting_monitor|lock_array|monitor)\.h$" % _run.REPO
TUS = {"quick": ["/verif/drivers/sync.cpp", "test/unit/tree/bronson_avltree_map_rcu_gpb.cpp"],
       "thorough": ["/verif/drivers/sync.cpp", "test/unit/tree/bronson_avltree_map*_rcu_*.cpp", "test/unit/striped-set/cuckoo_set.cpp"]}
EXPLANATION = (
    "Path rules over the lock primitives: spin_lock::try_lock is an exchange(true) with at least acquire order whose negated result is "
    "returned, lock() returns only after a successful try_lock, unlock stores false with at least release order; reentrant_spin_lock "
    "re-enters only for the recorded owner, takes ownership only after acquiring, releases (owner cleared, then count 0 with release) only "
    "when the count is <= 1 and otherwise only decrements; pool_monitor touches a node's lock pointer only between a successful spin-bit CAS "
    "and the releasing store, counts references by +-c_nRefIncrement, detaches the pool lock only when it is the last reference and returns it "
    "to the pool after the spin is released; injecting_monitor and lock_array forward to the underlying lock of the addressed node/cell. "
    "Not decided: mutual exclusion as a behavioural fact over interleavings.")
ASSUMPTIONS = ["clang CFG (-DNDEBUG)", "necessary conditions only"]
ACQ = {2, 4, 5}
REL = {3, 4, 5}
R = "Otherwise two threads can be inside the same critical section, or a lock is released by a non-owner (C22)."


def _order(e, i):
    a = e.args[i] if len(e.args) > i else None
    return a[1] if isinstance(a, tuple) and a[0] == "c" else None


def r22_1(ctx):
    """spin_lock"""
    for F in ctx.need("cds::sync::spin_lock::try_lock"):
        if F.params:
            # try_lock(count): true only after a successful try_lock()
            for p in PathSim(F, bound=128).run():
                if p.outcome != "return":
                    continue
                tl = [e for e in p.events if e.kind == "call" and e.q and e.q.endswith("spin_lock::try_lock")]
                got = any(atom == e.val and tv for atom, tv, b in cond_atoms(p) for e in tl)
                ctx.check((p.ret == C(1)) == got, "R22.1", F, "try_lock(n) reports success exactly when an attempt succeeded", None, sig="trylock-n")
            continue
        for p in PathSim(F, bound=64).run():
            if p.outcome != "return":
                continue
            ex = [e for e in p.events if e.kind == "call" and atomic_op(e) == "exchange" and sv_field_path(e.obj)[-1:] == ["m_spin"]]
            ok = len(ex) == 1 and ex[0].args[0] == C(1) and _order(ex[0], 1) in ACQ
            ctx.check(ok, "R22.1", F, "try_lock is one exchange(true) with at least acquire ordering", ex[0].node if ex else None, detail=R, sig="trylock-xchg")
            if ex:
                ctx.check(p.ret == ("un", "!", ex[0].val), "R22.1", F, "try_lock succeeds exactly when the previous value was 'unlocked'", None,
                          detail="returns %r" % (p.ret,), sig="trylock-ret")
    for F in ctx.need("cds::sync::spin_lock::lock"):
        for p in PathSim(F, bound=128).run():
            if p.outcome != "return":
                continue
            tl = [e for e in p.events if e.kind == "call" and e.q and e.q.endswith("spin_lock::try_lock")]
            got = any(atom == e.val and tv for atom, tv, b in cond_atoms(p) for e in tl)
            ctx.check(got, "R22.1", F, "lock() returns only after try_lock() succeeded", None, detail=R, sig="lock-after-trylock")
    for F in ctx.need("cds::sync::spin_lock::unlock"):
        for p in PathSim(F, bound=64).run():
            if p.outcome != "return":
                continue
            st = [e for e in p.events if e.kind == "call" and atomic_op(e) == "store" and sv_field_path(e.obj)[-1:] == ["m_spin"]]
            ok = len(st) == 1 and st[0].args[0] == C(0) and _order(st[0], 1) in REL
            ctx.check(ok, "R22.1", F, "unlock stores 'unlocked' with at least release ordering", st[0].node if st else None, detail=R, sig="unlock-store")
r22_1.rule_id = "R22.1"


def r22_2(ctx):
    """reentrant_spin_lock"""
    for F in ctx.need("cds::sync::reentrant_spin_lock::try_acquire"):
        if F.params:
            continue
        for p in PathSim(F, bound=64).run():
            if p.outcome != "return":
                continue
            cas = [e for e in p.events if e.kind == "call" and (atomic_op(e) or "").startswith("compare_exchange") and sv_field_path(e.obj)[-1:] == ["m_spin"]]
            ok = len(cas) == 1 and cas[0].args[0] == C(0) and cas[0].args[1] == C(1) and _order(cas[0], 2) in ACQ
            ctx.check(ok, "R22.2", F, "try_acquire is CAS(0 -> 1) with at least acquire ordering", cas[0].node if cas else None, detail=R, sig="acquire-cas")
            if cas:
                ctx.check(p.ret == cas[0].val, "R22.2", F, "try_acquire returns the CAS result", None, sig="acquire-ret")
    for F in ctx.need("cds::sync::reentrant_spin_lock::try_taken_lock"):
        for p in PathSim(F, bound=64).run():
            if p.outcome != "return":
                continue
            it = [e for e in p.events if e.kind == "call" and e.q and e.q.endswith("::is_taken")]
            fa = [e for e in p.events if e.kind == "call" and atomic_op(e) == "fetch_add"]
            mine = any(atom == e.val and tv for atom, tv, b in cond_atoms(p) for e in it)
            ok = bool(it) and ((mine and len(fa) == 1 and p.ret == C(1)) or (not mine and not fa and p.ret == C(0)))
            ctx.check(ok, "R22.2", F, "the lock count is incremented only for the recorded owner thread", fa[0].node if fa else None, detail=R, sig="reenter-owner")
            if it:
                ctx.check(it[0].args and it[0].args[0] == ("p", F.params[0]["d"], F.params[0]["n"]), "R22.2", F,
                          "ownership is tested for the calling thread's id", it[0].node, sig="reenter-tid")
    for name in ("lock", "try_lock"):
        for F in ctx.need("cds::sync::reentrant_spin_lock::" + name):
            for p in PathSim(F, bound=128).run():
                if p.outcome != "return":
                    continue
                ev = p.events
                tk = [i for i, e in enumerate(ev) if e.kind == "call" and e.q and e.q.endswith("::take")]
                ttl = [e for e in ev if e.kind == "call" and e.q and e.q.endswith("::try_taken_lock")]
                acq = [i for i, e in enumerate(ev) if e.kind == "call" and e.q and re.search(r"::(acquire|try_acquire)$", e.q)]
                reent = any(atom == e.val and tv for atom, tv, b in cond_atoms(p) for e in ttl)
                acq_ok = None
                for atom, tv, b in cond_atoms(p):
                    for i in acq:
                        if atom == ev[i].val:
                            acq_ok = tv
                if reent:
                    ctx.check(not tk and not acq, "R22.2", F, "%s: re-entrance by the owner neither re-acquires nor changes the owner" % name, None, sig="reent-path")
                    continue
                succeeded = (name == "lock") or (p.ret == C(1))
                if succeeded:
                    ok = bool(acq) and len(tk) == 1 and tk[0] > acq[-1] and (name == "lock" or acq_ok is True)
                    ctx.check(ok, "R22.2", F, "%s: ownership is recorded only after the spin was acquired" % name, ev[tk[0]].node if tk else None,
                              detail=R, sig="take-after-acquire")
                    if tk:
                        tid = [e for e in ev if e.kind == "call" and e.q and e.q.endswith("get_current_thread_id")]
                        ctx.check(bool(tid) and ev[tk[0]].args and ev[tk[0]].args[0] == tid[0].val, "R22.2", F, "%s: the recorded owner is the calling thread" % name,
                                  ev[tk[0]].node, sig="take-tid")
                else:
                    ctx.check(not tk, "R22.2", F, "%s: a failed attempt does not change the owner" % name, None, sig="fail-no-take")
    for F in ctx.need("cds::sync::reentrant_spin_lock::acquire"):
        for p in PathSim(F, bound=128).run():
            if p.outcome != "return":
                continue
            ta = [e for e in p.events if e.kind == "call" and e.q and e.q.endswith("::try_acquire")]
            got = any(atom == e.val and tv for atom, tv, b in cond_atoms(p) for e in ta)
            ctx.check(got, "R22.2", F, "acquire() returns only after try_acquire() succeeded", None, detail=R, sig="acquire-loop")
    for F in ctx.need("cds::sync::reentrant_spin_lock::unlock"):
        for p in PathSim(F, bound=64).run():
            if p.outcome != "return":
                continue
            ev = p.events
            ld = [e for e in ev if e.kind == "call" and atomic_op(e) == "load" and sv_field_path(e.obj)[-1:] == ["m_spin"]]
            st = [i for i, e in enumerate(ev) if e.kind == "call" and atomic_op(e) == "store" and sv_field_path(e.obj)[-1:] == ["m_spin"]]
            fr = [i for i, e in enumerate(ev) if e.kind == "call" and e.q and e.q.endswith("reentrant_spin_lock::free")]
            if not ld or len(st) != 1:
                ctx.bad("R22.2", F, "unlock does not read the count and store it once", None, sig="unlock-shape")
                continue
            n = ld[0].val
            nested = None
            for atom, tv, b in cond_atoms(p):
                if isinstance(atom, tuple) and atom[0] == "op" and atom[1] == ">" and atom[2] == n and atom[3] == C(1):
                    nested = tv
                if isinstance(atom, tuple) and atom[0] == "op" and atom[1] == "<=" and atom[2] == n and atom[3] == C(1):
                    nested = not tv
            v = ev[st[0]].args[0]
            if nested is True:
                ok = not fr and aff_sub(sv_affine(v), sv_affine(n)) == {1: -1}
                ctx.check(ok, "R22.2", F, "a nested unlock only decrements the count and keeps the owner", ev[st[0]].node, detail=R, sig="unlock-nested")
            elif nested is False:
                ok = len(fr) == 1 and fr[0] < st[0] and v == C(0) and _order(ev[st[0]], 1) in REL
                ctx.check(ok, "R22.2", F, "the last unlock clears the owner, then stores 0 with at least release ordering", ev[st[0]].node,
                          detail=R, sig="unlock-last")
            else:
                ctx.bad("R22.2", F, "unlock does not distinguish the last unlock (count <= 1) from a nested one", None, detail=R, sig="unlock-test")
r22_2.rule_id = "R22.2"


def r22_3(ctx):
    """pool_monitor::lock / unlock"""
    for name in ("lock", "unlock"):
        for F in ctx.need("cds::sync::pool_monitor::" + name):
            ps = PathSim(F, bound=1024, watch_reads=("m_pLock",)).run()
            ctx.paths += len(ps)
            for p in ps:
                if p.outcome != "return":
                    continue
                ev = p.events
                cas = [i for i, e in enumerate(ev) if e.kind == "call" and (atomic_op(e) or "").startswith("compare_exchange") and
                       sv_field_path(e.obj)[-1:] == ["m_RefSpin"]]
                rel = [i for i, e in enumerate(ev) if e.kind == "call" and atomic_op(e) == "store" and sv_field_path(e.obj)[-1:] == ["m_RefSpin"]]
                won = [i for i in cas if any(atom == ev[i].val and tv for atom, tv, b in cond_atoms(p))]
                if len(rel) != 1 or not won:
                    ctx.bad("R22.3", F, "%s: the reference/spin word is not taken by a successful CAS and released by one store" % name, None,
                            detail=R, sig="spin-shape")
                    continue
                w = won[-1]
                # every access to m_pLock lies inside (w, rel)
                acc = [i for i, e in enumerate(ev) if (e.kind == "store" and sv_field_path(e.obj)[-1:] == ["m_pLock"])]
                reads = [i for i, e in enumerate(ev) if e.kind in ("call", "branch") and i != w and _mentions_field(e, "m_pLock")]
                rd = [i for i, e in enumerate(ev) if e.kind == "read"]
                if name == "lock":
                    # before the spin bit and a reference are held, the pointer may be attached/detached by another thread
                    early = [i for i in rd if i < w]
                    ctx.check(not early, "R22.3", F, "lock: the node's lock pointer is read only after the spin bit (and a reference) is held",
                              ev[early[0]].node if early else None,
                              detail="a value read earlier can be stale: a second pool lock is attached to the node (two threads in the critical "
                              "section) or a lock already returned to the pool is used. " + R, sig="plock-read-early")
                else:
                    # unlock: the caller holds a reference, so the pointer is stable until that reference is dropped
                    late = [i for i in rd if i > rel[0]]
                    ctx.check(not late, "R22.3", F, "unlock: the node's lock pointer is not read after the reference was dropped", ev[late[0]].node if late else None,
                              detail=R, sig="plock-read-late")
                inside = all(w < i < rel[0] for i in acc)
                ctx.check(inside, "R22.3", F, "%s: the node's lock pointer is written only while the spin bit is held" % name,
                          ev[acc[0]].node if acc else None, detail=R, sig="plock-write-inside")
                # CAS: expected has the spin bit clear, desired sets it (+ reference for lock)
                e = ev[w]
                exp, des = e.args[0], e.args[1]
                d = aff_sub(sv_affine(des), sv_affine(exp))
                if name == "lock":
                    okd = d == {1: 3} or (des[0] == "op" and des[1] == "+" )
                    vals = _consts(des)
                    ctx.check(1 in vals and 2 in vals, "R22.3", F, "lock: the CAS sets the spin bit and adds one reference", e.node,
                              detail="desired %r" % (des,), sig="lock-cas-desired")
                    sv = ev[rel[0]].args[0]
                    ctx.check(aff_sub(sv_affine(sv), sv_affine(exp)) == {1: 2}, "R22.3", F, "lock: the spin is released with the reference kept (expected + increment)",
                              ev[rel[0]].node, sig="lock-release-value")
                    ctx.check(_order(ev[rel[0]], 1) in REL, "R22.3", F, "lock: the spin-releasing store has at least release ordering", ev[rel[0]].node, sig="lock-release-order")
                    # the node lock is locked after the spin release, and it is the pointer read/allocated under the spin
                    lk = [i for i, x in enumerate(ev) if x.kind == "call" and x.q and x.q.endswith("::lock") and not x.q.endswith("pool_monitor::lock")]
                    ctx.check(len(lk) == 1 and lk[0] > rel[0], "R22.3", F, "lock: the node's own lock is taken after the spin is released", ev[lk[0]].node if lk else None,
                              sig="lock-node-after")
                    al = [i for i, x in enumerate(ev) if x.kind == "call" and x.q and x.q.endswith("::allocate")]
                    for i in al:
                        ctx.check(w < i < rel[0], "R22.3", F, "lock: a pool lock is attached to the node only under the spin bit", ev[i].node, sig="alloc-inside")
                else:
                    ctx.check(des == ("op", "|", exp, C(1)) or 1 in _consts(des), "R22.3", F, "unlock: the CAS sets the spin bit", e.node, sig="unlock-cas-desired")
                    sv = ev[rel[0]].args[0]
                    ctx.check(aff_sub(sv_affine(sv), sv_affine(exp)) == {1: -2}, "R22.3", F, "unlock: the spin is released with one reference dropped",
                              ev[rel[0]].node, sig="unlock-release-value")
                    un = [i for i, x in enumerate(ev) if x.kind == "call" and x.q and x.q.endswith("::unlock") and not x.q.endswith("pool_monitor::unlock")]
                    ctx.check(len(un) == 1 and un[0] < w, "R22.3", F, "unlock: the node's own lock is released before the reference is dropped", ev[un[0]].node if un else None,
                              sig="unlock-node-first")
                    de = [i for i, x in enumerate(ev) if x.kind == "call" and x.q and x.q.endswith("::deallocate")]
                    last = None
                    for d0, bev in zero_facts(p):
                        dd = aff_sub(d0, {})
                        if aff_sub(sv_affine(exp), {1: 2}) == dd or {k: -v for k, v in aff_sub(sv_affine(exp), {1: 2}).items()} == dd:
                            last = True
                    detached = [i for i in acc if ev[i].val == NULL]
                    if de or detached:
                        ok = last is True and len(detached) == 1 and all(i > rel[0] for i in de) and len(de) <= 1
                        ctx.check(ok, "R22.3", F, "unlock: the pool lock is detached only by the last reference holder and returned after the spin release",
                                  ev[(de or detached)[0]].node, detail=R, sig="dealloc-last")
                    else:
                        ctx.ok("R22.3", F, "unlock: the lock pointer stays attached while other references exist", None, sig="keep-attached")
r22_3.rule_id = "R22.3"


def _consts(sv):
    out = set()

    def rec(x):
        if isinstance(x, tuple):
            if x and x[0] == "c":
                out.add(x[1])
            else:
                for y in x:
                    rec(y)
    rec(sv)
    return out


def _mentions_field(e, name):
    vals = list(e.args) + ([e.obj] if e.obj is not None else []) + ([e.val] if e.kind == "branch" else [])
    return any(name in repr(v) for v in vals)


def r22_4(ctx):
    """injecting_monitor / lock_array forward to the lock of the addressed node / cell"""
    n = 0
    for name in ("lock", "unlock"):
        for F in ctx.db.find(q="cds::sync::injecting_monitor::" + name):
            n += 1
            calls = [c for c in Q.calls_in(F, r"::%s$" % name) if not c["q"].endswith("injecting_monitor::" + name)]
            ok = len(calls) == 1 and "m_SyncMonitorInjection" in F.text(calls[0].get("obj")) and F.params[0]["n"] in F.text(calls[0].get("obj"))
            ctx.check(ok, "R22.4", F, "injecting_monitor::%s forwards to the lock injected into the given node" % name, calls[0] if calls else None, sig="inj-forward")
        for F in ctx.db.find(q="cds::sync::lock_array::" + name):
            if not F.params:
                continue
            n += 1
            calls = [c for c in Q.calls_in(F, r"::%s$" % name) if not c["q"].endswith("lock_array::" + name)]
            ok = len(calls) == 1
            if ok:
                from sa.dataflow import roots, root_vars
                obj = F.strip(calls[0].get("obj"))
                ok = False
                if obj.get("k") == "subscript" and "m_arrLocks" in F.text(obj["base"]):
                    rs = roots(F, obj["idx"], calls[0]["_site"])
                    pv = F.params[0]["d"]
                    for r in rs:
                        if r[0] == "var" and r[1] == pv:
                            ok = True
                        if r[0] == "call" and "select_policy" in r[1] and pv in root_vars(set().union(*r[3])) :
                            ok = True
            ctx.check(ok, "R22.4", F, "lock_array::%s(hint) locks exactly the selected cell" % name, calls[0] if calls else None, sig="array-forward")
    if n < 4:
        ctx.broken("injecting_monitor / lock_array members not instantiated (%d)" % n)
r22_4.rule_id = "R22.4"


RULES = [r22_1, r22_2, r22_3, r22_4]
FLOORS = {"R22.1": 5, "R22.2": 12, "R22.3": 10, "R22.4": 4}
