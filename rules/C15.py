"""C15 - Skip lists and trees (structural clauses: HP guard / RCU lock discipline, skip-list position provenance and removal protocol,
Ellen-tree flag / help / retire protocol, Bronson node-lock discipline; DESIGN.md §4 C15).  Linearizability is NOT decided."""
import re

from sa import run as _run
from sa import q as Q
from sa.cfg import cfg_of, PathBoundExceeded
from sa.pathsim import PathSim, C, NULL
from sa.q import cond_atoms, strip_sv, sv_field_path, atomic_op, noepoch
from . import e2, e3, skiplist, bronson
from .C13 import contract

PROPERTY = "C15"
LEVEL = "other"
FILES = (r"^%s/cds/(intrusive/(impl/(skip_list|ellen_bintree)|skip_list_\w+|ellen_bintree_\w+|details/(skip_list_base|ellen_bintree_base))\.h|"
         r"container/(impl/(bronson_avltree_map_rcu|skip_list_(set|map)|ellen_bintree_(set|map))|details/bronson_avltree_base|skip_list_(set|map)_\w+|"
         r"ellen_bintree_(set|map)_\w+|bronson_avltree_map_rcu)\.h|urcu/raw_ptr\.h)" % _run.REPO)
NEED_BELIEF = True
MAX_INST = {"quick": 2, "thorough": 0}
TUS = {"quick": ["test/unit/intrusive-set/intrusive_skiplist_hp.cpp", "test/unit/intrusive-set/intrusive_skiplist_rcu_gpb.cpp",
                 "test/unit/tree/intrusive_ellenbintree_dhp.cpp", "test/unit/tree/intrusive_ellenbintree_rcu_gpb.cpp",
                 "test/unit/tree/bronson_avltree_map_rcu_gpb.cpp", "test/unit/tree/bronson_avltree_map_ptr_rcu_gpb.cpp"],
       "thorough": ["test/unit/intrusive-set/intrusive_skiplist_*.cpp", "test/unit/tree/*.cpp", "test/unit/set/skiplist_*.cpp", "test/unit/map/skiplist_*.cpp"]}
BELIEF_TUS = {"quick": ["test/unit/intrusive-set/intrusive_skiplist_rcu_gpb.cpp", "test/unit/tree/intrusive_ellenbintree_rcu_gpb.cpp",
                        "test/unit/tree/bronson_avltree_map_rcu_gpb.cpp", "test/unit/tree/bronson_avltree_map_ptr_rcu_gpb.cpp"],
              "thorough": ["test/unit/intrusive-set/intrusive_skiplist_rcu_*.cpp", "test/unit/tree/*rcu*.cpp", "test/unit/set/skiplist_rcu_*.cpp",
                           "test/unit/map/skiplist_rcu_*.cpp"]}
EXPLANATION = (
    "Structural clauses only. HP/DHP skip list and Ellen tree: guard typestate (E2). RCU skip list, Ellen tree, Bronson map: read-lock discipline "
    "from the code's own is_locked() asserts, including implicit destructors and unguarded dereferences (E3). Skip list: link positions come only from "
    "the key-ordered search routines, the level-L link CAS swings pos.pPrev[L]->next(L) from pos.pSucc[L] to the node; the insert functor runs once, "
    "after the level-0 link succeeded; an erase reports success / calls its functor / retires only on the path where its level-0 mark CAS won, and "
    "retires only when every level was unlinked (or the unlink counter reached zero in the helper). Ellen tree: child pointers are swung only by "
    "help_insert / help_marked (who-may-write), a flag CAS is followed by its help routine only when won, a descriptor is freed directly only when "
    "it was never published, nodes are retired only by the thread whose Mark CAS won, the erase functor / counter run only after help_delete "
    "succeeded, the new internal node's children are ordered by the comparison made in try_insert and initialised before the flag CAS. Bronson map: the link / version / height / value fields of a node are written only while that node's monitor lock is held "
    "(own scoped lock, or a parameter that every call site of a *_locked member / helper lambda passes locked or freshly allocated - inferred as a "
    "greatest fixpoint over the call sites); a child's parent pointer is written under the lock of the node that becomes its parent; a member given (pNode, nVersion) re-validates pNode->version() == nVersion under "
    "pNode's lock before it writes or unlinks pNode. NOT decided: linearizability, extract_min/max emptiness claims, helping progress.")
ASSUMPTIONS = ["clang CFG (-DNDEBUG); asserts harvested from a second parse with -UNDEBUG", "rules/rcu_contract.json is the reviewed reference of "
               "members whose callers must hold the RCU lock", "necessary conditions only"]
R = "Otherwise a node is touched after reclamation, linked out of order, retired twice / while reachable, or an update is applied on a stale position (C15)."


def _won(p, e):
    for atom, tv, bev in cond_atoms(p):
        if atom == e.val:
            return tv
    return None


def _has(sv, pred):
    if pred(sv):
        return True
    if isinstance(sv, (tuple, frozenset)):
        return any(_has(x, pred) for x in sv if isinstance(x, (tuple, frozenset)))
    return False


def _members(ctx):
    return [f for f in ctx.db.funcs.values() if re.match(r"cds::(intrusive|container)::(SkipList(Set|Map)|EllenBinTree(Set|Map)?|BronsonAVLTreeMap)::", f.q)
            or re.match(r"cds::(intrusive|container)::(skip_list|ellen_bintree|bronson_avltree)::", f.q)]


def exempt_tower(F, e, ld):
    return False


def r15_1(ctx):
    a, s = e2.rule_guard_discipline(ctx, "R15.1", _members(ctx), R, bound=6000)
    ctx.info["e2_skipped_path_bound"] = s
    if a < 20:
        ctx.broken("only %d HP/DHP skip-list / Ellen-tree members analysed for guard discipline (%d skipped)" % (a, s))
r15_1.rule_id = "R15.1"


def r15_2(ctx):
    n, s, derived = e3.rule_rcu_discipline(ctx, "R15.2", _members(ctx), R, contract=contract(), bound=4000)
    ctx.info["e3_skipped_path_bound"] = s
    if n < 150:
        ctx.broken("only %d RCU skip-list / tree members analysed (%d skipped)" % (n, s))
r15_2.rule_id = "R15.2"


def r15_3(ctx):
    """skip list"""
    n = skiplist.rule_position_writers(ctx, "R15.3", R)
    m = skiplist.rule_link_provenance(ctx, "R15.3", R)
    if n < 8 or m < 2:
        ctx.broken("skip-list position writes / link CAS sites not found (%d/%d)" % (n, m))
    k = 0
    for F in ctx.db.funcs.values():
        if re.match(r"cds::intrusive::SkipListSet::insert_at_position$", F.q) and F.gc_kind() != "nogc":
            fpar = [("p", pr["d"], pr["n"]) for pr in F.params if pr["n"] == "f"]
            try:
                ps = PathSim(F, bound=6000).run()
            except PathBoundExceeded:
                ctx.broken("path bound exceeded in %s" % F.q)
                continue
            for p in ps:
                ev = p.events
                nxt = {e.val: e for e in ev if e.kind == "call" and e.q and e.q.endswith("node::next")}
                l0 = [e for e in ev if e.kind == "call" and (atomic_op(e) or "").startswith("compare_exchange") and e.obj in nxt and nxt[e.obj].args and nxt[e.obj].args[0] == C(0)
                      and "pPrev" in repr(nxt[e.obj].obj)]
                fc = [e for e in ev if e.kind == "call" and fpar and (e.obj == fpar[0] or (e.q or "").endswith("operator()") and e.obj is not None and _has(e.obj, lambda s: s == fpar[0]))]
                if fc:
                    k += 1
                    i = ev.index(fc[0])
                    ctx.check(len(fc) == 1 and l0 and ev.index(l0[0]) < i and _won(p, l0[0]) is True, "R15.3", F,
                              "the insert functor runs exactly once, after this thread linked the node at level 0", fc[0].node, detail=R, sig="functor-after-link0")
                if p.outcome == "return" and p.ret == C(0):
                    k += 1
                    ctx.check(bool(l0) and _won(p, l0[0]) is False and not fc, "R15.3", F, "insert_at_position fails only when the level-0 link CAS lost (nothing was linked)", None,
                              detail=R, sig="fail-only-level0")
        if re.match(r"cds::intrusive::SkipListSet::try_remove_at$", F.q):
            try:
                ps = PathSim(F, bound=8000).run()
            except PathBoundExceeded:
                ctx.broken("path bound exceeded in %s" % F.q)
                continue
            fpar = [("p", pr["d"], pr["n"]) for pr in F.params if pr["n"] == "f"]
            pdel = [("p", pr["d"], pr["n"]) for pr in F.params if pr["n"] == "pDel"]
            for p in ps:
                ev = p.events
                nxt = {e.val: e for e in ev if e.kind == "call" and e.q and e.q.endswith("node::next")}
                mark0 = [e for e in ev if e.kind == "call" and (atomic_op(e) or "").startswith("compare_exchange") and e.obj in nxt and nxt[e.obj].args and nxt[e.obj].args[0] == C(0)
                         and pdel and nxt[e.obj].obj == pdel[0]]
                won = bool(mark0) and any(_won(p, e) is True for e in mark0)
                fc = [e for e in ev if e.kind == "call" and fpar and (e.obj == fpar[0] or ((e.q or "").endswith("operator()") and e.obj is not None and _has(e.obj, lambda s: s == fpar[0])))]
                ret = [e for e in ev if e.kind == "call" and e.q and re.search(r"(::retire|::retire_ptr|dispose_node|::dispose)$", e.q) and not e.q.endswith("node::next")]
                for e in fc:
                    k += 1
                    ctx.check(won and ev.index(e) > ev.index(mark0[-1]), "R15.3", F, "the erase functor runs only on the path where this thread's level-0 mark CAS won", e.node, detail=R, sig="functor-after-mark")
                for e in ret:
                    k += 1
                    lost = [x for x in ev[:ev.index(e)] if x.kind == "call" and (atomic_op(x) or "").startswith("compare_exchange") and x.obj in nxt and "pPrev" in repr(nxt[x.obj].obj) and _won(p, x) is False]
                    ctx.check(won and not lost, "R15.3", F, "the node is retired by the fast path only when this thread marked it and unlinked it at every level itself", e.node,
                              detail="a failed unlink CAS hands the node to the helping path, which retires it when the unlink counter reaches zero. " + R, sig="retire-after-all-levels")
                if p.outcome == "return" and p.ret == C(1):
                    k += 1
                    ctx.check(won, "R15.3", F, "try_remove_at reports success only when its level-0 mark CAS won", None, detail=R, sig="success-after-mark")
                elif p.outcome == "return" and p.ret == C(0):
                    ctx.check(not won and not fc, "R15.3", F, "try_remove_at fails only when another thread owns the removal", None, sig="fail-not-owner")
        if re.match(r"cds::intrusive::SkipListSet::help_remove$", F.q):
            for p in PathSim(F, bound=2000).run():
                ev = p.events
                for i, e in enumerate(ev):
                    if e.kind == "call" and e.q and re.search(r"(gc::retire|::retire|::retire_ptr|dispose_node)$", e.q):
                        k += 1
                        cas = [x for x in ev[:i] if x.kind == "call" and (atomic_op(x) or "").startswith("compare_exchange")]
                        lu = [x for x in ev[:i] if x.kind == "call" and x.q and x.q.endswith("::level_unlinked")]
                        ctx.check(bool(cas) and _won(p, cas[-1]) is True and bool(lu) and _won(p, lu[-1]) is True, "R15.3", F,
                                  "the helper retires a node only after its own unlink CAS succeeded and the unlink counter reached zero", e.node, detail=R, sig="help-retire-last")
    mk = skiplist.rule_mark_cas_from_unmarked(ctx, "R15.3", [f for f in ctx.db.funcs.values() if re.match(r"cds::intrusive::SkipListSet::try_remove_at$", f.q)], R)
    if k < 12 or mk < 2:
        ctx.broken("skip-list insert/remove protocol sites not found (%d, %d mark CAS sites)" % (k, mk))
r15_3.rule_id = "R15.3"


CHILD = ("m_pLeft", "m_pRight")


def r15_4(ctx):
    """Ellen tree"""
    k = 0
    ET = re.compile(r"cds::intrusive::EllenBinTree::")
    for F in ctx.db.funcs.values():
        if not ET.match(F.q) or F.kind in ("ctor", "dtor"):
            continue
        name = F.q.split("::")[-1]
        if name in ("unsafe_clear", "clear", "check_consistency"):
            continue
        writes = Q.calls_in(F, r"std::(atomic|__atomic_base)::(store|exchange|compare_exchange_\w+)$")
        if not writes:
            continue
        try:
            ps = PathSim(F, bound=6000).run()
        except PathBoundExceeded:
            continue
        for p in ps:
            ev = p.events
            for i, e in enumerate(ev):
                op = atomic_op(e)
                if e.kind != "call" or op in (None, "load") or e.obj is None:
                    continue
                fp = sv_field_path(e.obj)
                if fp[-1:] and fp[-1] in CHILD:
                    k += 1
                    if op.startswith("compare_exchange"):
                        ctx.check(name in ("help_insert", "help_marked"), "R15.4", F, "a child pointer of a published node is swung only by help_insert / help_marked", e.node,
                                  detail="those run only for a descriptor that was installed in the parent's update word. " + R, sig="child-cas-writer")
                    else:
                        fresh = _has(e.obj, lambda s: isinstance(s, tuple) and s[:1] == ("p",) and s[-1] == "pNewInternal")
                        if name == "make_empty_tree":
                            continue     # (re)initialisation of the sentinel root; its callers are checked below
                        ctx.check(name == "try_insert" and fresh, "R15.4", F, "child pointers are stored directly only into the not yet published new internal node", e.node,
                                  detail=R, sig="child-store-fresh")
    for F in ctx.db.funcs.values():
        if ET.match(F.q) and Q.calls_in(F, r"EllenBinTree::make_empty_tree$"):
            k += 1
            ctx.check(F.kind == "ctor" or F.q.split("::")[-1] in ("unsafe_clear",), "R15.4", F,
                      "the sentinel root is (re)initialised only by the constructor and by unsafe_clear() (documented as not thread-safe)", None, detail=R, sig="root-init-callers")
    # try_insert protocol
    for F in ctx.db.funcs.values():
        if not re.match(r"cds::intrusive::EllenBinTree::try_insert$", F.q):
            continue
        for p in PathSim(F, bound=4000).run():
            ev = p.events
            flag = [e for e in ev if e.kind == "call" and (atomic_op(e) or "").startswith("compare_exchange") and sv_field_path(e.obj)[-1:] == ["m_pUpdate"]]
            hi = [e for e in ev if e.kind == "call" and e.q and e.q.endswith("::help_insert")]
            fr = [e for e in ev if e.kind == "call" and e.q and e.q.endswith("::free_update_desc")]
            rt = [e for e in ev if e.kind == "call" and e.q and e.q.endswith("::retire_update_desc")]
            if flag:
                k += 1
                w = _won(p, flag[0])
                ctx.check((bool(hi) and bool(rt) and not fr) if w else (not hi), "R15.4", F,
                          "the insertion is performed (help_insert, then the descriptor retired) exactly when the IFlag CAS on the parent won; a descriptor is "
                          "freed directly only when it was never published", flag[0].node, detail=R, sig="iflag-protocol")
                st = [e for e in ev[:ev.index(flag[0])] if e.kind == "call" and atomic_op(e) == "store" and sv_field_path(e.obj)[-1:] and sv_field_path(e.obj)[-1] in CHILD]
                ctx.check(len(st) >= 2, "R15.4", F, "both children of the new internal node are initialised before the descriptor is published", flag[0].node, detail=R, sig="init-before-flag")
                # orientation: the comparison decides which side the new leaf goes to
                sign = None
                for atom, tv, bev in cond_atoms(p):
                    if isinstance(atom, tuple) and atom[:2] == ("op", "<") and atom[3] == C(0):
                        sign = tv
                if sign is not None and len(st) >= 2:
                    left = [e for e in st if sv_field_path(e.obj)[-1] == "m_pLeft"][-1]
                    newleaf_left = _has(left.args[0], lambda s: isinstance(s, tuple) and s[:1] == ("call",) and str(s[1]).endswith("to_node_ptr")) or \
                        _has(left.args[0], lambda s: isinstance(s, tuple) and s[:1] == ("p",) and s[-1] == "val")
                    ctx.check(newleaf_left == sign, "R15.4", F, "the new leaf becomes the left child exactly when its key compares less than the leaf found", left.node,
                              detail="search-tree order of the new internal node. " + R, sig="insert-orientation")
            if p.outcome == "return":
                ctx.check((p.ret == C(1)) == bool(flag and _won(p, flag[0]) is True), "R15.4", F, "try_insert reports success exactly when its IFlag CAS won", None, sig="insert-result")
    # help_delete: retire only by the thread whose Mark CAS won
    for F in ctx.db.funcs.values():
        if not re.match(r"cds::intrusive::EllenBinTree::help_delete$", F.q):
            continue
        for p in PathSim(F, bound=2000).run():
            ev = p.events
            cas = [e for e in ev if e.kind == "call" and (atomic_op(e) or "").startswith("compare_exchange") and sv_field_path(e.obj)[-1:] == ["m_pUpdate"]]
            rn = [e for e in ev if e.kind == "call" and e.q and re.search(r"::(retire_node|retire_ptr|retire)$", e.q) and not e.q.endswith("retire_update_desc")]
            ru = [e for e in ev if e.kind == "call" and e.q and e.q.endswith("::retire_update_desc")]
            hm = [e for e in ev if e.kind == "call" and e.q and e.q.endswith("::help_marked")]
            if not cas:
                continue
            k += 1
            markwon = _won(p, cas[0]) is True
            okr = not rn
            if markwon:
                okr = 1 <= len(rn) <= 2 and bool(hm) and ev.index(hm[0]) < ev.index(rn[0]) and "pParent" in repr(rn[0].args[0]) and \
                    (len(rn) == 1 or "pLeaf" in repr(rn[1].args[0]))
            ctx.check(okr, "R15.4", F,
                      "parent (and leaf) are retired - once each, after help_marked - only by the thread whose Mark CAS on the parent won", (rn[0] if rn else cas[0]).node, detail=R, sig="retire-by-marker")
            if ru and not markwon:
                ctx.check(len(cas) >= 2 and _won(p, cas[-1]) is True, "R15.4", F, "on the undo path the descriptor is retired only when this thread's unflag CAS of the grandparent won",
                          ru[0].node, detail=R, sig="undo-retire")
            if p.outcome == "return" and p.ret == C(1):
                ctx.check(bool(hm), "R15.4", F, "help_delete reports success only after the splice (help_marked) ran", None, sig="delete-result")
    # erase_/extract_*: functor, counter only after help_delete succeeded
    for F in ctx.db.funcs.values():
        if not re.match(r"cds::intrusive::EllenBinTree::(erase_|extract_item|extract_min_|extract_max_|extract_|extract_with_)$", F.q):
            continue
        try:
            ps = PathSim(F, bound=6000).run()
        except PathBoundExceeded:
            continue
        for p in ps:
            ev = p.events
            dec = [e for e in ev if e.kind == "call" and e.q and re.search(r"item_counter::operator--$", e.q)]
            hd = [e for e in ev if e.kind == "call" and e.q and e.q.endswith("::help_delete")]
            flag = [e for e in ev if e.kind == "call" and (atomic_op(e) or "").startswith("compare_exchange") and sv_field_path(e.obj)[-1:] == ["m_pUpdate"]]
            for e in hd:
                k += 1
                prev = [x for x in flag if ev.index(x) < ev.index(e)]
                ctx.check(bool(prev) and _won(p, prev[-1]) is True, "R15.4", F, "help_delete runs for an own descriptor only after the DFlag CAS on the grandparent won", e.node, detail=R, sig="dflag-before-help")
            if dec and (hd or flag):
                k += 1
                ctx.check(bool(hd) and _won(p, hd[-1]) is True, "R15.4", F, "the item counter is decremented only after help_delete() succeeded", dec[0].node, detail=R, sig="count-after-delete")
    if k < 40:
        ctx.broken("Ellen-tree protocol sites not found (%d)" % k)
r15_4.rule_id = "R15.4"


def _sv_bits(sv, w=64):
    """bit-provenance value of an integer SV whose only unknown is the result of the counter's fetch_add (symbolic input)"""
    from sa.bitdom import const, inp, v_add, v_shl, v_shr, v_and, v_or, v_xor, Undecided
    if isinstance(sv, tuple):
        if sv[:1] == ("c",) and isinstance(sv[1], int):
            return const(w, sv[1] & ((1 << w) - 1))
        if sv[:1] == ("call",) and str(sv[1]).endswith("fetch_add"):
            return inp(w)
        if sv[:1] == ("cast",):
            return _sv_bits(sv[-1], w)
        if sv[:1] == ("op",) and len(sv) == 4:
            a = _sv_bits(sv[2], w)
            if sv[1] in ("<<", ">>"):
                if not (isinstance(sv[3], tuple) and sv[3][:1] == ("c",)):
                    raise Undecided("variable shift")
                return v_shl(a, sv[3][1]) if sv[1] == "<<" else v_shr(a, sv[3][1])
            b = _sv_bits(sv[3], w)
            return {"+": v_add, "&": v_and, "|": v_or, "^": v_xor}[sv[1]](a, b)
    raise Undecided("unsupported term %r" % (sv,))


def r15_6(ctx):
    """Ellen tree ABA stamp: the 'clean' update word a node gets when it is unflagged carries no flag bits and changes with EVERY unflag (the
    lowest bit of the per-node counter reaches the stamp) - try_insert / erase rely on 'm_pUpdate unchanged since search()' meaning 'nobody
    flagged and unflagged this node in between'"""
    from sa.bitdom import Undecided, fmt
    n = 0
    for F in ctx.db.find(q="cds::intrusive::ellen_bintree::internal_node::null_update_desc"):
        for p in PathSim(F, bound=64).run():
            if p.outcome != "return":
                continue
            r = p.ret
            while isinstance(r, tuple) and r[:1] == ("obj",) and len(r) > 2 and len(r[2]) == 1:
                r = r[2][0]
            n += 1
            try:
                bits = _sv_bits(r)
            except (Undecided, KeyError) as e:
                ctx.broken("null_update_desc: return expression outside the bit domain: %s" % e)
                continue
            flags_clear = bits[0] == 0 and bits[1] == 0
            low = [b for b in bits[2:] if isinstance(b, tuple) and b[0] in ("i", "n") and b[1] == 0]
            ctx.check(flags_clear and bool(low), "R15.6", F, "the clean update stamp has its two flag bits clear and differs for consecutive unflags of the node", None,
                      detail="stamp bits (LSB first): %s. If the counter's lowest bit does not reach the stamp, a complete insert/erase under the same parent between "
                      "search() and the flag CAS goes unnoticed: the second insert wins its IFlag CAS on a stale leaf and reports success without linking. %s"
                      % (fmt(bits[:18]), R), sig="aba-stamp")
    if n < 1:
        ctx.broken("internal_node::null_update_desc not found")
r15_6.rule_id = "R15.6"


def r15_5(ctx):
    n = bronson.rule_node_locks(ctx, "R15.5", R)
    if n < 20:
        ctx.broken("Bronson node writes not found (%d)" % n)
r15_5.rule_id = "R15.5"


def r15_7(ctx):
    n = bronson.rule_version_validation(ctx, "R15.7", R)
    if n < 3:
        ctx.broken("Bronson version re-validation sites not found (%d)" % n)
r15_7.rule_id = "R15.7"


def r15_8(ctx):
    from . import ellen
    n = ellen.rule_publish_init_agreement(ctx, "R15.8", R)
    if n < 3:
        ctx.broken("EllenBinTree::try_insert publishing paths not found (%d)" % n)
r15_8.rule_id = "R15.8"


RULES = [r15_1, r15_2, r15_3, r15_4, r15_5, r15_6, r15_7, r15_8]
FLOORS = {"R15.1": 20, "R15.2": 150, "R15.3": 20, "R15.4": 40, "R15.5": 20, "R15.6": 1, "R15.7": 3, "R15.8": 3}
