"""C27 - Split-order key encoding keeps each bucket contiguous (decided clauses: DESIGN.md §4 C27)."""
from sa import run as _run
from . import bits

PROPERTY = "C27"
LEVEL = "proof"
FILES = r"^%s/cds/(algo/(bit_reversal|bitop|base)\.h|details/bitop_generic\.h|compiler/gcc/amd64/bitop\.h|intrusive/details/split_list_base\.h|intrusive/split_list(_rcu|_nogc)?\.h)$" % _run.REPO
NAMES = r"bit_reversal|bitop|regular_hash|dummy_hash|bucket_no$|parent_bucket$|size_t_cast"
TUS = {
    "quick": ["/verif/drivers/bits.cpp", "test/unit/intrusive-set/intrusive_split_michael_hp.cpp",
              "test/unit/intrusive-set/intrusive_split_michael_rcu_gpb.cpp", "test/unit/intrusive-set/intrusive_split_michael_nogc.cpp"],
    "thorough": ["/verif/drivers/bits.cpp", "test/unit/intrusive-set/intrusive_split_*.cpp", "test/unit/set/split_*.cpp", "test/unit/map/split_*.cpp"],
}
EXPLANATION = (
    "Bit-provenance abstract interpretation (one symbolic 64-bit hash, every bit tracked) of regular_hash/dummy_hash for each "
    "reversal algorithm proves for ALL hashes: regular keys are odd, dummies even, both otherwise the bit-reversed hash. "
    "bucket_no and parent_bucket of the three split-list implementations are evaluated for every table size 2^k / every MSB "
    "position k=0..63 with all other bits symbolic, proving 'hash mod 2^k' and 'clear exactly the top set bit'. A type-level "
    "lint forbids masks shifted in a type narrower than size_t. Not decided: the contiguity lemma over list order (needs "
    "arithmetic over k and the asm MSB primitive, which is trusted here as returning the MSB index).")
ASSUMPTIONS = [
    "bitop::MSBnz (inline asm bsr) returns the index of the most significant set bit - the asm itself is outside the domain",
    "std::atomic<size_t>::load returns the stored log2 bucket count, ranged over 0..63 exhaustively",
    "clang's integer promotion/conversion nodes in the AST are what the compiler applies",
]


def r27_1(ctx):
    bits.rule_split_order_hash(ctx, "R27.1")
r27_1.rule_id = "R27.1"


def r27_2(ctx):
    bits.rule_bucket_masks(ctx, "R27.2")
r27_2.rule_id = "R27.2"


def r27_3(ctx):
    bits.rule_no_widening_shift(ctx, "R27.3", r"/cds/intrusive/split_list(_rcu|_nogc)?\.h$", min_functions=6)
r27_3.rule_id = "R27.3"


RULES = [r27_1, r27_2, r27_3]
FLOORS = {"R27.1": 6, "R27.2": 6, "R27.3": 6}
