"""C27 - Split-order key encoding keeps each bucket contiguous (decided clauses: DESIGN.md §4 C27)."""
from sa import run as _run
from . import bits

PROPERTY = "C27"
LEVEL = "proof"
FILES = r"^%s/cds/(algo/(bit_reversal|bitop|base)\.h|details/bitop_generic\.h|compiler/gcc/amd64/bitop\.h|intrusive/details/split_list_base\.h|intrusive/split_list(_rcu|_nogc)?\.h)$" % _run.REPO
NAMES = r"bit_reversal|bitop|regular_hash|dummy_hash|bucket_no$|parent_bucket$|size_t_cast|key_compare::operator\(\)|make_compare_from_less::operator\(\)"
TUS = {
    "quick": ["/verif/drivers/bits.cpp", "test/unit/intrusive-set/intrusive_split_michael_hp.cpp",
              "test/unit/intrusive-set/intrusive_split_michael_rcu_gpb.cpp", "test/unit/intrusive-set/intrusive_split_michael_nogc.cpp"],
    "thorough": ["/verif/drivers/bits.cpp", "test/unit/intrusive-set/intrusive_split_*.cpp", "test/unit/set/split_*.cpp", "test/unit/map/split_*.cpp"],
}
EXPLANATION = (
    "Bit-provenance abstract interpretation (one symbolic 64-bit hash, every bit tracked) of regular_hash/dummy_hash for each "
    "reversal algorithm proves for ALL hashes: regular keys are odd, dummies even, both otherwise the bit-reversed hash. "
    "bucket_no and parent_bucket of the three split-list implementations are evaluated for every table size 2^k / every MSB "
    "position k=0..63 with all other bits symbolic, proving 'hash mod 2^k' and 'clear exactly the top set bit'. A type-level "
    "lint forbids masks shifted in a type narrower than size_t. The comparators wrapped around the ordered list (key_compare, "
    "make_compare_from_less for every list kind) order two split-order keys by relational operators on the two unsigned values themselves, never by "
    "the sign of their difference. Not decided: the contiguity lemma over list order (needs "
    "arithmetic over k and the asm MSB primitive, which is trusted here as returning the MSB index).")
ASSUMPTIONS = [
    "bitop::MSBnz (inline asm bsr) returns the index of the most significant set bit - the asm itself is outside the domain",
    "std::atomic<size_t>::load returns the stored log2 bucket count, ranged over 0..63 exhaustively",
    "clang's integer promotion/conversion nodes in the AST are what the compiler applies",
]


def r27_1(ctx):
    bits.rule_split_order_hash(ctx, "R27.1")
r27_1.rule_id = "R27.1"


def r27_2(ctx):
    bits.rule_bucket_masks(ctx, "R27.2")
r27_2.rule_id = "R27.2"


def r27_3(ctx):
    bits.rule_no_widening_shift(ctx, "R27.3", r"/cds/intrusive/split_list(_rcu|_nogc)?\.h$", min_functions=6)
r27_3.rule_id = "R27.3"


def r27_4(ctx):
    """the ordered list under a split list is sorted by the split-order key taken as an UNSIGNED integer: the wrapped comparators decide the
    order of two keys by relational operators applied to the two m_nHash / nHash values themselves.  Ordering by the sign of their difference
    is not a total order on full-width keys (wrong as soon as two keys are 2^(w-1) or more apart - e.g. an even-hash and an odd-hash key)."""
    import re
    from sa.pathsim import PathSim
    from sa.q import cond_atoms, noepoch, sv_field_path

    def is_hash(sv):
        return isinstance(sv, tuple) and sv_field_path(sv)[-1:] and sv_field_path(sv)[-1] in ("m_nHash", "nHash")

    def find_diff(sv, d=0):
        """a subtraction of two split-order keys somewhere inside sv"""
        if not isinstance(sv, tuple) or d > 8:
            return None
        if sv[:2] == ("op", "-") and len(sv) == 4 and has_hash(sv[2]) and has_hash(sv[3]):
            return sv
        for x in sv:
            r = find_diff(x, d + 1) if isinstance(x, tuple) else None
            if r is not None:
                return r
        return None

    def has_hash(sv, d=0):
        if is_hash(sv):
            return True
        return isinstance(sv, tuple) and d < 6 and any(has_hash(x, d + 1) for x in sv if isinstance(x, tuple))
    n = 0
    for F in ctx.db.funcs.values():
        if not re.search(r"split_list::details::.*(key_compare|make_compare_from_less)::operator\(\)$", F.q):
            continue
        for p in PathSim(F, bound=2000).run():
            for atom, tv, bev in cond_atoms(p):
                a = noepoch(atom)
                if not (isinstance(a, tuple) and a[:1] == ("op",) and len(a) == 4 and a[1] in ("<", ">", "<=", ">=", "==", "!=")):
                    continue
                if not (has_hash(a[2]) or has_hash(a[3])):
                    continue
                n += 1
                diff = find_diff(a) if a[1] in ("<", ">", "<=", ">=") else None
                ctx.check(diff is None, "R27.4", F, "split-order keys are ordered by comparing the two unsigned key values directly", bev.node,
                          detail="the order is decided by the sign of the difference %r: not a total order on full-width unsigned keys - keys 2^63 or more apart "
                          "(an even-hash bucket dummy and an odd-hash key) compare the wrong way round, a bucket is no longer a contiguous run of the list (C27)"
                          % (diff,), sig="key-order-by-difference")
    if n < 6:
        ctx.broken("split-list key comparators not found (%d relational decisions on split-order keys)" % n)
r27_4.rule_id = "R27.4"


RULES = [r27_1, r27_2, r27_3, r27_4]
FLOORS = {"R27.1": 6, "R27.2": 6, "R27.3": 6, "R27.4": 6}
