"""BronsonAVLTreeMap node-lock discipline (lockset analysis on enumerated paths + call-site inference of the '*_locked' convention)."""
import re

from sa import q as Q
from sa.cfg import PathBoundExceeded
from sa.pathsim import PathSim, C, NULL
from sa.q import sv_field_path, atomic_op, noepoch, strip_sv

BR = re.compile(r"cds::container::BronsonAVLTreeMap::")
NODE_FIELDS = ("m_pLeft", "m_pRight", "m_pValue", "m_nVersion", "m_nHeight")
SKIP = ("unsafe_clear", "clear", "destroy", "check_consistency", "do_check_consistency", "free_node", "free_value", "alloc_node",
        "set_height", "begin_change", "end_change")     # the last three are the write primitives: attributed to their call sites


def _node_of(sv):
    """pointer SV of the node whose field / method is touched"""
    sv = noepoch(sv) if isinstance(sv, tuple) else sv
    if isinstance(sv, tuple) and sv[:1] == ("deref",):
        return sv[1]
    return sv


def _norm(sv):
    return noepoch(sv) if isinstance(sv, tuple) else sv


def writes_and_locks(F, p, locked_params):
    """yields (event, node written, kind, lockset at that point)"""
    live = {}
    base = set(locked_params)
    out = []
    fresh = set()
    for e in p.events:
        if e.kind == "var" and e.extra and re.search(r"monitor_scoped_lock$|::scoped_lock$", str(e.extra[1] or "")):
            args = e.val[2] if isinstance(e.val, tuple) and len(e.val) > 2 and isinstance(e.val[2], tuple) else ()
            if len(args) >= 2:
                live[e.obj] = _norm(_node_of(args[1]))
            continue
        if e.kind == "dtor" and e.obj in live:
            del live[e.obj]
            continue
        if e.kind != "call" or not e.q:
            continue
        ls = base | set(live.values())
        if re.search(r"::alloc_node$", e.q):
            fresh.add(_norm(e.val))
            continue
        op = atomic_op(e)
        node = kind = None
        if op in ("store", "exchange") or (op or "").startswith("compare_exchange") or (op or "").startswith("fetch_"):
            fp = sv_field_path(e.obj) if e.obj is not None else []
            if fp[-1:] and fp[-1] in NODE_FIELDS and isinstance(e.obj, tuple) and e.obj[:1] == ("fld",):
                node, kind = _norm(e.obj[1]), fp[-1]
        elif re.search(r"link_node::child$", e.q) and len(e.args) == 3:
            node, kind = _norm(e.obj), "child"
        elif re.search(r"link_node::(height|version)$", e.q) and len(e.args) == 2:
            node, kind = _norm(e.obj), e.q.split("::")[-1]
        elif re.search(r"::(exchange_version)$", e.q):
            node, kind = _norm(e.obj), "version"
        elif re.search(r"BronsonAVLTreeMap::(begin_change|end_change|set_height)$", e.q) and e.args:
            node, kind = _norm(e.args[0]), e.q.split("::")[-1]
        elif re.search(r"link_node::parent$", e.q) and len(e.args) == 2:
            # the parent pointer of X is written under the lock of the node that becomes its parent
            if e.args[0] != NULL:
                node, kind = _norm(e.args[0]), "parent-of-child"
        if node is None or node in fresh or (isinstance(node, tuple) and node[:1] == ("addr",)):
            continue
        out.append((e, node, kind, ls))
    return out


def rule_node_locks(ctx, rid, reason):
    funcs = [f for f in ctx.db.funcs.values() if BR.match(f.q) and f.kind not in ("ctor", "dtor") and f.q.split("::")[-1] not in SKIP]
    by_ct = {}
    for F in funcs:
        by_ct.setdefault(F.ct, []).append(F)
    total = 0
    for ct, fs in by_ct.items():
        paths = {}
        for F in fs:
            if not any(e.get("k") == "call" for _, _, e in F.all_elements()):
                continue
            try:
                paths[F.m] = PathSim(F, bound=6000).run()
            except PathBoundExceeded:
                ctx.note("path bound exceeded: %s (not analysed for node locks)" % F.q) if hasattr(ctx, "note") else None
        fmap = {F.m: F for F in fs}

        def node_params(F):
            return [i for i, pr in enumerate(F.params) if re.search(r"(node_type|bronson_avltree::node<|link_node<).*\*$", (pr.get("t") or "").strip())]
        # greatest fixpoint: parameters of '*_locked' members assumed locked on entry
        L = {F.m: set(node_params(F)) if (F.q.endswith("_locked") or F.kind == "lambda") else set() for F in fs}
        changed = True
        rounds = 0
        while changed and rounds < 20:
            changed = False
            rounds += 1
            for g in fs:
                if g.m not in paths:
                    continue
                lp = set(("p", g.params[i]["d"], g.params[i]["n"]) for i in L[g.m])
                for p in paths[g.m]:
                    live = {}
                    fresh = set()
                    for e in p.events:
                        if e.kind == "var" and e.extra and re.search(r"monitor_scoped_lock$|::scoped_lock$", str(e.extra[1] or "")):
                            args = e.val[2] if isinstance(e.val, tuple) and len(e.val) > 2 and isinstance(e.val[2], tuple) else ()
                            if len(args) >= 2:
                                live[e.obj] = _norm(_node_of(args[1]))
                        elif e.kind == "dtor" and e.obj in live:
                            del live[e.obj]
                        elif e.kind == "call" and e.q and e.q.endswith("::alloc_node"):
                            fresh.add(_norm(e.val))
                        elif e.kind == "call" and e.node is not None and e.node.get("m") in L and L[e.node.get("m")]:
                            cm = e.node.get("m")
                            ls = lp | set(live.values()) | fresh
                            for i in list(L[cm]):
                                if i < len(e.args) and _norm(e.args[i]) not in ls and e.args[i] != NULL:
                                    L[cm].discard(i)
                                    changed = True
        table = {}
        for F in fs:
            if F.q.endswith("_locked") or (F.kind == "lambda" and L[F.m]):
                table[F.q.split("::")[-1] if F.kind != "lambda" else "lambda@%s" % F.line] = [F.params[i]["n"] for i in sorted(L[F.m])]
        ctx.info.setdefault("bronson_locked_on_entry", {}).update(table)
        for F in fs:
            if F.m not in paths:
                continue
            lp = set(("p", F.params[i]["d"], F.params[i]["n"]) for i in L[F.m])
            seen = set()
            for p in paths[F.m]:
                for e, node, kind, ls in writes_and_locks(F, p, lp):
                    key = (id(e.node), node in ls)
                    if key in seen:
                        continue
                    seen.add(key)
                    total += 1
                    ctx.check(node in ls, rid, F, "a Bronson node's %s is written only while that node's monitor lock is held" % kind, e.node,
                              detail="node %r; locks held here: %s (own scoped locks + parameters every caller passes locked: %s). %s"
                              % (node, sorted(repr(x) for x in ls)[:4], [F.params[i]["n"] for i in sorted(L[F.m])], reason), sig="node-lock:%s" % kind)
    return total


def rule_version_validation(ctx, rid, reason):
    """optimistic hand-over: a function that was given (pNode, nVersion) - the version under which the caller's search reached pNode - and
    that locks pNode re-validates 'pNode->version() == nVersion' under that lock before it writes pNode (child link, value) or unlinks it.
    The version changes when the node is unlinked *and* when a rotation shrinks its key range; a weaker test (is_unlinked) misses the latter."""
    from sa.q import norm_cond
    total = 0
    for F in ctx.db.funcs.values():
        if not BR.match(F.q) or F.kind in ("ctor", "dtor"):
            continue
        vp = [pr for pr in F.params if pr["n"] == "nVersion"]
        np_ = [pr for pr in F.params if pr["n"] == "pNode"]
        if not vp or not np_:
            continue
        pnode = ("p", np_[0]["d"], "pNode")
        pver = ("p", vp[0]["d"], "nVersion")
        try:
            ps = PathSim(F, bound=6000).run()
        except PathBoundExceeded:
            continue
        seen = set()
        for p in ps:
            ev = p.events
            idx = dict((id(e), i) for i, e in enumerate(ev))
            lock_at = None
            for i, e in enumerate(ev):
                if e.kind == "var" and e.extra and re.search(r"monitor_scoped_lock$|::scoped_lock$", str(e.extra[1] or "")):
                    args = e.val[2] if isinstance(e.val, tuple) and len(e.val) > 2 and isinstance(e.val[2], tuple) else ()
                    if len(args) >= 2 and _norm(_node_of(args[1])) == pnode:
                        lock_at = i
                        break
            if lock_at is None:
                continue
            vcalls = set(_norm(e.val) for e in ev if e.kind == "call" and e.q and re.search(r"link_node::version$", e.q) and len(e.args) == 1
                         and _norm(e.obj) == pnode)
            valid_at = None
            for i, e in enumerate(ev):
                if i > lock_at and e.kind == "branch" and isinstance(e.extra, tuple) and e.extra[0] != "switch":
                    atom, pol = norm_cond(e.val)
                    atom = _norm(atom)
                    if isinstance(atom, tuple) and atom[:1] == ("op",) and atom[1] in ("==", "!=") and len(atom) == 4 \
                            and ((atom[2] in vcalls and atom[3] == pver) or (atom[3] in vcalls and atom[2] == pver)):
                        equal = ((e.extra[1] == pol) == (atom[1] == "=="))
                        if equal:
                            valid_at = i
                            break
            writes = [(e, kind) for e, node, kind, ls in writes_and_locks(F, p, ()) if node == pnode]
            writes += [(e, "unlink") for e in ev if e.kind == "call" and e.q and e.q.endswith("::try_unlink_locked") and any(_norm(a) == pnode for a in e.args)]
            for e, kind in writes:
                i = idx.get(id(e))
                if i is None or i < lock_at:
                    continue
                ok = valid_at is not None and valid_at < i
                key = (id(e.node), ok)
                if key in seen:
                    continue
                seen.add(key)
                total += 1
                ctx.check(ok, rid, F, "pNode is written (%s) only after its version was re-validated against nVersion under pNode's lock" % kind, e.node,
                          detail="no 'pNode->version() == nVersion' outcome between locking pNode and this write on this path. A rotation that moved pNode down "
                          "(shrinking its key range) bumps the version but leaves the node linked and the child slot free: the new node / value would be placed "
                          "outside the range the search validated. %s" % reason, sig="version-revalidated:%s" % kind)
    return total
