"""C07 - Bounded Vyukov queue: writer/reader sequence agreement, claim-before-use, write-before-publish, failure tests (DESIGN.md §4 C07)."""
import re

from sa import run as _run
from sa import q as Q
from sa.cfg import cfg_of
from sa.pathsim import PathSim, C
from sa.q import cond_atoms, path_end, strip_sv, sv_field_path, atomic_op, sv_affine, aff_sub, zero_facts
from sa.affine import Affine, NotAffine

PROPERTY = "C07"
LEVEL = "other"
FILES = r"^%s/cds/(container|intrusive)/vyukov_mpmc_cycle_queue\.h$" % _run.REPO
TUS = {"quick": ["test/unit/queue/vyukov_mpmc_queue.cpp", "test/unit/queue/intrusive_vyukov_queue.cpp"],
       "thorough": ["test/unit/queue/vyukov_mpmc_queue.cpp", "test/unit/queue/intrusive_vyukov_queue.cpp",
                    "test/unit/misc/*pool*.cpp", "test/unit/list/michael_rcu_gpb.cpp", "test/stress/queue/bounded_queue_fulness.cpp"]}
EXPLANATION = (
    "Path rules with affine value comparison over VyukovMPMCCycleQueue: a slot is used only after the position CAS that claims it succeeded, "
    "under the readiness test seq == pos (enqueue) / seq == pos+1 (dequeue); the slot's data is touched before the releasing sequence store; "
    "enqueue publishes pos+1 and dequeue publishes pos+mask+1, which agree with the other side's readiness test because the constructor sets "
    "mask = capacity-1; the same cell index pos & mask is used everywhere; 'full' is returned only under pos - dequeue position == capacity "
    "and 'empty' only under pos - enqueue position == 0, each with a fresh load; sequence load >= acquire, sequence store >= release. "
    "Not decided: linearizability across wrap-around.")
ASSUMPTIONS = ["clang CFG (-DNDEBUG)", "necessary conditions only"]
ACQ = {2, 4, 5}
REL = {3, 4, 5}
R = "Otherwise two threads use one slot, an item is read before it is written, or full/empty is reported wrongly (C07)."


def _cells(ev):
    return [e for e in ev if e.kind == "call" and e.q and re.search(r"buffer::operator\[\]$", e.q)]


def side_rule(ctx, rid, F, my_pos, other_pos, ready_off, publish, what):
    """my_pos: own position counter field; ready_off: seq - (pos+ready_off) == 0; publish: 'pos+1' or 'pos+mask+1'"""
    ps = PathSim(F, bound=512).run()
    ctx.paths += len(ps)
    seen_ok = seen_fail = 0
    for p in ps:
        if p.outcome != "return":
            continue
        ev = p.events
        used = [i for i, e in enumerate(ev) if e.kind == "call" and e.args and any(sv_field_path(a)[-1:] == ["data"] for a in e.args)]
        casi = [i for i, e in enumerate(ev) if e.kind == "call" and (atomic_op(e) or "").startswith("compare_exchange") and
                sv_field_path(e.obj)[-1:] == [my_pos]]
        pub = [i for i, e in enumerate(ev) if e.kind == "call" and atomic_op(e) == "store" and sv_field_path(e.obj)[-1:] == ["sequence"]]
        if used or pub:
            seen_ok += 1
            won = False
            P = None
            for atom, tv, bev in cond_atoms(p):
                for i in casi:
                    if atom == ev[i].val and tv:
                        won = True
                        P = ev[i].args[0]
                        ci = i
            if not won:
                ctx.bad(rid, F, "%s: the slot is used on a path where the position CAS did not succeed" % what, ev[(used or pub)[0]].node,
                        detail=R, sig="use-without-claim")
                continue
            ctx.check(all(u > ci for u in used), rid, F, "%s: the slot's data is touched only after the position is claimed" % what,
                      ev[used[0]].node if used else None, detail=R, sig="claim-before-use")
            # desired value of the CAS is pos + 1
            des = ev[ci].args[1]
            ctx.check(aff_sub(sv_affine(des), sv_affine(P)) == {1: 1}, rid, F, "%s: the position CAS advances the counter by one" % what,
                      ev[ci].node, sig="cas-plus-one")
            # readiness: seq - (pos + off) == 0 established on the path, with seq an acquire load of the cell's sequence
            ready = False
            seq_ld = None
            for d, bev in zero_facts(p):
                if True:
                    for e in ev[:ci]:
                        if e.kind == "call" and atomic_op(e) == "load" and sv_field_path(e.obj)[-1:] == ["sequence"]:
                            want = aff_sub(aff_sub({e.val: 1}, sv_affine(P)), {1: ready_off} if ready_off else {})
                            neg = {k: -v for k, v in want.items()}
                            if d == want or d == neg:
                                ready = True
                                seq_ld = e
            ctx.check(ready, rid, F, "%s: the slot is claimed only when its sequence equals pos%s" % (what, "+%d" % ready_off if ready_off else ""),
                      ev[ci].node, detail=R, sig="readiness")
            if seq_ld is not None:
                ctx.check(seq_ld.args and seq_ld.args[0][0] == "c" and seq_ld.args[0][1] in ACQ, rid, F,
                          "%s: the sequence is read with at least acquire ordering" % what, seq_ld.node,
                          detail="the slot's payload is handed over through this load/store pair; a weaker order is a data race", sig="seq-acquire")
                # same cell for readiness, data and publication; index = pos & mask
                cell = strip_sv(seq_ld.obj)
                cells_ok = all(strip_sv(a) == cell for u in used for a in ev[u].args if sv_field_path(a)[-1:] == ["data"]) and \
                    all(strip_sv(ev[i].obj) == cell for i in pub)
                ctx.check(cells_ok, rid, F, "%s: readiness test, payload access and publication use the same cell" % what, seq_ld.node,
                          sig="same-cell")
                cc = [c for c in _cells(ev) if c.val == cell or ("addr", c.val) == cell]
                idx_ok = bool(cc) and cc[0].args and cc[0].args[0][0] == "op" and cc[0].args[0][1] == "&" and cc[0].args[0][2] == P and \
                    sv_field_path(cc[0].args[0][3])[-1:] == ["m_nBufferMask"]
                ctx.check(idx_ok, rid, F, "%s: the cell index is pos & mask for the claimed position" % what, cc[0].node if cc else None,
                          sig="cell-index")
            # publication after payload access, value and order
            ctx.check(len(pub) == 1 and all(u < pub[0] for u in used), rid, F, "%s: the sequence is published once, after the payload was written/read" % what,
                      ev[pub[0]].node if pub else None, detail=R, sig="publish-after-use")
            if pub:
                v = ev[pub[0]].args[0]
                d = aff_sub(sv_affine(v), sv_affine(P))
                if publish == "pos+1":
                    okv = d == {1: 1}
                else:
                    masks = [k for k in d if k != 1]
                    okv = d.get(1) == 1 and len(masks) == 1 and d[masks[0]] == 1 and sv_field_path(masks[0])[-1:] == ["m_nBufferMask"]
                ctx.check(okv, rid, F, "%s: publishes sequence = %s" % (what, publish), ev[pub[0]].node,
                          detail="published %r relative to pos" % (d,), sig="publish-value")
                o = ev[pub[0]].args[1] if len(ev[pub[0]].args) > 1 else None
                ctx.check(o is not None and o[0] == "c" and o[1] in REL, rid, F, "%s: the sequence store has at least release ordering" % what,
                          ev[pub[0]].node, sig="seq-release")
            ctx.check(p.ret == C(1), rid, F, "%s: success is reported after a completed transfer" % what, None, sig="ret-true")
        elif p.ret == C(0) or p.ret == ("null",):
            seen_fail += 1
            fail_rule(ctx, rid, F, p, other_pos, what, "capacity" if ready_off == 0 else "zero")
    ctx.check(seen_ok >= 1 and seen_fail >= 1, rid, F, "%s has a success and a failure path" % what, None, sig="both-outcomes")


def fail_rule(ctx, rid, F, p, other_pos, what, kind):
    """failure return controlled by pos - other counter (fresh load) == capacity / 0"""
    ev = p.events
    ok = False
    for d, bev in zero_facts(p):
        lds = [e for e in ev if e.kind == "call" and atomic_op(e) == "load" and sv_field_path(e.obj)[-1:] == [other_pos]]
        for l in lds:
            if d.get(l.val) in (1, -1):
                s = d[l.val]
                rest = {k: v * (-s) for k, v in d.items() if k != l.val}     # pos - [cap]
                names = [k for k in rest if k != 1]
                phis = [k for k in names if isinstance(k, tuple) and k[0] in ("phi", "call")]
                if kind == "capacity":
                    caps = [k for k in names if isinstance(k, tuple) and k[0] in ("call", "get") and "capacity" in str(k[1])]
                    if len(caps) == 1 and rest[caps[0]] == -1 and len(names) == 2 and 1 not in rest:
                        ok = True
                else:
                    if len(names) == 1 and rest[names[0]] == 1 and 1 not in rest:
                        ok = True
    ctx.check(ok, rid, F, "%s reports %s only under 'pos - %s == %s' with a fresh load of the opposite counter"
              % (what, "full" if kind == "capacity" else "empty", other_pos, "capacity()" if kind == "capacity" else "0"),
              ev[-1].node if ev else None, detail=R, sig="failure-test")


def r07_1(ctx):
    for F in ctx.need("cds::container::VyukovMPMCCycleQueue::enqueue_with"):
        side_rule(ctx, "R07.1", F, "m_posEnqueue", "m_posDequeue", 0, "pos+1", "enqueue")
r07_1.rule_id = "R07.1"


def r07_2(ctx):
    for F in ctx.need("cds::container::VyukovMPMCCycleQueue::dequeue_with"):
        side_rule(ctx, "R07.2", F, "m_posDequeue", "m_posEnqueue", 1, "pos+mask+1", "dequeue")
r07_2.rule_id = "R07.2"


def r07_3(ctx):
    """mask = capacity - 1 (constructor), capacity() is the buffer's capacity: makes the two publications agree"""
    n = 0
    for F in ctx.db.find(q="cds::container::VyukovMPMCCycleQueue::VyukovMPMCCycleQueue"):
        for _, _, e in F.all_elements():
            if e.get("k") == "init" and e.get("field") == "m_nBufferMask":
                n += 1
                A = Affine(ctx.db)
                try:
                    v = A.norm(F, e["init"])
                except NotAffine:
                    v = None
                names = [k for k in (v or {}) if k != 1]
                ok = v is not None and v.get(1) == -1 and len(names) == 1 and v[names[0]] == 1 and "capacity" in str(names[0])
                ctx.check(ok, "R07.3", F, "the constructor sets mask = buffer capacity - 1", e, detail="mask = %s" % (v,), sig="mask-init")
    for F in ctx.need("cds::container::VyukovMPMCCycleQueue::capacity"):
        rets = [e for _, _, e in F.all_elements() if e.get("k") == "ret" and "v" in e]
        n += 1
        r = F.strip(rets[0]["v"]) if rets else None
        ok = r is not None and r.get("k") == "call" and r.get("q", "").endswith("::capacity") and F.strip(r.get("obj")).get("n") == "m_buffer"
        ctx.check(ok, "R07.3", F, "capacity() is the buffer's capacity", rets[0] if rets else None, sig="capacity")
    if n < 2:
        ctx.broken("VyukovMPMCCycleQueue constructor/capacity not found")
r07_3.rule_id = "R07.3"


def r07_4(ctx):
    """front() / empty(): same readiness test and emptiness test as dequeue"""
    for name, retok in (("front", "ptr"), ("empty", "bool")):
        for F in ctx.db.find(q="cds::container::VyukovMPMCCycleQueue::" + name):
            ps = PathSim(F, bound=512).run()
            for p in ps:
                if p.outcome != "return":
                    continue
                ev = p.events
                empty_ret = (p.ret == ("null",)) if retok == "ptr" else (p.ret == C(1))
                if empty_ret:
                    fail_rule(ctx, "R07.4", F, p, "m_posEnqueue", name + "()", "zero")
                else:
                    ready = False
                    P = None
                    for d, bev in zero_facts(p):
                        if True:
                            for e in ev:
                                if e.kind == "call" and atomic_op(e) == "load" and sv_field_path(e.obj)[-1:] == ["sequence"] and abs(d.get(e.val, 0)) == 1:
                                    s = d[e.val]
                                    rest = {k: v * s for k, v in d.items() if k != e.val}
                                    if rest.get(1) == -1 and len(rest) == 2:
                                        ready = True
                    ctx.check(ready, "R07.4", F, "%s() reports an item only when the head cell's sequence equals pos+1" % name, None, sig="ready-test")
    return
r07_4.rule_id = "R07.4"


def r07_5(ctx):
    """intrusive wrapper forwards to the container's enqueue/dequeue (sibling agreement)"""
    n = 0
    for name, base in (("enqueue", r"VyukovMPMCCycleQueue::(enqueue|enqueue_with|push)$"), ("dequeue", r"VyukovMPMCCycleQueue::(dequeue|dequeue_with|pop)$")):
        for F in ctx.db.find(q="cds::intrusive::VyukovMPMCCycleQueue::" + name):
            n += 1
            calls = [c for c in Q.calls_in(F, base) if c["q"].startswith("cds::container::")]
            ctx.check(len(calls) >= 1, "R07.5", F, "intrusive %s forwards to the container queue" % name, calls[0] if calls else None, sig="forward")
    if n < 2:
        ctx.broken("intrusive VyukovMPMCCycleQueue enqueue/dequeue not instantiated")
r07_5.rule_id = "R07.5"


RULES = [r07_1, r07_2, r07_3, r07_4, r07_5]
FLOORS = {"R07.1": 12, "R07.2": 12, "R07.3": 2, "R07.4": 2, "R07.5": 2}
