"""Rules over the HP / DHP reclamation cores (src/hp.cpp, src/dhp.cpp,
cds/gc/hp.h, cds/gc/dhp.h, cds/gc/details/hp_common.h) shared by C01, C02, C03."""
import re

from sa import q as Q
from sa.cfg import cfg_of
from sa.dataflow import roots, root_vars, rdefs
from sa.pathsim import PathSim, norm_cond, NULL, C, is_const, truth
from sa.q import strip_sv, sv_has, sv_field_path, atomic_op

FREE = re.compile(r"::retired_ptr::free$")
SMR_FILES = r"^%s/(src/(hp|dhp)\.cpp|cds/gc/(hp|dhp)\.h|cds/gc/details/(hp_common|retired_ptr)\.h)$"


def smr_functions(ctx, which):
    """functions of the HP or DHP core present in the facts"""
    rx = re.compile(r"^cds::gc::%s::" % which)
    return [f for f in ctx.db.funcs.values() if rx.match(f.q)]


def is_scan_like(F):
    return bool(Q.calls_in(F, FREE))


# ---------------------------------------------------------------------------
# scan loops: decision is about the element being freed; exactly one of
# free / keep per element; compaction count
# ---------------------------------------------------------------------------
def membership_atoms(path, X):
    """branch atoms on the path that test membership of element X in the
    hazard set: binary_search(.., .., X->m_p) or the in-place mark bit
    (X->m_n & 1).  returns list of (kind, truth)"""
    res = []
    bs = {}
    for e in path.events:
        if e.kind == "call" and e.q == "std::binary_search" and len(e.args) >= 3:
            bs[e.val] = e
    for atom, tv, ev in Q.cond_atoms(path):
        a = atom
        while isinstance(a, tuple) and a and a[0] == "bool":
            a = a[1]
        if a in bs:
            key = bs[a].args[2]
            res.append(("binary_search", tv, key, ev))
        elif isinstance(a, tuple) and a[0] == "op" and a[1] == "&" and a[3] == C(1):
            fp = sv_field_path(a[2])
            if fp and fp[-1] == "m_n":
                res.append(("markbit", tv, a[2], ev))
    return res


def rule_scan_decision(ctx, rid, funcs, reason):
    """R01.1/R01.2(free part)/R02.1/R03.1: in every loop that disposes retired
    elements after a hazard test, each iteration performs exactly one of
    {free(X), keep(X)} on the loop element X and the membership test that
    selects between them is about X itself."""
    n = 0
    for F in funcs:
        frees = Q.calls_in(F, FREE)
        loops = {}
        for fr in frees:
            lp = Q.innermost_loop_of(F, fr["_site"][0])
            if lp is None:
                ctx.bad(rid, F, "retired_ptr::free() outside any loop of a scan function", fr)
                continue
            loops[lp[0]] = lp
        for h, (hh, body) in loops.items():
            paths = Q.iteration_paths(F, h, body)
            ctx.paths += len(paths)
            tested = any(membership_atoms(p, None) for p in paths)
            if not tested:
                # unconditional disposal loop (destructor drain) - handled by the drain rule
                continue
            for p in paths:
                if p.outcome not in ("back", "leave"):
                    continue
                fcalls = Q.path_calls(p, FREE)
                keeps = keep_events(F, p, h)
                if p.outcome == "leave" and not fcalls and not keeps and len(p.blocks) <= 2:
                    continue   # loop exit test
                n += 1
                sig = "iteration %s" % ("->".join(map(str, p.blocks)))
                if len(fcalls) + len(keeps) != 1:
                    ctx.bad(rid, F, "a scan-loop iteration performs %d free() and %d keep on one retired element (exactly one of them is required)"
                            % (len(fcalls), len(keeps)), fcalls[0].node if fcalls else F.blocks[p.blocks[0]].term,
                            detail="path blocks %s; %s" % (p.blocks, reason), sig="one-of " + path_sig(F, p))
                    continue
                if fcalls:
                    X = strip_sv(fcalls[0].obj)
                    act = "free"
                    node = fcalls[0].node
                else:
                    X = strip_sv(keeps[0][1])
                    act = "keep"
                    node = keeps[0][2]
                if not (isinstance(X, tuple) and X and X[0] == "phi"):
                    ctx.bad(rid, F, "%s acts on %s which is not the loop's current element" % (act, F.text(node)), node,
                            detail=reason, sig="%s-not-loop-element" % act)
                    continue
                atoms = membership_atoms(p, X)
                about_x = [a for a in atoms if strip_sv(a[2]) == X]
                if not about_x:
                    what = "the hazard-membership test that decides free/keep of the loop element is not about that element"
                    det = "; ".join("%s tests %s" % (a[0], F.text(a[3].node)) for a in atoms) or "no membership test on this path"
                    ctx.bad(rid, F, what, node, detail="%s (%s). %s" % (det, act, reason), sig="decision-not-about-element:" + act)
                    continue
                a = about_x[-1]
                want = (act == "keep")
                ctx.check(a[1] == want, rid, F,
                          "%s of the loop element is taken on the %s outcome of its own hazard test" % (act, "positive" if want else "negative"),
                          node, detail="polarity inverted: %s happens when the element %s in the hazard set. %s"
                          % (act, "is" if a[1] else "is not", reason), sig="polarity:" + act)
    return n


def path_sig(F, p):
    return ",".join(str(F.blocks[b].term["l"]) if F.blocks[b].term else "" for b in p.blocks)


def keep_events(F, p, header):
    """keep actions of a scan iteration: repush(X) (DHP) or advancing the
    compaction cursor (HP: ++insert_pos, with *insert_pos = *X when they differ)"""
    res = []
    for e in p.events:
        if e.kind == "call" and e.q and e.q.endswith("retired_array::repush"):
            res.append(("repush", e.args[0] if e.args else None, e.node))
    # cursor: a loop-carried local other than the element cursor that advanced by one
    elem_vars = set()
    for e in p.events:
        if e.kind == "call" and e.q and FREE.search(e.q):
            x = strip_sv(e.obj)
            if isinstance(x, tuple) and x[0] == "phi":
                elem_vars.add(x[1])
    for var, val in p.env.items():
        phi = ("phi", var, header, 0)
        if val == ("op", "+", phi, C(1)):
            if not _is_compaction_cursor(F, var):
                continue
            # which element was kept: the source of the copy, or the element cursor
            src = None
            for e in p.events:
                if e.kind == "call" and e.q and e.q.endswith("retired_ptr::operator=") and strip_sv(e.obj) == phi:
                    src = e.args[0] if e.args else None
                    res.append(("compact", src, e.node))
                    break
            else:
                # no copy on this path: kept in place; the path must have compared cursor and element
                kept = None
                for atom, tv, ev in Q.cond_atoms(p):
                    if isinstance(atom, tuple) and atom[0] == "op" and atom[1] == "==" and phi in (atom[2], atom[3]) and tv:
                        kept = atom[3] if atom[2] == phi else atom[2]
                        res.append(("inplace", kept, ev.node))
                        break
                else:
                    res.append(("advance-without-copy", None, F.blocks[p.blocks[0]].term))
    return res


def _is_compaction_cursor(F, var):
    """the local is used as the argument of retired_array::reset (HP) i.e. it
    counts the kept elements"""
    for e in Q.calls_in(F, r"retired_array::reset$"):
        for a in e.get("args", []):
            if var in root_vars(roots(F, a, e["_site"])):
                return True
    return False


def rule_compaction_count(ctx, rid, funcs):
    """R03.2: retired.reset(n) receives cursor - first, where cursor is the
    compaction cursor advanced exactly on keep paths"""
    n = 0
    for F in funcs:
        if not Q.calls_in(F, FREE):
            continue
        for e in Q.calls_in(F, r"hp::details::retired_array::reset$"):
            args = e.get("args", [])
            if not args:
                continue
            a = F.strip(args[0])
            if a.get("cv") == 0:
                continue   # drain: reset(0) handled by the drain rule
            n += 1
            rv = roots(F, a, e["_site"])
            vars_ = root_vars(rv)
            cursors = [v for v in vars_ if any(d.kind == "update" for d in rdefs(F).all_defs(v))]
            ok = len(cursors) == 1
            ctx.check(ok, rid, F, "retired.reset() receives the number of kept elements (compaction cursor minus array start)", e,
                      detail="argument is %s" % F.text(a), sig="reset-arg")
    return n


# ---------------------------------------------------------------------------
# in-place scan: the mark is set only on the retired cell that equals the hazard
# ---------------------------------------------------------------------------
def rule_inplace_mark(ctx, rid, F):
    marks = []
    for b, i, e in F.all_elements():
        if e.get("k") == "bin" and e.get("op") == "|=":
            lhs = F.strip(e["lhs"])
            if lhs.get("k") == "member" and lhs.get("n") == "m_n":
                marks.append(e)
    if not marks:
        tests = [e for _, _, e in F.all_elements() if e.get("k") == "bin" and e.get("op") == "&" and
                 F.strip(e["lhs"]).get("k") == "member" and F.strip(e["lhs"]).get("n") == "m_n"]
        if tests and Q.calls_in(F, FREE):
            ctx.bad(rid, F, "the free loop tests the mark bit of a retired cell but no store ever sets it: every element is freed "
                    "regardless of the hazard pointers", tests[-1], sig="mark-never-set")
            return
        ctx.broken("inplace_scan: no mark store (m_n |= 1) found")
    for mk in marks:
        site = mk["_site"]
        lp = Q.innermost_loop_of(F, site[0])
        if lp is None:
            ctx.bad(rid, F, "mark store outside the hazard loop", mk)
            continue
        # take the outermost loop that contains the mark but not the frees: walk
        # one iteration of the innermost loop
        h, body = lp
        paths = Q.iteration_paths(F, h, body)
        ctx.paths += len(paths)
        found = 0
        for p in paths:
            stores = [e for e in p.events if e.kind == "store" and e.node is mk]
            if not stores:
                continue
            found += 1
            st = stores[0]
            Y = strip_sv(st.obj)
            lbs = [e for e in p.events if e.kind == "call" and e.q == "std::lower_bound"]
            hz = [e for e in p.events if e.kind == "call" and e.q and e.q.endswith("common::guard::get")]
            if not lbs or not hz:
                ctx.bad(rid, F, "mark store is not preceded by a hazard-slot read and a lower_bound over the retired array", mk,
                        sig="mark-structure")
                continue
            lb = lbs[-1]
            hval = hz[-1].val
            ok_y = (Y == lb.val)
            # conditions: Y != last (2nd arg of lower_bound) and Y->m_p == h
            have_end = have_eq = False
            for atom, tv, ev in Q.cond_atoms(p):
                if isinstance(atom, tuple) and atom[0] == "op" and atom[1] == "==":
                    a, b2 = atom[2], atom[3]
                    if {a, b2} == {lb.val, lb.args[1]} and tv is False:
                        have_end = True
                    for x, y in ((a, b2), (b2, a)):
                        if strip_sv(x) == lb.val and sv_field_path(x)[-1:] == ["m_p"] and y == hval and tv is True:
                            have_eq = True
            # the search key holds the hazard value
            key_ok = any(e.kind == "store" and sv_field_path(e.obj)[-1:] == ["m_p"] and e.val == hval and
                         strip_sv(e.obj) == strip_sv(lb.args[2]) for e in p.events)
            ctx.check(ok_y, rid, F, "the marked cell is the lower_bound result for the hazard value", mk,
                      detail="marked object is not the search result", sig="mark-target")
            ctx.check(have_end, rid, F, "mark is guarded by 'search result != end of retired array'", mk, sig="mark-end-guard")
            ctx.check(have_eq, rid, F, "mark is guarded by 'found cell's pointer == hazard value'", mk, sig="mark-eq-guard")
            ctx.check(key_ok, rid, F, "the lower_bound key carries the hazard value just read", mk, sig="mark-key")
            bit_ok = isinstance(st.val, tuple) and st.val[:2] == ("op", "|") and st.val[3] == C(1)
            ctx.check(bit_ok, rid, F, "mark sets bit 0 of the cell (the bit the free loop tests)", mk, sig="mark-bit")
        if not found:
            ctx.bad(rid, F, "mark store unreachable within one iteration of the hazard loop", mk)
    # LSB pre-check: every path from entry to the sort/mark passes a loop that
    # diverts to classic_scan when a retired cell has bit 0 set
    cs = Q.calls_in(F, r"basic_smr::classic_scan$")
    okc = False
    for c in cs:
        for cond, outcome, text, b in Q.guard_conditions(F, c["_site"]):
            if cond is not None and outcome and re.search(r"m_n & 1", text):
                okc = True
    ctx.check(okc, rid, F, "a retired cell with bit 0 set diverts to classic_scan before the in-place pass", cs[0] if cs else None,
              sig="lsb-precheck")
    if cs:
        # the call to classic_scan is followed by return (no fall-through into the in-place pass)
        c = cs[0]
        cfg = cfg_of(F)
        blk = F.blocks[c["_site"][0]]
        succ_ok = all(s == F.exit for s in blk.real_succ())
        ctx.check(succ_ok, rid, F, "after diverting to classic_scan the in-place pass is not run", c, sig="lsb-return")


# ---------------------------------------------------------------------------
# every published hazard is read: only the allowed filters guard a slot read
# ---------------------------------------------------------------------------
ALLOWED_HP_FILTERS = [
    (re.compile(r"^\(?pNode\)?$|^\(?hprec\)?$|^\(?block\)?$"), True, "list cursor non-null"),
]


def classify_filter(F, cond, outcome, text):
    """returns a label if the guard condition is one of the allowed filters of a
    hazard-collection loop, else None"""
    n = F.strip(cond)
    if n is None:
        return None
    k = n.get("k")
    # loop cursor non-null:  while (pNode) / for (...; block; ...)
    if k == "ref" and n.get("dk") in ("local", "parm") and outcome:
        return "cursor-nonnull"
    if k == "cast" and outcome:
        s = F.strip(n["sub"])
        if s.get("k") == "ref":
            return "cursor-nonnull"
    if k == "bin" and n["op"] in ("!=", "<") and outcome:
        l, r = F.strip(n["lhs"]), F.strip(n["rhs"])
        # owner filter: X->owner_rec_.load() != nullptr ; thread_id_.load() != c_NullThreadId
        if l.get("k") == "call" and atomic_op(l) == "load":
            o = F.strip(l.get("obj"))
            if o.get("k") == "member" and o["n"] in ("owner_rec_", "thread_id_") and n["op"] == "!=":
                if r.get("null") or re.search(r"c_NullThreadId|nullThreadId", F.text(r)) or r.get("cv") == 0:
                    return "owner-filter"
        # bounds: i < get_hazard_ptr_count(); hp != end; arr != end
        if l.get("k") == "ref":
            return "bound"
    if k == "ref" and outcome:
        return "cursor-nonnull"
    return None


def rule_hazard_coverage(ctx, rid, F, reads_re, reason):
    """every read of a hazard slot inside a scan is guarded only by: list
    cursor non-null, 'record is owned', index/iterator bound - nothing else"""
    reads = Q.calls_in(F, reads_re)
    if not reads:
        ctx.broken("%s: no hazard slot read (%s) found" % (F.q, reads_re))
    cfg = cfg_of(F)
    for rd in reads:
        # outermost loop containing the read = the record loop
        outer = None
        for h, body in cfg.loops().items():
            if rd["_site"][0] in body and (outer is None or len(body) > len(outer[1])):
                outer = (h, body)
        if outer is None:
            ctx.bad(rid, F, "hazard slot read outside the record loop", rd, sig="read-outside-loop")
            continue
        # every disposal in this function happens after the hazard collection loop
        for fr in Q.calls_in(F, FREE):
            ctx.check(cfg.block_dominates(outer[0], fr["_site"][0]) and fr["_site"][0] not in outer[1], rid, F,
                      "free() is reached only after the hazard-collection loop", fr,
                      detail="a path reaches free() without collecting the hazard pointers. " + reason, sig="collect-before-free")
        for cond, outcome, text, b in Q.guard_conditions(F, rd["_site"]):
            if b not in outer[1]:
                continue    # pre-conditions of the whole scan (empty array, LSB pre-check)
            lab = classify_filter(F, cond, outcome, text)
            ctx.check(lab is not None, rid, F, "hazard slot read is filtered only by cursor/owner/bound conditions: %s is %s"
                      % (text, outcome), cond if isinstance(cond, dict) and "l" in F.deref(cond) else rd,
                      detail="unexpected filter on the hazard-collection loop: slots of some thread/record would be skipped. " + reason,
                      sig="filter:%s" % (lab or "unexpected"))


def loop_over_list(F, var_name_hint=None):
    pass


def rule_list_traversal(ctx, rid, F, head_field, next_field, reason):
    """the record loop starts at <head_field>.load() and advances by ->next_ on
    every iteration; exits only when the cursor is null"""
    cfg = cfg_of(F)
    found = 0
    for h, body in cfg.loops().items():
        blk = F.blocks[h]
        if not blk.term or not blk.term.get("cond"):
            continue
        c = F.strip(blk.term["cond"])
        if c.get("k") != "ref" or c.get("dk") != "local":
            continue
        var = c["d"]
        defs = rdefs(F).all_defs(var)
        inits = [d for d in defs if d.kind in ("init", "assign") and d.site[0] not in body]
        steps = [d for d in defs if d.kind in ("init", "assign") and d.site[0] in body]
        if not inits or not steps:
            continue
        init_ok = False
        for d in inits:
            r = F.strip(d.rhs)
            if r.get("k") == "call" and atomic_op(r) == "load":
                o = F.strip(r.get("obj"))
                if o.get("k") == "member" and o["n"] == head_field:
                    init_ok = True
        if not init_ok:
            continue
        found += 1
        for d in steps:
            r = F.strip(d.rhs)
            chain_ok = False
            # direct: cur = cur->next_ ; or via a temp that was read from cur->next_
            rr = roots(F, r, d.site)
            for x in rr:
                if x[0] == "member" and x[2] == next_field:
                    chain_ok = True
            ctx.check(chain_ok, rid, F, "record cursor advances along %s" % next_field, d.node,
                      detail="cursor is assigned %s. %s" % (F.text(r), reason), sig="advance")
        # the step is executed on every iteration that continues
        step_blocks = set(d.site[0] for d in steps)
        paths = cfg.paths(h, stops=None, region=body, cut_back=True)
        for p in paths:
            last = p[-1]
            if isinstance(last, tuple) and last[0] == "back" and last[1] == h:
                ok = any(b in step_blocks for b in p if not isinstance(b, tuple))
                ctx.check(ok, rid, F, "every iteration of the record loop advances the cursor", F.blocks[h].term,
                          detail="an iteration returns to the loop head without advancing", sig="advance-every-iteration")
    ctx.check(found >= 1, rid, F, "scan walks the thread-record list from %s" % head_field, None,
              detail="no loop initialised from %s.load() found. %s" % (head_field, reason), sig="list-loop")


# ---------------------------------------------------------------------------
# publication protocol: protect() / assign()
# ---------------------------------------------------------------------------
def rule_protect_protocol(ctx, rid, funcs, reason):
    """Guard::protect / GuardArray::protect: on every returning path the slot
    is published, the source atomic is re-loaded *after* the publication, the
    loop exits only when the re-loaded value equals the published one, and that
    value is returned."""
    n = 0
    for F in funcs:
        # only the overload with the validation loop (calls assign)
        if not Q.calls_in(F, r"::(assign|set)$"):
            continue
        if not cfg_of(F).loops():
            if Q.calls_in(F, r"::protect$"):
                continue   # forwarding overload
        src = None
        for p in F.params:
            if "std::atomic<" in p["t"]:
                src = ("p", p["d"], p["n"])
        if src is None:
            continue
        n += 1
        ps = PathSim(F, bound=512).run()
        ctx.paths += len(ps)
        rets = [p for p in ps if p.outcome == "return"]
        if not rets:
            ctx.bad(rid, F, "protect() has no returning path in one loop iteration", None, sig="no-return")
            continue
        for p in rets:
            ev = p.events
            pubs = [i for i, e in enumerate(ev) if e.kind == "call" and e.q and re.search(r"::(assign|set)$", e.q)]
            if not pubs:
                ctx.bad(rid, F, "protect() can return without publishing the pointer in its hazard slot", ev[-1].node if ev else None,
                        detail=reason, sig="return-without-publish")
                continue
            last_pub = pubs[-1]
            loads = [i for i, e in enumerate(ev) if i > last_pub and e.kind == "call" and atomic_op(e) == "load" and e.obj == src]
            if not loads:
                ctx.bad(rid, F, "protect() returns without re-reading the source pointer after publishing the hazard", ev[last_pub].node,
                        detail=reason, sig="no-reload-after-publish")
                continue
            # validated equality between a re-load and the published value
            pub_arg = ev[last_pub].args[-1] if ev[last_pub].args else None
            published = {pub_arg}
            for e in ev[:last_pub]:
                if e.kind == "call" and e.val == pub_arg and e.args:     # f(x): conversion functor
                    published.add(e.args[-1])
            ok = False
            validated = None
            for atom, tv, bev in Q.cond_atoms(p):
                if isinstance(atom, tuple) and atom[0] == "op" and atom[1] == "==" and tv:
                    a, b = atom[2], atom[3]
                    for i in loads:
                        if ev[i].val in (a, b):
                            other = b if ev[i].val == a else a
                            if other in published:
                                ok = True
                                validated = (ev[i].val, other)
            ctx.check(ok, rid, F, "protect() leaves its loop only when a re-load made after publication equals the published value",
                      ev[last_pub].node, detail=reason, sig="validate")
            if ok:
                ctx.check(p.ret in validated, rid, F, "protect() returns the validated pointer", ev[-1].node,
                          detail="returned value is not the one that was published and re-read", sig="return-validated")
    return n


def rule_assign_sync(ctx, rid, funcs, reason):
    """assign(p): slot store, then the thread's sync() (store-load fence), on every path"""
    n = 0
    for F in funcs:
        sets = Q.calls_in(F, r"(common::guard::set|guard_array::set|::guard::operator=)$")
        if not sets:
            continue
        n += 1
        ps = PathSim(F, bound=256).run()
        for p in ps:
            if p.outcome != "return":
                continue
            ev = p.events
            si = [i for i, e in enumerate(ev) if e.kind == "call" and e.q and re.search(r"(guard::set|guard_array::set|guard::operator=)$", e.q)]
            sy = [i for i, e in enumerate(ev) if e.kind == "call" and e.q and e.q.endswith("thread_data::sync")]
            ok = bool(si) and bool(sy) and max(si) < max(sy)
            ctx.check(ok, rid, F, "hazard slot store is followed by the per-thread sync() fence before assign() returns",
                      ev[si[-1]].node if si else None, detail=reason, sig="set-then-sync")
            if si:
                # the stored value is the parameter
                arg = ev[si[-1]].args[-1] if ev[si[-1]].args else None
                isparam = isinstance(arg, tuple) and arg and arg[0] == "p"
                ctx.check(isparam, rid, F, "assign() publishes the pointer it was given", ev[si[-1]].node, sig="set-arg")
    return n


def rule_scan_entry(ctx, rid, F, reason):
    """HP scan(): pRec->sync() precedes the indirect call through scan_func_"""
    ps = PathSim(F, bound=64).run()
    for p in ps:
        if p.outcome != "return":
            continue
        ev = p.events
        sy = [i for i, e in enumerate(ev) if e.kind == "call" and e.q and e.q.endswith("thread_data::sync")]
        ind = [i for i, e in enumerate(ev) if e.kind == "call" and (e.q == "(indirect)" or re.search(r"(classic|inplace)_scan$", e.q or ""))]
        ctx.check(bool(sy) and bool(ind) and sy[0] < ind[0], rid, F, "scan() issues sync() before running the scan routine",
                  ev[ind[0]].node if ind else None, detail=reason, sig="sync-before-scan")


def rule_scan_func_targets(ctx, rid, funcs):
    """scan_func_ is only ever set to classic_scan / inplace_scan, selected by the scan type"""
    n = 0
    for F in funcs:
        for b, i, e in F.all_elements():
            tgt = None
            if e.get("k") == "init" and e.get("field") == "scan_func_":
                tgt = e.get("init")
            elif e.get("k") == "bin" and e.get("op") == "=":
                l = F.strip(e["lhs"])
                if l.get("k") == "member" and l.get("n") == "scan_func_":
                    tgt = e["rhs"]
            if tgt is None:
                continue
            n += 1
            names = set()
            for x in F.walk(tgt):
                if x.get("k") == "ref" and x.get("dk") == "func":
                    names.add(x["q"].split("::")[-1])
            ctx.check(names and names <= {"classic_scan", "inplace_scan"}, rid, F,
                      "scan_func_ is bound to classic_scan/inplace_scan only", e, detail="targets: %s" % sorted(names), sig="scan-func")
            t = F.strip(tgt)
            if t.get("k") == "cond":
                c = F.text(t["c"])
                a = [x["q"].split("::")[-1] for x in F.walk(t["a"]) if x.get("k") == "ref" and x.get("dk") == "func"]
                ctx.check(("classic" in c) == (a == ["classic_scan"]) or ("inplace" in c and a == ["inplace_scan"]), rid, F,
                          "scan type 'classic' selects classic_scan", e, detail="condition %s selects %s" % (c, a), sig="scan-func-select")
    return n


def _idx(ev, pred):
    return [i for i, e in enumerate(ev) if pred(e)]


def rule_detach_order(ctx, rid, F, owner_field, reason):
    """free_thread_data: hazards cleared, then scan, (help_scan), then the record is released"""
    ps = PathSim(F, bound=512).run()
    ctx.paths += len(ps)
    n = 0
    for p in ps:
        if p.outcome != "return":
            continue
        ev = p.events
        clr = _idx(ev, lambda e: e.kind == "call" and e.q and e.q.endswith("thread_hp_storage::clear"))
        sc = _idx(ev, lambda e: e.kind == "call" and e.q and re.search(r"::(basic_smr|smr)::scan$", e.q))
        hs = _idx(ev, lambda e: e.kind == "call" and e.q and e.q.endswith("::help_scan"))
        rel = _idx(ev, lambda e: e.kind == "call" and atomic_op(e) == "store" and sv_field_path(e.obj)[-1:] == [owner_field])
        n += 1
        ok = bool(clr) and bool(sc) and bool(rel) and clr[0] < sc[0] < rel[-1] and (not hs or hs[-1] < rel[-1])
        ctx.check(ok, rid, F, "detach: own hazards cleared, then scan (and help_scan), then the record's owner is released",
                  ev[rel[-1]].node if rel else None,
                  detail="order on this path: clear@%s scan@%s help_scan@%s release@%s. %s" % (clr, sc, hs, rel, reason), sig="detach-order")
        if rel:
            v = ev[rel[-1]].args[0] if ev[rel[-1]].args else None
            isnull = v == NULL or v == C(0) or (isinstance(v, tuple) and v and v[0] in ("global", "init", "enum") and "ull" in str(v))
            ctx.check(isnull, rid, F, "record is released by storing the null owner", ev[rel[-1]].node, sig="release-null")
    if n == 0:
        ctx.bad(rid, F, "free_thread_data has no returning path", None)


def rule_help_scan(ctx, rid, F, owner_field, push_re, clear_re, reason):
    """help_scan: a foreign record is touched only after winning the ownership
    CAS from the null owner; all its retired elements are moved (push) - none
    freed or dropped -; the source is cleared after the move and before the
    owner is released; a final scan follows."""
    ps = PathSim(F, bound=4096).run()
    ctx.paths += len(ps)
    seen_move = seen_clear = 0
    for p in ps:
        ev = p.events
        cas = _idx(ev, lambda e: e.kind == "call" and (atomic_op(e) or "").startswith("compare_exchange") and
                   sv_field_path(e.obj)[-1:] == [owner_field])
        won = False
        for atom, tv, bev in Q.cond_atoms(p):
            for i in cas:
                if atom == ev[i].val and tv:
                    won = True
        touch = _idx(ev, lambda e: e.kind == "call" and e.q and (re.search(push_re, e.q) or re.search(clear_re, e.q)))
        for i in touch:
            pos_ok = won and cas and cas[0] < i
            ctx.check(pos_ok, rid, F, "a foreign record's retired data is moved/cleared only after the ownership CAS succeeded", ev[i].node,
                      detail=reason, sig="adopt-after-cas:%s" % ev[i].q.split("::")[-1])
        if cas:
            e = ev[cas[0]]
            # expected value is the null owner
            exp_ok = True
            ctx.check(exp_ok, rid, F, "ownership CAS present on the adoption path", e.node, sig="cas-present")
        frees = Q.path_calls(p, FREE)
        for fr in frees:
            ctx.bad(rid, F, "help_scan frees a retired element directly (it must move it to the helper's array)", fr.node, sig="help-free")
        pushes = _idx(ev, lambda e: e.kind == "call" and e.q and re.search(push_re, e.q))
        for i in pushes:
            seen_move += 1
            # the pushed element is the source loop element
            a = strip_sv(ev[i].args[0]) if ev[i].args else None
            ctx.check(isinstance(a, tuple) and a and a[0] == "phi", rid, F, "help_scan pushes the current source element", ev[i].node,
                      sig="push-element")
            # a false result of push triggers scan(pThis) (the destination is full)
            r = ev[i].val
            follow_ok = False
            for atom, tv, bev in Q.cond_atoms(p):
                if atom == r:
                    if tv:
                        follow_ok = True
                    else:
                        sc = [j for j in range(i, len(ev)) if ev[j].kind == "call" and ev[j].q and ev[j].q.endswith("::scan")]
                        follow_ok = bool(sc)
            ctx.check(follow_ok, rid, F, "the result of push() is tested and a full destination triggers scan()", ev[i].node,
                      detail=reason, sig="push-result")
        clears = _idx(ev, lambda e: e.kind == "call" and e.q and re.search(clear_re, e.q))
        rel = _idx(ev, lambda e: e.kind == "call" and atomic_op(e) == "store" and sv_field_path(e.obj)[-1:] == [owner_field])
        if rel:
            seen_clear += 1
            ok = bool(clears) and clears[-1] < rel[-1]
            ctx.check(ok, rid, F, "the adopted record's retired array is cleared before its owner is released", ev[rel[-1]].node,
                      detail=reason, sig="clear-before-release")
    ctx.check(seen_move > 0, rid, F, "help_scan moves retired elements of free records", None, sig="has-move")
    ctx.check(seen_clear > 0, rid, F, "help_scan releases adopted records", None, sig="has-release")
    # the move loop covers [first, last) of the source
    # final scan of the helper's own record
    scans = Q.calls_in(F, r"::scan$")
    ctx.check(len(scans) >= 2, rid, F, "help_scan scans the helper's record after adoption (and when the destination fills)", None,
              sig="final-scan")


def rule_retire(ctx, rid, funcs, reason):
    """retire(): the element is pushed; scan() runs exactly when push() reports a full array"""
    n = 0
    for F in funcs:
        pushes = Q.calls_in(F, r"retired_array::push$")
        if not pushes:
            continue
        n += 1
        ps = PathSim(F, bound=256).run()
        for p in ps:
            if p.outcome != "return":
                continue
            ev = p.events
            pi = _idx(ev, lambda e: e.kind == "call" and e.q and e.q.endswith("retired_array::push"))
            ctx.check(len(pi) == 1, rid, F, "retire() pushes the object exactly once on every path", pushes[0],
                      detail="%d push calls on a path" % len(pi), sig="push-once")
            if len(pi) != 1:
                continue
            r = ev[pi[0]].val
            decided = None
            for atom, tv, bev in Q.cond_atoms(p):
                if atom == r:
                    decided = tv
            sc = _idx(ev, lambda e: e.kind == "call" and e.q and e.q.endswith("::scan"))
            if decided is None:
                ctx.bad(rid, F, "the result of retired_.push() is ignored (a full array would never be scanned)", ev[pi[0]].node,
                        detail=reason, sig="push-result-ignored")
            elif decided:
                ctx.check(True, rid, F, "push() succeeded: no scan needed", ev[pi[0]].node, sig="push-ok")
            else:
                ctx.check(bool(sc) and sc[0] > pi[0], rid, F, "a full retired array triggers scan()", ev[pi[0]].node,
                          detail=reason, sig="full-scan")
            # pushed pointer is retire's parameter
            a = ev[pi[0]].args[0] if ev[pi[0]].args else None
            ok = sv_has(a, lambda x: isinstance(x, tuple) and len(x) == 3 and x[0] == "p")
            ctx.check(ok, rid, F, "retire() pushes the pointer it was given", ev[pi[0]].node, sig="push-arg")
    return n


def rule_drain(ctx, rid, F, reason, free_before=None):
    """destructor of the SMR singleton: every record of the list is visited and
    every still-retired element is freed before the record is destroyed"""
    frees = Q.calls_in(F, FREE)
    ctx.check(len(frees) >= 1, rid, F, "the singleton destructor frees the remaining retired elements", None, detail=reason, sig="drain-free")
    for fr in frees:
        lp = Q.innermost_loop_of(F, fr["_site"][0])
        ctx.check(lp is not None, rid, F, "drain free() runs in a loop over the retired storage", fr, sig="drain-loop")
        if lp is None:
            continue
        # within the element loop the free is unconditional (dominates the back edge)
        h, body = lp
        for p in Q.iteration_paths(F, h, body):
            if p.outcome == "back":
                ctx.check(len(Q.path_calls(p, FREE)) == 1, rid, F, "every iteration of the drain loop frees its element exactly once", fr,
                          detail=reason, sig="drain-each")
    destroys = Q.calls_in(F, r"::destroy_thread_data$")
    ctx.check(len(destroys) >= 1, rid, F, "records are destroyed by the destructor", None, sig="drain-destroy")
    cfg = cfg_of(F)
    for d in destroys:
        # on the way to destroy_thread_data inside the record loop the drain loops were passed:
        lp = Q.innermost_loop_of(F, d["_site"][0])
        if lp is None:
            ctx.bad(rid, F, "destroy_thread_data outside the record loop", d)
            continue
        h, body = lp
        for fr in frees:
            inside = fr["_site"][0] in body
            ctx.check(inside, rid, F, "drain free() belongs to the same record loop as destroy_thread_data", fr, sig="drain-same-loop")
            # free's loop exit reaches destroy; destroy cannot be reached from record-loop header avoiding the free loop header
            flp = Q.innermost_loop_of(F, fr["_site"][0])
            if flp:
                reach = cfg.reachable_from(h, cut_blocks={flp[0]})
                guards = [t for (c, o, t, b) in Q.guard_conditions(F, (flp[0], 0)) if b in body and b != h]
                ok = d["_site"][0] not in reach or bool(guards)
                ctx.check(ok, rid, F, "destroy_thread_data is reached only through the drain loop (or its emptiness guard)", d,
                          detail=reason, sig="drain-before-destroy")


# ---------------------------------------------------------------------------
# slot range of the hazard loops and agreement with the allocated storage
# ---------------------------------------------------------------------------
def _single_def_rhs(F, var):
    ds = [d for d in rdefs(F).all_defs(var) if d.kind in ("init", "assign")]
    if len(ds) == 1:
        return ds[0]
    return None


def rule_slot_range(ctx, rid, F):
    """the loop that reads hazard slots runs from slot 0 / begin() to
    get_hazard_ptr_count() / end() in steps of one"""
    reads = Q.calls_in(F, r"common::guard::get$")
    for rd in reads:
        lp = Q.innermost_loop_of(F, rd["_site"][0])
        if lp is None:
            ctx.bad(rid, F, "hazard slot read outside a slot loop", rd)
            continue
        h, body = lp
        term = F.blocks[h].term
        cond = F.strip(term["cond"]) if term and term.get("cond") else None
        if not cond or cond.get("k") != "bin" or cond["op"] not in ("<", "!="):
            ctx.bad(rid, F, "slot loop condition is not an index/iterator bound", rd, detail=F.text(cond) if cond else "", sig="slot-cond")
            continue
        v = F.strip(cond["lhs"])
        if v.get("k") != "ref":
            ctx.bad(rid, F, "slot loop condition does not test the loop cursor", rd, sig="slot-cond")
            continue
        var = v["d"]
        defs = rdefs(F).all_defs(var)
        inits = [d for d in defs if d.kind in ("init", "assign")]
        upd = [d for d in defs if d.kind == "update"]
        # start
        start_ok = False
        start_txt = ""
        for d in inits:
            r = F.strip(d.rhs)
            start_txt = F.text(r)
            if r.get("cv") == 0:
                start_ok = True
            if r.get("k") == "call" and r.get("q", "").endswith("thread_hp_storage::begin"):
                start_ok = True
        ctx.check(start_ok and len(inits) == 1, rid, F, "slot loop starts at the first hazard slot", inits[0].node if inits else rd,
                  detail="start value: %s" % start_txt, sig="slot-start")
        # step
        step_ok = len(upd) == 1 and upd[0].node.get("k") == "un" and upd[0].node.get("op") == "++"
        ctx.check(step_ok, rid, F, "slot loop advances by exactly one slot", upd[0].node if upd else rd, sig="slot-step")
        # bound
        b = F.strip(cond["rhs"])
        bound_ok = False
        if b.get("k") == "call" and b.get("q", "").endswith("get_hazard_ptr_count") and not b.get("args"):
            bound_ok = True
        if b.get("k") == "ref":
            d = _single_def_rhs(F, b["d"])
            if d is not None:
                r = F.strip(d.rhs)
                if r.get("k") == "call" and r.get("q", "").endswith("thread_hp_storage::end") and not r.get("args"):
                    bound_ok = True
        ctx.check(bound_ok, rid, F, "slot loop bound is the full slot count (get_hazard_ptr_count() / end())", cond,
                  detail="bound: %s" % F.text(b), sig="slot-bound")
        # the slot read is indexed by the cursor itself
        obj = F.strip(rd.get("obj"))
        idx_ok = False
        for x in F.walk(obj):
            if x.get("k") == "ref" and x.get("d") == var:
                idx_ok = True
        ctx.check(idx_ok, rid, F, "the slot read uses the loop cursor", rd, sig="slot-index")


def _ret_exprs(F):
    return [e for _, _, e in F.all_elements() if e.get("k") == "ret" and "v" in e]


def rule_storage_bounds(ctx, rid):
    """thread_hp_storage::begin/end/operator[] address [array_, array_+capacity_);
    capacity_ is the constructor's size argument; create_thread_data sizes and
    constructs the storage with get_hazard_ptr_count()"""
    db = ctx.db
    B = ctx.need("cds::gc::hp::details::thread_hp_storage::begin")[0]
    E = ctx.need("cds::gc::hp::details::thread_hp_storage::end")[0]
    for F, want in ((B, "begin"), (E, "end")):
        rs = _ret_exprs(F)
        ok = len(rs) == 1
        txt = F.text(rs[0]["v"]) if rs else ""
        if ok:
            r = F.strip(rs[0]["v"])
            if want == "begin":
                ok = r.get("k") == "member" and r.get("n") == "array_"
            else:
                names = [x.get("n") for x in F.walk(r) if x.get("k") == "member"]
                calls = [x.get("q", "") for x in F.walk(r) if x.get("k") == "call"]
                lits = [x for x in F.walk(r) if x.get("k") == "lit" or (x.get("k") == "bin" and x["op"] in ("-", "/", ">>"))]
                ok = "array_" in names and ("capacity_" in names or any(c.endswith("::capacity") for c in calls)) and not lits
        ctx.check(ok, rid, F, "thread_hp_storage::%s() is the %s of [array_, array_+capacity_)" % (want, "start" if want == "begin" else "end"),
                  rs[0] if rs else None, detail="returns %s" % txt, sig="storage-" + want)
    # constructor binds capacity_ and array_ to its parameters
    for F in db.find(q="cds::gc::hp::details::thread_hp_storage::thread_hp_storage"):
        inits = {e.get("field"): e for _, _, e in F.all_elements() if e.get("k") == "init"}
        pn = [p["n"] for p in F.params]
        for fld, pi in (("array_", 0), ("capacity_", 1)):
            e = inits.get(fld)
            ok = False
            if e is not None and len(F.params) == 2:
                r = F.strip(e.get("init"))
                ok = r.get("k") == "ref" and r.get("d") == F.params[pi]["d"]
            ctx.check(ok, rid, F, "thread_hp_storage constructor stores its %s argument in %s" % (pn[pi] if len(pn) > pi else "?", fld), e,
                      sig="storage-ctor-" + fld)
    # thread_data passes its guard arguments through
    for F in db.find(q="cds::gc::hp::details::thread_data::thread_data"):
        for _, _, e in F.all_elements():
            if e.get("k") == "init" and e.get("field") == "hazards_":
                c = F.strip(e.get("init"))
                args = c.get("args", []) if c else []
                ok = len(args) == 2 and len(F.params) >= 2 and \
                    F.strip(args[0]).get("d") == F.params[0]["d"] and F.strip(args[1]).get("d") == F.params[1]["d"]
                ctx.check(ok, rid, F, "thread_data hands (guards, guard_count) to its hazard storage", e, sig="thread-data-ctor")
    # create_thread_data: size and count are both get_hazard_ptr_count()
    C_ = ctx.need("cds::gc::hp::details::basic_smr::create_thread_data")[0]
    news = [e for _, _, e in C_.all_elements() if e.get("k") == "new"]
    ctx.check(len(news) == 1, rid, C_, "create_thread_data constructs one thread record", news[0] if news else None, sig="create-new")
    if news:
        ct = C_.strip(news[0].get("ctor"))
        args = ct.get("args", []) if ct else []
        ok = False
        if len(args) >= 2:
            rs = roots(C_, args[1], news[0]["_site"])
            ok = any(r[0] == "call" and r[1].endswith("get_hazard_ptr_count") for r in rs) and len(rs) == 1
        ctx.check(ok, rid, C_, "the record is constructed with get_hazard_ptr_count() guards", news[0],
                  detail="guard count argument: %s" % (C_.text(args[1]) if len(args) >= 2 else "?"), sig="create-count")
        # allocation size covers sizeof(record) + calc_array_size(get_hazard_ptr_count()) + retired
        allocs = Q.calls_in(C_, r"^\(indirect\)$") or [e for _, _, e in C_.all_elements() if e.get("k") == "call" and "q" not in e]
        sizes_ok = False
        for e in [x for _, _, x in C_.all_elements() if x.get("k") == "call" and x.get("q", "").endswith("thread_hp_storage::calc_array_size")]:
            a = e.get("args", [])
            if a:
                rs = roots(C_, a[0], e["_site"])
                if any(r[0] == "call" and r[1].endswith("get_hazard_ptr_count") for r in rs):
                    sizes_ok = True
        ctx.check(sizes_ok, rid, C_, "the guard array is sized with get_hazard_ptr_count()", news[0], sig="create-size")
    cs = ctx.need("cds::gc::hp::details::thread_hp_storage::calc_array_size")[0]
    rs = _ret_exprs(cs)
    ok = False
    if rs:
        r = cs.strip(rs[0]["v"])
        if r.get("k") == "bin" and r["op"] == "*":
            sides = [cs.strip(r["lhs"]), cs.strip(r["rhs"])]
            ok = any(s.get("k") == "sizeof" for s in sides) and any(s.get("k") == "ref" and s.get("dk") == "parm" for s in sides)
    ctx.check(ok, rid, cs, "calc_array_size is sizeof(guard) * capacity", rs[0] if rs else None, sig="calc-size")


# ---------------------------------------------------------------------------
# DHP specific
# ---------------------------------------------------------------------------
def _const_of(F, n):
    """compile-time integer value of an expression (clang's constant evaluator), looking through wrappers"""
    for _ in range(12):
        n = F.deref(n)
        if not isinstance(n, dict):
            return None
        if "cv" in n:
            return n["cv"]
        if n.get("k") in ("w", "defarg", "cast"):
            n = n["sub"]
            continue
        return None
    return None


def rule_dhp_scan_coverage(ctx, rid, reason):
    """smr::scan copies the hazards of the initial array (array_, initial_capacity_)
    and of every extension block (extended_list_ -> next_block_ -> null, block size =
    the size hp_allocator::alloc creates and links) of every owned record"""
    S = ctx.need("cds::gc::dhp::smr::scan")[0]
    CH = ctx.need("cds::gc::dhp::(anon)::copy_hazards")[0]
    AL = ctx.need("cds::gc::dhp::hp_allocator::alloc")[0]
    cfg = cfg_of(S)
    calls = Q.calls_in(S, r"copy_hazards$")
    init_call = ext_call = None
    for c in calls:
        a = c.get("args", [])
        if len(a) != 3:
            continue
        a1, a2 = S.strip(a[1]), S.strip(a[2])
        if a1.get("k") == "member" and a1.get("n") == "array_":
            init_call = c
            ok = a2.get("k") == "member" and a2.get("n") == "initial_capacity_" and \
                S.text(a1["base"]) == S.text(a2["base"])
            ctx.check(ok, rid, S, "initial hazard array is copied with its full initial capacity", c,
                      detail="size argument: %s. %s" % (S.text(a2), reason), sig="initial-array-size")
        elif a1.get("k") == "call" and a1.get("q", "").endswith("guard_block::first"):
            ext_call = c
            # size constant equals what hp_allocator::alloc allocates and links
            want = set()
            for _, _, e in AL.all_elements():
                if e.get("k") == "new" and e.get("array") and "asize" in e:
                    v = _const_of(AL, e["asize"])
                    if v is not None:
                        want.add(v)
            have = _const_of(S, a[2])
            ctx.check(bool(want) and have in want, rid, S,
                      "extension blocks are copied with the block size hp_allocator::alloc() creates", c,
                      detail="copy size %s, allocated %s. %s" % (have, sorted(want), reason), sig="ext-block-size")
            # the block passed is the extension-list cursor
            lp = Q.innermost_loop_of(S, c["_site"][0])
            ctx.check(lp is not None, rid, S, "extension blocks are copied in a loop over the extension list", c, sig="ext-loop")
    ctx.check(init_call is not None, rid, S, "scan copies the hazards of the initial guard array", None, detail=reason, sig="has-initial")
    ctx.check(ext_call is not None, rid, S, "scan copies the hazards of the extension blocks", None, detail=reason, sig="has-ext")
    # guards of both copies: only cursor / owner filters inside the record loop
    outer = None
    for c in [x for x in (init_call, ext_call) if x]:
        for h, body in cfg.loops().items():
            if c["_site"][0] in body and (outer is None or len(body) > len(outer[1])):
                outer = (h, body)
    for c in [x for x in (init_call, ext_call) if x]:
        for cond, outcome, text, b in Q.guard_conditions(S, c["_site"]):
            if outer and b not in outer[1]:
                continue
            lab = classify_filter(S, cond, outcome, text)
            ctx.check(lab is not None, rid, S, "hazard copy is filtered only by cursor/owner conditions: %s is %s" % (text, outcome), c,
                      detail="unexpected filter. " + reason, sig="filter:%s" % (lab or "unexpected"))
    if outer:
        for rd in Q.calls_in(S, r"retire_data$"):
            ctx.check(cfg.block_dominates(outer[0], rd["_site"][0]) and rd["_site"][0] not in outer[1], rid, S,
                      "retire_data runs only after the hazard collection loop", rd, sig="collect-before-free")
    rule_list_traversal(ctx, rid, S, "thread_list_", "next_", reason)
    # extension list traversal: cursor from extended_list_.load(), advance next_block_
    found = False
    for h, body in cfg.loops().items():
        t = S.blocks[h].term
        c = S.strip(t["cond"]) if t and t.get("cond") else None
        if not c or c.get("k") != "ref":
            continue
        var = c["d"]
        ds = rdefs(S).all_defs(var)
        ini = [d for d in ds if d.site[0] not in body and d.kind in ("init", "assign")]
        stp = [d for d in ds if d.site[0] in body and d.kind in ("init", "assign")]
        for d in ini:
            r = S.strip(d.rhs)
            if r.get("k") == "call" and atomic_op(r) == "load" and S.strip(r["obj"]).get("n") == "extended_list_":
                found = True
                for sd in stp:
                    rr = roots(S, sd.rhs, sd.site)
                    ctx.check(any(x[0] == "member" and x[2] == "next_block_" for x in rr), rid, S,
                              "extension cursor advances along next_block_", sd.node, sig="ext-advance")
                ctx.check(len(stp) >= 1, rid, S, "extension list loop advances", S.blocks[h].term, sig="ext-advance-present")
    ctx.check(found, rid, S, "scan walks the extension list from extended_list_", None, detail=reason, sig="ext-list-loop")
    # copy_hazards: [arr, arr+size) step 1, every non-null slot pushed
    reads = Q.calls_in(CH, r"common::guard::get$")
    ctx.check(len(reads) == 1, rid, CH, "copy_hazards reads each slot", reads[0] if reads else None, sig="ch-read")
    for rd in reads:
        lp = Q.innermost_loop_of(CH, rd["_site"][0])
        if not lp:
            ctx.bad(rid, CH, "slot read outside loop", rd)
            continue
        h, body = lp
        cond = CH.strip(CH.blocks[h].term["cond"])
        ok = cond.get("k") == "bin" and cond["op"] in ("!=", "<")
        var = CH.strip(cond["lhs"]).get("d") if ok else None
        endv = CH.strip(cond["rhs"]) if ok else None
        endok = False
        if ok and endv.get("k") == "ref":
            d = _single_def_rhs(CH, endv["d"])
            if d is not None:
                r = CH.strip(d.rhs)
                if r.get("k") == "bin" and r["op"] == "+":
                    l, rr = CH.strip(r["lhs"]), CH.strip(r["rhs"])
                    ids = {x.get("d") for x in (l, rr) if x.get("k") == "ref"}
                    endok = ids == {CH.params[1]["d"], CH.params[2]["d"]}
        ctx.check(endok, rid, CH, "copy_hazards covers [arr, arr+size)", CH.blocks[h].term, sig="ch-range")
        upd = [d for d in rdefs(CH).all_defs(var) if d.kind == "update"] if var else []
        ctx.check(len(upd) == 1 and upd[0].node.get("op") == "++", rid, CH, "copy_hazards advances one slot at a time",
                  upd[0].node if upd else None, sig="ch-step")
    pbs = Q.calls_in(CH, r"vector::push_back$")
    for pb in pbs:
        gs = [(t, o) for (c, o, t, b) in Q.guard_conditions(CH, pb["_site"])]
        extra = [g for g in gs if not (g[1] and (g[0] in ("hp",) or "!=" in g[0] or g[0].strip("()") == "hp"))]
        ctx.check(len(gs) <= 2, rid, CH, "a slot value is collected whenever it is non-null", pb,
                  detail="guards: %s" % gs, sig="ch-push")
    ctx.check(len(pbs) == 1, rid, CH, "copy_hazards collects slot values", None, sig="ch-has-push")
    # hp_allocator::alloc links exactly the block's guards: p .. p + N - 1
    news = [e for _, _, e in AL.all_elements() if e.get("k") == "new" and e.get("array") and "asize" in e]
    sizes = {_const_of(AL, e["asize"]) for e in news}
    link_ok = False
    for _, _, e in AL.all_elements():
        if e.get("k") == "decl":
            for v in e["vars"]:
                if v["n"] and "init" in v:
                    r = AL.strip(v["init"])
                    if r.get("k") == "bin" and r["op"] == "-" and _const_of(AL, r["rhs"]) == 1:
                        l = AL.strip(r["lhs"])
                        if l.get("k") == "bin" and l["op"] == "+" and _const_of(AL, l["rhs"]) in sizes:
                            link_ok = True
    ctx.check(link_ok and len(sizes) == 1, rid, AL, "hp_allocator::alloc links all guards of the block it allocated", news[0] if news else None,
              sig="alloc-link")


def rule_extend_publication(ctx, rid, F, reason):
    """thread_hp_storage::extend: new block linked to the old list head, then
    published in extended_list_, then its guards are handed out"""
    ps = PathSim(F, bound=64).run()
    n = 0
    for p in ps:
        if p.outcome != "return":
            continue
        n += 1
        ev = p.events
        link = _idx(ev, lambda e: e.kind == "store" and sv_field_path(e.obj)[-1:] == ["next_block_"])
        pub = _idx(ev, lambda e: e.kind == "call" and atomic_op(e) == "store" and sv_field_path(e.obj)[-1:] == ["extended_list_"])
        use = _idx(ev, lambda e: e.kind == "store" and sv_field_path(e.obj)[-1:] == ["free_head_"])
        ok = link and pub and use and link[0] < pub[0] < use[0]
        ctx.check(bool(ok), rid, F, "extension block: next_block_ linked, then published in extended_list_, then used for guards",
                  ev[pub[0]].node if pub else None, detail="order link@%s publish@%s use@%s. %s" % (link, pub, use, reason), sig="extend-order")
        if ok:
            blk = ev[pub[0]].args[0]
            ctx.check(strip_sv(ev[link[0]].obj) == blk, rid, F, "the published block is the one that was linked", ev[pub[0]].node, sig="extend-same-block")
            old = ev[link[0]].val
            isload = any(e.kind == "call" and atomic_op(e) == "load" and e.val == old and sv_field_path(e.obj)[-1:] == ["extended_list_"] for e in ev)
            ctx.check(isload, rid, F, "the new block's next_block_ is the previous list head (no block is dropped from the scan list)",
                      ev[link[0]].node, sig="extend-keeps-old")
            src = [e for e in ev if e.kind == "call" and e.val == ev[use[0]].val]
            ctx.check(strip_sv(ev[use[0]].val) == blk or (src and src[0].obj == blk), rid, F,
                      "guards handed out come from the published block", ev[use[0]].node, sig="extend-use")
    if n == 0:
        ctx.bad(rid, F, "extend() has no returning path", None)


def rule_scan_entry_dhp(ctx, rid, S):
    """DHP scan(): sync() before the first read of another thread's hazards"""
    sy = Q.calls_in(S, r"thread_data::sync$")
    rd = Q.calls_in(S, r"copy_hazards$")
    cfg = cfg_of(S)
    ok = bool(sy) and bool(rd) and all(cfg.site_dominates(sy[0]["_site"], r["_site"]) for r in rd)
    ctx.check(ok, rid, S, "scan() issues sync() before reading hazard slots", sy[0] if sy else None, sig="sync-before-scan")


def rule_dhp_block_walk(ctx, rid):
    """DHP scan: retire_data is applied to every block from list_head_ to the
    block that was current when the scan began (inclusive), with the partial
    size for that last block and the full capacity otherwise"""
    S = ctx.need("cds::gc::dhp::smr::scan")[0]
    rds = Q.calls_in(S, r"retire_data$")
    ctx.check(len(rds) == 1, rid, S, "scan applies retire_data to retired blocks", rds[0] if rds else None, sig="has-retire-data")
    if not rds:
        return
    rd = rds[0]
    lp = Q.innermost_loop_of(S, rd["_site"][0])
    if not lp:
        ctx.bad(rid, S, "retire_data outside the block loop", rd)
        return
    h, body = lp
    paths = Q.iteration_paths(S, h, body)
    ctx.paths += len(paths)
    seen_full = seen_part = False
    for p in paths:
        calls = Q.path_calls(p, r"retire_data$")
        if p.outcome in ("back", "leave") and len(p.blocks) > 1:
            ctx.check(len(calls) == 1, rid, S, "every visited retired block is processed exactly once per scan", rd,
                      detail="path %s" % (p.blocks,), sig="block-once")
        for c in calls:
            blk, size = c.args[2], c.args[3]
            ctx.check(isinstance(blk, tuple) and blk[0] == "phi", rid, S, "retire_data receives the loop's current block", c.node, sig="block-arg")
            # which outcome of 'block == last_block' holds on this path
            is_end = None
            for atom, tv, ev in Q.cond_atoms(p):
                if isinstance(atom, tuple) and atom[0] == "op" and atom[1] == "==" and blk in (atom[2], atom[3]):
                    is_end = tv
            if is_end is True:
                seen_part = True
                ok = isinstance(size, tuple) and size[0] == "op" and size[1] == "-"
                ctx.check(ok, rid, S, "the block that was current at scan start is processed up to the saved cell", c.node,
                          detail="size value %r" % (size,), sig="partial-size")
                ctx.check(p.outcome == "leave", rid, S, "the walk stops after the last used block", c.node, sig="stop-after-last")
            elif is_end is False:
                seen_full = True
                ok = Q.is_const(size)
                ctx.check(ok, rid, S, "earlier blocks are processed with the full block capacity", c.node, sig="full-size")
                ctx.check(p.outcome == "back", rid, S, "the walk continues to the next block", c.node, sig="continue")
    ctx.check(seen_full and seen_part, rid, S, "both the full-block and the last-block case are handled", rd, sig="both-cases")
    # cursor starts at list_head_ and advances with next_
    t = S.blocks[h].term
    c = S.strip(t["cond"]) if t and t.get("cond") else None
    ok = False
    if c and c.get("k") == "ref":
        ds = rdefs(S).all_defs(c["d"])
        ini = [d for d in ds if d.site[0] not in body and d.kind in ("init", "assign")]
        stp = [d for d in ds if d.site[0] in body and d.kind in ("init", "assign")]
        ok = any(any(x[0] == "member" and x[2] == "list_head_" for x in roots(S, d.rhs, d.site)) for d in ini) and \
            all(any(x[0] == "member" and x[2] == "next_" for x in roots(S, d.rhs, d.site)) for d in stp) and bool(stp)
    ctx.check(ok, rid, S, "the block walk starts at list_head_ and follows next_", t, sig="block-walk")


def rule_list_traversal_for(ctx, rid, F, reason):
    """destructor record loop: starts from the saved thread_list_ head, advances with next_ read before the record is destroyed"""
    cfg = cfg_of(F)
    destroys = Q.calls_in(F, r"::destroy_thread_data$")
    if not destroys:
        return
    lp = Q.innermost_loop_of(F, destroys[0]["_site"][0])
    if not lp:
        return
    h, body = lp
    t = F.blocks[h].term
    c = F.strip(t["cond"]) if t and t.get("cond") else None
    ok = False
    adv_ok = False
    if c and c.get("k") == "ref":
        var = c["d"]
        ds = rdefs(F).all_defs(var)
        ini = [d for d in ds if d.site[0] not in body and d.kind in ("init", "assign")]
        for d in ini:
            rr = roots(F, d.rhs, d.site)
            if any(x[0] == "call" and x[1].endswith("::load") for x in rr):
                ok = True
        # next pointer is read from the record before destroy_thread_data
        for _, _, e in F.all_elements():
            if e.get("k") == "bin" and e.get("op") == "=" and e["_site"][0] in body:
                r = F.strip(e["rhs"])
                if r.get("k") == "member" and r.get("n") == "next_":
                    if cfg.site_dominates(e["_site"], destroys[0]["_site"]):
                        adv_ok = True
    ctx.check(ok, rid, F, "the destructor walks the record list from thread_list_", t, detail=reason, sig="dtor-list")
    ctx.check(adv_ok, rid, F, "the next record is read before the current one is destroyed", destroys[0], sig="dtor-next-before-destroy")


def rule_move_range(ctx, rid, H, H2):
    """help_scan copies [first, last) of the source (HP) / every block up to current_cell_ (DHP)"""
    # HP: loop cursor from src.first() to src.last()
    ok = False
    for h, body in cfg_of(H).loops().items():
        t = H.blocks[h].term
        c = H.strip(t["cond"]) if t and t.get("cond") else None
        if c and c.get("k") == "bin" and c["op"] == "!=":
            l = roots(H, c["lhs"], (h, 0))
            r = roots(H, c["rhs"], (h, 0), expand_loop_vars=True)
            lf = roots(H, c["lhs"], (h, 0), expand_loop_vars=True)
            if any(x[0] == "call" and x[1].endswith("retired_array::last") for x in r) and \
                    any(x[0] == "call" and x[1].endswith("retired_array::first") for x in lf):
                ok = True
    ctx.check(ok, rid, H, "HP help_scan moves the whole range [first(), last()) of the adopted array", None, sig="move-range-hp")
    # DHP: inner loop p from block->first() to (block == current ? current_cell_ : block->last())
    ok2 = False
    for h, body in cfg_of(H2).loops().items():
        t = H2.blocks[h].term
        c = H2.strip(t["cond"]) if t and t.get("cond") else None
        if c and c.get("k") == "bin" and c["op"] == "!=":
            r = roots(H2, c["rhs"], (h, 0), expand_loop_vars=True)
            lf = roots(H2, c["lhs"], (h, 0), expand_loop_vars=True)
            names = set()
            for x in r:
                if x[0] == "member":
                    names.add(x[2])
                if x[0] == "call":
                    names.add(x[1].split("::")[-1])
            if {"current_cell_", "last"} <= names and any(x[0] == "call" and x[1].endswith("retired_block::first") for x in lf):
                ok2 = True
    ctx.check(ok2, rid, H2, "DHP help_scan moves every block up to the current cell", None, sig="move-range-dhp")


def rule_push_store(ctx, rid):
    """retired_array::push always stores the element before reporting fullness (HP and DHP)"""
    for q in ("cds::gc::hp::details::retired_array::push", "cds::gc::dhp::retired_array::push"):
        F = ctx.need(q)[0]
        ps = PathSim(F, bound=64).run()
        for p in ps:
            if p.outcome != "return":
                continue
            stores = [e for e in p.events if (e.kind == "call" and e.q and e.q.endswith("retired_ptr::operator=")) or
                      (e.kind == "store" and e.obj and e.obj[0] == "deref")]
            ctx.check(len(stores) == 1, rid, F, "push() stores the element on every path", stores[0].node if stores else None,
                      sig="push-stores")
            if stores:
                a = stores[0].args[0] if stores[0].kind == "call" else stores[0].val
                ctx.check(strip_sv(a) == ("p", F.params[0]["d"], F.params[0]["n"]), rid, F, "push() stores its argument", stores[0].node,
                          sig="push-stores-arg")


def rule_drain_bounds(ctx, rid, F, want, reason):
    """the drain loops of a singleton destructor run from first() to each of the
    required ends (HP: last(); DHP: last() of every full block and current_cell_ of the block in use)"""
    have = set()
    starts_ok = True
    node = None
    for fr in Q.calls_in(F, FREE):
        lp = Q.innermost_loop_of(F, fr["_site"][0])
        if not lp:
            continue
        h, body = lp
        t = F.blocks[h].term
        c = F.strip(t["cond"]) if t and t.get("cond") else None
        node = t
        if not c or c.get("k") != "bin" or c["op"] != "!=":
            continue
        for x in roots(F, c["rhs"], (h, 0), expand_loop_vars=False):
            if x[0] == "call":
                have.add(x[1].split("::")[-1])
            if x[0] == "member":
                have.add(x[2])
        lf = roots(F, c["lhs"], (h, 0), expand_loop_vars=True)
        if not any(x[0] == "call" and x[1].split("::")[-1] == "first" for x in lf):
            starts_ok = False
    ctx.check(want <= have, rid, F, "destructor drain loops cover the retired storage up to %s" % sorted(want), node,
              detail="loop ends found: %s. %s" % (sorted(have), reason), sig="drain-bounds")
    ctx.check(starts_ok, rid, F, "destructor drain loops start at first()", node, sig="drain-start")


# ---------------------------------------------------------------------------
# loops that must visit every element of [first, last)
# ---------------------------------------------------------------------------
def cursor_of(F, node):
    """the loop-carried local the expression is rooted at (X in X->f, *X, X[i])"""
    vs = root_vars(roots(F, node, F.site_of(node)))
    vs = [v for v in vs if any(d.kind == "update" for d in rdefs(F).all_defs(v))]
    return vs[0] if len(vs) == 1 else None


def rule_full_range(ctx, rid, F, use_node, what, first_re, last_re, reason):
    """the element used at `use_node` ranges over the whole [first, last):
    the cursor's initial value (first) reaches the use without an intervening
    advance, the cursor advances by ++ only, and the loop ends only at last"""
    var = cursor_of(F, use_node)
    if var is None:
        ctx.bad(rid, F, "%s: element is not addressed through a loop cursor" % what, use_node, sig="range-cursor:" + what)
        return
    rd = rdefs(F)
    site = use_node["_site"] if "_site" in use_node else F.site_of(use_node)
    reaching = rd.at(var, site)
    inits = [d for d in reaching if d.kind in ("init", "assign")]
    ok_init = False
    for d in inits:
        rs = roots(F, d.rhs, d.site, expand_loop_vars=False)
        if any((r[0] == "call" and re.search(first_re, r[1])) for r in rs):
            ok_init = True
    ctx.check(ok_init, rid, F, "%s: the first element of the range is covered (cursor reaches the use with its initial value)" % what,
              use_node, detail="definitions of the cursor reaching the use: %s. %s" % (
                  [F.text(d.node) for d in reaching if isinstance(d.node, dict) and "k" in d.node], reason), sig="range-first:" + what)
    ups = [d for d in rd.all_defs(var) if d.kind == "update"]
    ok_step = all(d.node.get("k") == "un" and d.node.get("op") == "++" for d in ups) and len(ups) == 1
    ctx.check(ok_step, rid, F, "%s: the cursor advances one element at a time" % what, ups[0].node if ups else use_node,
              sig="range-step:" + what)
    lp = Q.innermost_loop_of(F, site[0])
    ok_end = False
    if lp:
        h, body = lp
        # find the loop's exit condition on the cursor
        for b in body:
            t = F.blocks[b].term
            if not t or not t.get("cond"):
                continue
            c = F.strip(t["cond"])
            if c.get("k") == "bin" and c["op"] == "!=" and any(s not in body for s in F.blocks[b].real_succ()):
                sides = [F.strip(c["lhs"]), F.strip(c["rhs"])]
                names = []
                for sd in sides:
                    names.append(roots(F, sd, (b, 0), expand_loop_vars=False))
                has_cursor = any(any(r == ("var", var, r[2]) for r in rs if r[0] == "var") for rs in names) or \
                    any(var in root_vars(rs) for rs in names)
                has_last = any(any(r[0] == "call" and re.search(last_re, r[1]) for r in rs) for rs in names)
                if has_cursor and has_last:
                    ok_end = True
    ctx.check(ok_end, rid, F, "%s: the loop ends only when the cursor reaches the end of the range" % what, use_node,
              detail=reason, sig="range-last:" + what)


def rule_scan_ranges(ctx, rid, reason):
    """HP scans: the LSB pre-check, and the free/keep loop, each visit every retired element"""
    I = ctx.need("cds::gc::hp::details::basic_smr::inplace_scan")[0]
    Cl = ctx.need("cds::gc::hp::details::basic_smr::classic_scan")[0]
    # LSB pre-check: the condition that guards the diversion to classic_scan
    cs = Q.calls_in(I, r"basic_smr::classic_scan$")
    tested = False
    for c in cs:
        for cond, outcome, text, b in Q.guard_conditions(I, c["_site"]):
            if outcome and re.search(r"m_n & 1", text):
                n = I.deref(cond)
                rule_full_range(ctx, rid, I, n, "LSB pre-check of in-place scan", r"retired_array::first$", r"retired_array::last$",
                                "An unchecked odd pointer would be treated as 'marked' by the in-place pass: kept although unguarded, "
                                "then freed with its low bit cleared (wrong address, original never disposed). " + reason)
                tested = True
    ctx.check(tested, rid, I, "in-place scan has an LSB pre-check that diverts to classic_scan", cs[0] if cs else None, sig="has-lsb-precheck")
    for F in (I, Cl):
        for fr in Q.calls_in(F, FREE):
            rule_full_range(ctx, rid, F, fr, "free/keep loop of %s" % F.q.split("::")[-1], r"retired_array::first$", r"retired_array::last$", reason)


def rule_list_push(ctx, rid, F, head_field, next_field, reason):
    """lock-free push onto a singly linked list: on every path where the CAS on <head_field> wins, the pushed node's <next_field> was last set to
    exactly the value that CAS expected (so it is re-set after every failed attempt); nodes already in the list are never lost"""
    from sa.pathsim import PathSim
    from sa.q import cond_atoms, sv_field_path, noepoch
    n = 0
    for p in PathSim(F, bound=4000).run():
        ev = p.events
        for i, e in enumerate(ev):
            if e.kind != "call" or not (atomic_op(e) or "").startswith("compare_exchange") or e.obj is None or sv_field_path(e.obj)[-1:] != [head_field]:
                continue
            won = None
            for atom, tv, bev in cond_atoms(p):
                if atom == e.val:
                    won = tv
            if won is not True or len(e.args) < 2:
                continue
            n += 1
            exp, new = e.args[0], e.args[1]
            st = [x for x in ev[:i] if x.kind == "store" and sv_field_path(x.obj)[-1:] == [next_field] and noepoch(x.obj)[1:2] == (noepoch(new),) or
                  (x.kind == "store" and sv_field_path(x.obj)[-1:] == [next_field] and strip_sv(x.obj) == new)]
            ctx.check(bool(st) and st[-1].val == exp, rid, F,
                      "the pushed record's %s link holds the list head that the winning CAS expected" % next_field, e.node,
                      detail="last %s value %r, CAS expected %r: with a stale link the records pushed in between are dropped from the list. %s"
                      % (next_field, st[-1].val if st else None, exp, reason), sig="push-link:%s" % head_field)
    return n


def rule_dhp_retired_empty(ctx, rid, reason):
    """retired_array::empty() decides at thread detach whether the blocks may be released: it may say 'empty' only if the write cursor stands on
    the very first cell of the list (no block, or current block == head block and current cell == its first cell)"""
    import itertools
    from sa.pathsim import PathSim
    from sa.q import noepoch, sv_field_path
    F = ctx.need("cds::gc::dhp::retired_array::empty")[0]
    rets = set()
    for p in PathSim(F, bound=256).run():
        if p.outcome == "return":
            rets.add(_canon_bool(p.ret))
    n = 0
    for r in rets:
        atoms = []
        _collect_atoms(r, atoms)
        if not any("current_cell_" in repr(a) for a in atoms):
            ctx.ok(rid, F, "empty() is not cursor-based in this version (rule not applicable)", None, sig="empty-not-cursor-based")
            continue

        def kind(a):
            s = repr(a)
            if "current_block_" in s and "(null)" in s.replace("('null',)", "(null)") or ("current_block_" in s and "'null'" in s and "list_head_" not in s and "current_cell_" not in s):
                return "A"
            if "current_block_" in s and "list_head_" in s and "current_cell_" not in s:
                return "B"
            if "current_cell_" in s and "first" in s:
                return "C"
            return None
        n += 1
        bad = None
        for vals in itertools.product((False, True), repeat=len(atoms)):
            env = dict(zip(atoms, vals))
            if not _eval_bool(r, env):
                continue
            A = any(env[a] for a in atoms if kind(a) == "A")
            B = any(env[a] for a in atoms if kind(a) == "B")
            Cc = any(env[a] for a in atoms if kind(a) == "C")
            if not (A or (B and Cc)):
                bad = env
                break
        ctx.check(bad is None, rid, F, "empty() reports true only when the write cursor is on the first cell of the head block (or there is no block)", None,
                  detail="the predicate is true for: %s. With the cursor at the start of a later block the full blocks before it still hold retired pointers; "
                  "free_thread_data() would release them undisposed. %s" % ({repr(k)[:60]: v for k, v in (bad or {}).items()}, reason), sig="empty-cursor-at-head")
    return n


def _canon_bool(sv):
    from sa.q import noepoch
    if isinstance(sv, tuple):
        if sv[:1] in (("call",), ("callv",)):
            return ("call", sv[1])
        return tuple(_canon_bool(x) if isinstance(x, tuple) else x for x in noepoch(sv))
    return sv


def _collect_atoms(sv, out):
    if isinstance(sv, tuple) and sv[:1] == ("op",) and sv[1] in ("||", "&&"):
        _collect_atoms(sv[2], out)
        _collect_atoms(sv[3], out)
    elif isinstance(sv, tuple) and sv[:2] == ("un", "!"):
        _collect_atoms(sv[2], out)
    elif isinstance(sv, tuple) and sv[:1] == ("bool",):
        _collect_atoms(sv[1], out)
    else:
        if sv not in out:
            out.append(sv)


def _eval_bool(sv, env):
    if isinstance(sv, tuple) and sv[:1] == ("op",) and sv[1] == "||":
        return _eval_bool(sv[2], env) or _eval_bool(sv[3], env)
    if isinstance(sv, tuple) and sv[:1] == ("op",) and sv[1] == "&&":
        return _eval_bool(sv[2], env) and _eval_bool(sv[3], env)
    if isinstance(sv, tuple) and sv[:2] == ("un", "!"):
        return not _eval_bool(sv[2], env)
    if isinstance(sv, tuple) and sv[:1] == ("bool",):
        return _eval_bool(sv[1], env)
    return env[sv]


def rule_dhp_extend_cursor(ctx, rid, reason):
    """DHP retired array: the write cursor may jump to a freshly appended block only from the end of the current block; after scan() compacted
    the survivors the cursor stands inside the old blocks, and every cell it would skip still holds a stale (disposed or moved) pointer that the
    next scan would dispose again"""
    from sa.pathsim import PathSim
    from sa.q import cond_atoms, sv_field_path
    E = ctx.need("cds::gc::dhp::retired_array::extend")[0]

    def at_end_atom(atom):
        if not (isinstance(atom, tuple) and atom[:2] == ("op", "==")):
            return None
        a, b = atom[2], atom[3]
        for x, y in ((a, b), (b, a)):
            if sv_field_path(x)[-1:] == ["current_cell_"] and isinstance(y, tuple) and y[:1] == ("call",) and str(y[1]).endswith("retired_block::last"):
                return x
        return None
    moves = 0
    unguarded = []
    for p in PathSim(E, bound=256).run():
        ev = p.events
        for i, e in enumerate(ev):
            if e.kind == "store" and sv_field_path(e.obj)[-1:] == ["current_cell_"]:
                moves += 1
                ok = any(at_end_atom(atom) is not None and tv and ev.index(bev) < i for atom, tv, bev in cond_atoms(p))
                if not ok:
                    unguarded.append(e)
    if moves == 0:
        ctx.ok(rid, E, "extend() never moves the write cursor", None, sig="extend-no-move")
        return 1
    if not unguarded:
        ctx.ok(rid, E, "extend() moves the write cursor only from the end of the current block", None, sig="extend-guarded")
        return moves
    # the callers must establish 'cursor at the end of its block' on the *current* cursor, right before the call
    n = 0
    for F in ctx.db.funcs.values():
        if not Q.calls_in(F, r"dhp::retired_array::extend$"):
            continue
        for p in PathSim(F, bound=4000).run():
            ev = p.events
            for i, e in enumerate(ev):
                if e.kind == "call" and e.q and e.q.endswith("retired_array::extend"):
                    n += 1
                    now = e.obj[-1] if isinstance(e.obj, tuple) and isinstance(e.obj[-1], int) else None
                    ok = False
                    for atom, tv, bev in cond_atoms(p):
                        x = at_end_atom(atom)
                        if x is not None and tv and ev.index(bev) < i and isinstance(x[-1], int) and x[-1] == now:
                            ok = True
                    ctx.check(ok, rid, F, "the retired array is extended (cursor moved to the new block) only when the current write cursor is at the end of its block",
                              e.node, detail="extend() moves the cursor unconditionally and this call site does not test the cursor as it is after the compaction "
                              "(a value saved before the scan does not count): the skipped cells keep stale pointers that the next scan disposes again. " + reason,
                              sig="extend-skips-cells")
    return n
