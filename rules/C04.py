"""C04 - RCU never reclaims an object a pre-existing reader may still see (structural clauses, DESIGN.md §4 C04)."""
from sa import run as _run
from . import rcu

PROPERTY = "C04"
LEVEL = "other"
FILES = r"^%s/(cds/urcu/.*\.h|src/urcu_(gp|sh)\.cpp)$" % _run.REPO
NAMES = r"^cds::urcu::"
TUS = {
    "quick": ["test/unit/list/michael_rcu_gpb.cpp", "test/unit/list/michael_rcu_gpi.cpp", "test/unit/list/michael_rcu_gpt.cpp",
              "test/unit/list/michael_rcu_shb.cpp"],
    "thorough": ["test/unit/list/*_rcu_*.cpp", "test/unit/tree/*_rcu_*.cpp", "src/urcu_gp.cpp", "src/urcu_sh.cpp"],
}
EXPLANATION = (
    "Path-exhaustive obligations over the grace-period machinery: synchronize() of each flavour runs two flip-and-wait phases (signal "
    "flavour: membar, two epoch switches each followed by a quiescent-state wait, membar) inside the RCU lock scope and starts "
    "reclamation only afterwards; flip_and_wait / wait_for_quiescent_state flip the control bit first and then wait for every attached "
    "thread record with no other filter; the reader side snapshots the global control word and fences on outermost entry, counts nesting "
    "by +-1 in the low bits; buffered reclamation frees only elements whose epoch tag is <= the epoch taken before the phases (rules shared "
    "with C05). Not decided: that two phases suffice, nesting overflow, signal delivery, container-side read-lock discipline.")
ASSUMPTIONS = ["clang CFG of the instantiated RCU classes (-DNDEBUG)", "necessary conditions only"]
R = "Otherwise synchronize() can return, and retired objects be freed, while a reader that started earlier is still in its critical section (C04)."


def r04_1(ctx):
    rcu.rule_two_phases(ctx, "R04.1", R)
r04_1.rule_id = "R04.1"


def r04_2(ctx):
    rcu.rule_flip_and_wait(ctx, "R04.2", R)
r04_2.rule_id = "R04.2"


def r04_3(ctx):
    rcu.rule_reader_side(ctx, "R04.3", R)
r04_3.rule_id = "R04.3"


def r04_4(ctx):
    rcu.rule_clear_buffer(ctx, "R04.4", R)
    rcu.rule_dispose_buffer(ctx, "R04.4", R)
    rcu.rule_push_buffer(ctx, "R04.4", R)
    rcu.rule_gpi_retire(ctx, "R04.4", R)
    rcu.rule_epoch_source(ctx, "R04.4", R)
r04_4.rule_id = "R04.4"


RULES = [r04_1, r04_2, r04_3, r04_4]
FLOORS = {"R04.1": 4, "R04.2": 8, "R04.3": 12, "R04.4": 12}
