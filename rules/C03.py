"""C03 - HP/DHP dispose every retired object exactly once (structural clauses, DESIGN.md §4 C03)."""
import re

from sa import run as _run
from sa import q as Q
from . import smr

PROPERTY = "C03"
LEVEL = "other"
FILES = r"^%s/(src/(hp|dhp)\.cpp|cds/gc/(hp|dhp)\.h|cds/gc/details/(hp_common|retired_ptr)\.h)$" % _run.REPO
TUS = {
    "quick": ["src/hp.cpp", "src/dhp.cpp", "test/unit/queue/msqueue_hp.cpp", "test/unit/queue/msqueue_dhp.cpp",
              "test/unit/tree/intrusive_ellenbintree_hp.cpp", "test/unit/tree/intrusive_ellenbintree_dhp.cpp"],
    "thorough": ["src/hp.cpp", "src/dhp.cpp", "test/unit/queue/*_hp.cpp", "test/unit/queue/*_dhp.cpp",
                 "test/unit/list/*_hp.cpp", "test/unit/list/*_dhp.cpp", "test/unit/stack/*hp.cpp",
                 "test/unit/tree/intrusive_ellenbintree_hp.cpp", "test/unit/tree/intrusive_ellenbintree_dhp.cpp"],
}
EXPLANATION = (
    "Static, path-exhaustive obligations over the HP and DHP cores: every iteration of a scan loop performs exactly one of "
    "{free, keep} on its element and the keep count handed to reset() is the compaction cursor; retire() pushes once and scans "
    "exactly when push() reports a full array; help_scan moves (never frees or drops) the elements of an adopted record and "
    "clears it afterwards; the singleton destructors free every still-retired element of every record before destroying it. "
    "Necessary conditions of exactly-once disposal; races between threads are not decided.")
ASSUMPTIONS = ["clang 14 AST/CFG faithful to the build (-DNDEBUG)", "necessary conditions only"]
R = "Otherwise a retired object is disposed twice or never (C03)."


def r03_1(ctx):
    fs = [f for f in ctx.db.funcs.values() if re.match(r"cds::gc::(hp|dhp)::", f.q) and smr.is_scan_like(f)]
    ctx.need("cds::gc::hp::details::basic_smr::classic_scan")
    ctx.need("cds::gc::hp::details::basic_smr::inplace_scan")
    ctx.need("cds::gc::dhp::(anon)::retire_data")
    smr.rule_scan_decision(ctx, "R03.1", fs, R)
    smr.rule_scan_ranges(ctx, "R03.1r", R)
r03_1.rule_id = "R03.1"


def r03_2(ctx):
    fs = [f for f in ctx.db.funcs.values() if re.match(r"cds::gc::hp::", f.q)]
    smr.rule_compaction_count(ctx, "R03.2", fs)
    smr.rule_dhp_block_walk(ctx, "R03.2")
r03_2.rule_id = "R03.2"


def r03_3(ctx):
    D = ctx.need("cds::gc::hp::details::basic_smr::~basic_smr")[0]
    smr.rule_drain(ctx, "R03.3", D, R)
    smr.rule_list_traversal_for(ctx, "R03.3", D, R)
    D2 = ctx.need("cds::gc::dhp::smr::~smr")[0]
    smr.rule_drain(ctx, "R03.3", D2, R)
    smr.rule_drain_bounds(ctx, "R03.3", D, {"last"}, R)
    smr.rule_drain_bounds(ctx, "R03.3", D2, {"last", "current_cell_"}, R)
    smr.rule_list_traversal_for(ctx, "R03.3", D2, R)
r03_3.rule_id = "R03.3"


def r03_4(ctx):
    H = ctx.need("cds::gc::hp::details::basic_smr::help_scan")[0]
    smr.rule_help_scan(ctx, "R03.4", H, "owner_rec_", r"retired_array::push$", r"retired_array::interthread_clear$", R)
    H2 = ctx.need("cds::gc::dhp::smr::help_scan")[0]
    smr.rule_help_scan(ctx, "R03.4", H2, "thread_id_", r"dhp::retired_array::push$", r"dhp::retired_array::fini$", R)
    smr.rule_move_range(ctx, "R03.4", H, H2)
r03_4.rule_id = "R03.4"


def r03_5(ctx):
    fs = [f for f in ctx.db.funcs.values() if re.search(r"(generic_HP|gc::DHP)::retire$", f.q)]
    n = smr.rule_retire(ctx, "R03.5", fs, R)
    kinds = set()
    for f in fs:
        if Q.calls_in(f, r"retired_array::push$"):
            kinds.add((f.q, len(f.params)))
    if len(kinds) < 4:
        ctx.broken("retire() overloads (disposer and function-pointer forms) for HP and DHP not all instantiated: %s" % sorted(kinds))
    smr.rule_push_store(ctx, "R03.5")
r03_5.rule_id = "R03.5"


def r03_6(ctx):
    n = smr.rule_dhp_retired_empty(ctx, "R03.6", "Otherwise retired objects of a detached thread are never disposed (C03).")
    if n < 1:
        ctx.broken("retired_array::empty() return expression not found")
r03_6.rule_id = "R03.6"


def r03_7(ctx):
    n = smr.rule_dhp_extend_cursor(ctx, "R03.7", "Otherwise a retired object is disposed twice (C03).")
    if n < 1:
        ctx.broken("retired_array::extend() cursor moves / call sites not found")
r03_7.rule_id = "R03.7"


def r03_8(ctx):
    """DHP: retired_array::fini() hands the retired blocks back without disposing what they hold - outside the destructors and help_scan's
    own drained-source case it is reached only on a path where empty() of that same array was found true with nothing in between that can
    add to the array (scan / help_scan / push): help_scan adopts still-guarded objects of orphaned records into the caller's array"""
    from sa.pathsim import PathSim
    from sa.q import cond_atoms, noepoch
    ADD = re.compile(r"::(scan|help_scan|inplace_scan|classic_scan|push|safe_push|retire|extend)$")
    n = 0
    for F in ctx.db.funcs.values():
        if not F.q.startswith("cds::gc::dhp::") or F.kind in ("ctor", "dtor") or F.q.endswith("::help_scan") or F.q.endswith("retired_array::fini"):
            continue
        if not Q.calls_in(F, r"dhp::retired_array::fini$"):
            continue
        for p in PathSim(F, bound=4000).run():
            ev = p.events
            atoms = cond_atoms(p)
            for i, e in enumerate(ev):
                if not (e.kind == "call" and e.q and e.q.endswith("dhp::retired_array::fini")):
                    continue
                n += 1
                ok = False
                why = "no 'empty()' outcome of that array on the path"
                for j, c in enumerate(ev[:i]):
                    if c.kind == "call" and c.q and c.q.endswith("dhp::retired_array::empty") and noepoch(c.obj) == noepoch(e.obj):
                        if any(noepoch(a) == noepoch(c.val) and tv for a, tv, b in atoms if ev.index(b) < i):
                            adders = [x.q.split("::")[-1] for x in ev[j + 1:i] if x.kind == "call" and x.q and ADD.search(x.q)]
                            if not adders:
                                ok = True
                            else:
                                why = "between the empty() test (line %s) and fini() the path calls %s" % (c.node.get("l") if c.node else "?", adders)
                ctx.check(ok, "R03.8", F, "the retired array is released without disposing only after it was found empty, with nothing in between that can add to it", e.node,
                          detail="%s: objects adopted from orphaned records (or retired meanwhile) are dropped with the blocks and never disposed. %s" % (why, R),
                          sig="fini-after-fresh-empty")
    if n < 1:
        ctx.broken("no guarded retired_array::fini() site found")
r03_8.rule_id = "R03.8"


RULES = [r03_1, r03_2, r03_3, r03_4, r03_5, r03_6, r03_7, r03_8]
FLOORS = {"R03.1r": 8, "R03.1": 7, "R03.2": 3, "R03.3": 10, "R03.4": 14, "R03.5": 8, "R03.6": 1, "R03.7": 1, "R03.8": 1}
