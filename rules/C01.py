"""C01 - Hazard-pointer reclamation never frees an object a guard still protects.

Decided clauses (structural, every path of the HP core and of the guard API):
see DESIGN.md §4 C01.  The behavioural statement (safety under every
interleaving and memory-model behaviour) is NOT decided."""
import re

from sa import q as Q
from . import smr

PROPERTY = "C01"
LEVEL = "other"
FILES = r"^/repo/(src/hp\.cpp|cds/gc/hp\.h|cds/gc/details/(hp_common|retired_ptr)\.h)$".replace("/repo", __import__("sa.run").run.REPO)
TUS = {
    "quick": ["src/hp.cpp", "test/unit/queue/msqueue_hp.cpp", "test/unit/list/michael_hp.cpp",
              "test/unit/intrusive-set/intrusive_feldman_hashset_hp.cpp"],
    "thorough": ["src/hp.cpp", "test/unit/*/*_hp.cpp", "test/unit/*/*_hp_*.cpp"],
}
EXPLANATION = (
    "Static, path-exhaustive structural obligations over the Hazard Pointer core (src/hp.cpp, cds/gc/hp.h, "
    "cds/gc/details/hp_common.h) parsed from /repo's current source: scan decision is about the element being freed "
    "(classic and in-place), every published hazard slot of every owned record is read, protect()/assign() publish-fence-"
    "revalidate protocol, sync before scan, detach order, help_scan adoption under the ownership CAS. These are necessary "
    "conditions of C01; safety under all interleavings is not decided.")
ASSUMPTIONS = [
    "clang 14 AST/CFG of the instantiated functions is faithful to what the build compiles (same flags, -DNDEBUG)",
    "necessary conditions only: the memory-model adequacy of sync() and linearizability are not decided",
]

R = "Otherwise an object whose own pointer is published in a hazard slot can be freed by a scan (C01)."


def r01_1(ctx):
    funcs = [f for f in smr.smr_functions(ctx, "hp") if f.q.endswith("_scan")]
    ctx.need("cds::gc::hp::details::basic_smr::classic_scan")
    ctx.need("cds::gc::hp::details::basic_smr::inplace_scan")
    smr.rule_scan_decision(ctx, "R01.1", funcs, R)
r01_1.rule_id = "R01.1"


def r01_2(ctx):
    F = ctx.need("cds::gc::hp::details::basic_smr::inplace_scan")[0]
    smr.rule_inplace_mark(ctx, "R01.2", F)
    smr.rule_scan_ranges(ctx, "R01.2r", R)
r01_2.rule_id = "R01.2"


def r01_3(ctx):
    for name in ("classic_scan", "inplace_scan"):
        F = ctx.need("cds::gc::hp::details::basic_smr::" + name)[0]
        smr.rule_hazard_coverage(ctx, "R01.3", F, r"common::guard::get$", R)
        smr.rule_list_traversal(ctx, "R01.3", F, "thread_list_", "next_", R)
        smr.rule_slot_range(ctx, "R01.3", F)
    smr.rule_storage_bounds(ctx, "R01.3")
r01_3.rule_id = "R01.3"


def r01_4(ctx):
    fs = [f for f in ctx.db.funcs.values() if re.search(r"generic_HP::(Guard|GuardArray)::protect$", f.q)]
    n = smr.rule_protect_protocol(ctx, "R01.4", fs, "Without re-validation after publication a concurrent unlink+retire+scan "
                                  "between load and publication frees the object while the guard 'protects' it (C01).")
    if n == 0:
        ctx.broken("no instantiation of generic_HP::Guard::protect / GuardArray::protect with a validation loop found")
    fa = [f for f in ctx.db.funcs.values() if re.search(r"generic_HP::(Guard|GuardArray)::assign$", f.q)]
    n2 = smr.rule_assign_sync(ctx, "R01.4a", fa, "The slot store must be ordered before the later validation load by sync().")
    if n2 == 0:
        ctx.broken("no instantiation of generic_HP::Guard::assign found")
r01_4.rule_id = "R01.4"


def r01_5(ctx):
    F = ctx.need("cds::gc::hp::details::basic_smr::scan")[0]
    smr.rule_scan_entry(ctx, "R01.5", F, "scan must fence before reading other threads' hazard slots.")
    n = smr.rule_scan_func_targets(ctx, "R01.5", smr.smr_functions(ctx, "hp"))
    if n == 0:
        ctx.broken("no initialisation of scan_func_ found")
r01_5.rule_id = "R01.5"


def r01_6(ctx):
    F = ctx.need("cds::gc::hp::details::basic_smr::free_thread_data")[0]
    smr.rule_detach_order(ctx, "R01.6", F, "owner_rec_", "Releasing the record before its retired objects are scanned lets another "
                          "thread reuse it while they are still pending.")
    H = ctx.need("cds::gc::hp::details::basic_smr::help_scan")[0]
    smr.rule_help_scan(ctx, "R01.6", H, "owner_rec_", r"retired_array::push$", r"retired_array::interthread_clear$",
                       "Adopting a record that is still owned races with its owner's retire()/scan().")
r01_6.rule_id = "R01.6"


def r01_7(ctx):
    F = ctx.need("cds::gc::hp::details::basic_smr::alloc_thread_data")[0]
    n = smr.rule_list_push(ctx, "R01.7", F, "thread_list_", "next_", "A thread whose record is not in thread_list_ publishes hazard pointers that no scan reads (C01).")
    if n < 1:
        ctx.broken("no winning push onto thread_list_ found in alloc_thread_data")
r01_7.rule_id = "R01.7"


RULES = [r01_1, r01_2, r01_3, r01_4, r01_5, r01_6, r01_7]
FLOORS = {"R01.2r": 8, "R01.1": 5, "R01.2": 6, "R01.3": 8, "R01.4": 4, "R01.4a": 2, "R01.5": 2, "R01.6": 6, "R01.7": 1}
