"""C24 - Object pools never hand one object to two holders (structural clauses, DESIGN.md §4 C24)."""
import re

from sa import run as _run
from sa import q as Q
from sa.cfg import cfg_of
from sa.dataflow import roots, rdefs
from sa.pathsim import PathSim, C, NULL
from sa.q import cond_atoms, path_end, strip_sv, sv_mentions, path_calls

PROPERTY = "C24"
LEVEL = "other"
FILES = r"^%s/cds/memory/(vyukov_queue_pool|pool_allocator)\.h$" % _run.REPO
TUS = {"quick": ["/verif/drivers/pools.cpp"],
       "thorough": ["/verif/drivers/pools.cpp", "test/unit/tree/ellen_bintree_update_desc_pool.cpp", "test/unit/tree/bronson_avltree_map_rcu_gpb.cpp"]}
EXPLANATION = (
    "Path rules over the three Vyukov-queue pools and pool_allocator: deallocate() gives an object back to exactly one owner (the pool queue "
    "iff it belongs to the preallocated range, otherwise the heap; lazy pool: queue or heap, exactly one), the object is destroyed before it "
    "becomes visible in the queue, a full queue is retried (never dropped) where the pool owns the storage; allocate() returns either the "
    "popped object or a fresh allocation, never null from the bounded pool; preallocate_pool pushes each object of [first,last) once and "
    "from_pool tests exactly that range; pool_allocator forwards to the pool. Exclusivity of one queue slot per object rests on the queue "
    "itself (C07 rules, same engine). Not decided: the interleaving statement.")
ASSUMPTIONS = ["clang CFG (-DNDEBUG)", "necessary conditions only"]
R = "Otherwise an object is both in the free queue and in use (or freed), i.e. handed to two holders, or leaked (C24)."


def _p(F, i):
    return ("p", F.params[i]["d"], F.params[i]["n"])


def derived_from(p, seed):
    d = [seed]
    for e in p.events:
        if e.kind in ("call", "ctor", "new") and e.val is not None:
            vals = list(e.args) + ([e.obj] if e.obj is not None else [])
            if any(any(sv_mentions(a, x) for x in d) for a in vals):
                d.append(e.val)
    return d


def r24_1(ctx):
    """deallocate"""
    for cls, mode in (("vyukov_queue_pool", "range"), ("lazy_vyukov_queue_pool", "lazy"), ("bounded_vyukov_queue_pool", "bounded")):
        for F in ctx.need("cds::memory::%s::deallocate" % cls):
            obj = _p(F, 0)
            ps = PathSim(F, bound=512).run()
            ctx.paths += len(ps)
            for p in ps:
                end = path_end(p)
                ev = p.events
                dv = derived_from(p, obj)
                pushes = [i for i, e in enumerate(ev) if e.kind == "call" and e.q and e.q.endswith("::push") and any(any(sv_mentions(a, x) for x in dv) for a in e.args)]
                heap = [i for i, e in enumerate(ev) if e.kind == "call" and e.q and re.search(r"::(Delete|deallocate)$", e.q) and
                        any(any(sv_mentions(a, x) for x in dv) for a in e.args)]
                nonnull = None
                inpool = None
                pushed = None
                for atom, tv, bev in cond_atoms(p):
                    if atom == obj:
                        nonnull = tv
                    if isinstance(atom, tuple) and atom[0] in ("call", "get") and str(atom[1]).endswith("from_pool"):
                        inpool = tv
                    if pushes and atom == ev[pushes[-1]].val:
                        pushed = tv
                if nonnull is False:
                    ctx.check(not pushes and not heap, "R24.1", F, "%s::deallocate(nullptr) does nothing" % cls, None, sig="null")
                    continue
                if end[0] == "back":
                    # retry of a refused push: nothing else may have happened to the object
                    ctx.check(not heap and pushed is False, "R24.1", F, "%s: a refused push is retried, the object is not released elsewhere" % cls,
                              ev[pushes[-1]].node if pushes else None, detail=R, sig="retry")
                    continue
                if end[0] != "return":
                    continue
                if mode == "range":
                    if inpool:
                        ok = len(pushes) == 1 and not heap and pushed is True
                        ctx.check(ok, "R24.1", F, "an object of the preallocated range goes back to the queue (and only there), retried until accepted",
                                  ev[pushes[0]].node if pushes else None, detail=R, sig="range-push")
                    else:
                        ctx.check(len(heap) == 1 and not pushes, "R24.1", F, "a heap-allocated object is deleted and never pushed into the pool queue",
                                  ev[heap[0]].node if heap else None, detail=R, sig="heap-delete")
                elif mode == "lazy":
                    ok = len(pushes) == 1 and ((pushed is True and not heap) or (pushed is False and len(heap) == 1 and heap[0] > pushes[0]))
                    ctx.check(ok, "R24.1", F, "lazy pool: the object ends up in the queue or on the heap - exactly one of them",
                              ev[pushes[0]].node if pushes else None, detail="pushed=%s heap releases=%d. %s" % (pushed, len(heap), R), sig="lazy-one-of")
                else:
                    ok = len(pushes) == 1 and pushed is True and not heap
                    ctx.check(ok, "R24.1", F, "bounded pool: the object is pushed back (retried until accepted), never released elsewhere",
                              ev[pushes[0]].node if pushes else None, detail=R, sig="bounded-push")
                # destruction happens before the object becomes visible in the queue
                dt = [i for i, e in enumerate(ev) if (e.kind == "call" and e.q and "::~" in e.q) or (e.node is not None and e.node.get("k") == "pseudodtor")]
                if pushes and dt:
                    ctx.check(dt[0] < pushes[0], "R24.1", F, "the object is destroyed before it is made available to other threads", ev[pushes[0]].node,
                              sig="dtor-before-push")
r24_1.rule_id = "R24.1"


def r24_2(ctx):
    """allocate"""
    for cls, mode in (("vyukov_queue_pool", "range"), ("lazy_vyukov_queue_pool", "lazy"), ("bounded_vyukov_queue_pool", "bounded")):
        for F in ctx.need("cds::memory::%s::allocate" % cls):
            ps = PathSim(F, bound=512).run()
            ctx.paths += len(ps)
            for p in ps:
                if p.outcome != "return":
                    continue
                ev = p.events
                pops = [e for e in ev if e.kind == "call" and e.q and e.q.endswith("::pop")]
                fresh = [e for e in ev if e.kind == "call" and e.q and e.q.endswith("::New")]
                got = None
                for atom, tv, bev in cond_atoms(p):
                    for e in pops:
                        if atom == e.val:
                            got = (e, tv)
                if got and got[1]:
                    dv = derived_from(p, got[0].val)
                    ok = any(sv_mentions(p.ret, x) for x in dv) and not fresh
                    ctx.check(ok, "R24.2", F, "%s::allocate returns the popped object (and allocates nothing else)" % cls, got[0].node,
                              detail="returned %r" % (p.ret,), sig="alloc-popped")
                else:
                    if mode == "bounded":
                        ctx.bad("R24.2", F, "bounded pool returns without a successfully popped object", None, detail=R, sig="bounded-null")
                    else:
                        ok = len(fresh) == 1 and p.ret == fresh[0].val
                        ctx.check(ok, "R24.2", F, "%s::allocate falls back to exactly one fresh allocation when the queue is empty" % cls,
                                  fresh[0].node if fresh else None, sig="alloc-fresh")
r24_2.rule_id = "R24.2"


def r24_3(ctx):
    """preallocate_pool / from_pool agree on [first, last); every object pushed once"""
    from sa.affine import Affine, NotAffine
    for cls in ("vyukov_queue_pool", "bounded_vyukov_queue_pool"):
        for F in ctx.need("cds::memory::%s::preallocate_pool" % cls):
            ps = PathSim(F, bound=256).run()
            pushes = Q.calls_in(F, r"::push$")
            ctx.check(len(pushes) == 1, "R24.3", F, "preallocate_pool pushes pool objects", pushes[0] if pushes else None, sig="has-push")
            if not pushes:
                continue
            lp = Q.innermost_loop_of(F, pushes[0]["_site"][0])
            ctx.check(lp is not None, "R24.3", F, "the push is in the loop over the preallocated array", pushes[0], sig="push-loop")
            if lp:
                t = F.blocks[lp[0]].term
                c = F.strip(t["cond"]) if t and t.get("cond") else None
                ok = False
                if c is not None and c.get("k") == "bin" and c["op"] in ("<", "!="):
                    v = F.strip(c["lhs"])
                    e = F.strip(c["rhs"])
                    if v.get("k") == "ref" and e.get("k") == "member" and e.get("n") == "m_pLast":
                        ds = rdefs(F).all_defs(v["d"])
                        ini = [d for d in ds if d.kind == "init"]
                        upd = [d for d in ds if d.kind == "update"]
                        ok = len(ini) == 1 and F.strip(ini[0].rhs).get("n") == "m_pFirst" and len(upd) == 1 and upd[0].node.get("op") == "++"
                        # pushed object is *cursor
                        a = pushes[0].get("args", [])
                        ok = ok and len(a) == 1 and any(x.get("k") == "ref" and x.get("d") == v["d"] for x in F.walk(a[0]))
                ctx.check(ok, "R24.3", F, "each object of [m_pFirst, m_pLast) is pushed exactly once", t, sig="range-loop")
            # m_pLast = m_pFirst + capacity, allocation of capacity objects
            A = Affine(ctx.db)
            stores = {}
            for _, _, e in F.all_elements():
                if e.get("k") == "bin" and e.get("op") == "=":
                    l = F.strip(e["lhs"])
                    if l.get("k") == "member" and l.get("n") in ("m_pFirst", "m_pLast"):
                        stores[l["n"]] = e
            ok = False
            if "m_pLast" in stores and "m_pFirst" in stores:
                try:
                    last = A.norm(F, stores["m_pLast"]["rhs"])
                    names = [k for k in last if k != "this.m_pFirst" and k != 1]
                    ok = last.get("this.m_pFirst") == 1 and len(names) == 1 and "capacity" in str(names[0]) and 1 not in last
                    al = F.strip(stores["m_pFirst"]["rhs"])
                    alloc_arg = al.get("args", [None])[0] if al.get("k") == "call" else None
                    if alloc_arg is not None:
                        an = A.norm(F, alloc_arg)
                        ok = ok and an == {names[0]: 1}
                except NotAffine:
                    ok = False
            ctx.check(ok, "R24.3", F, "m_pLast = m_pFirst + capacity and exactly capacity objects are allocated", stores.get("m_pLast"), sig="range-bounds")
        fps = ctx.db.find(q="cds::memory::%s::from_pool" % cls)
        if cls == "vyukov_queue_pool" and not fps:
            ctx.broken("vyukov_queue_pool::from_pool not instantiated")
        for F in fps:      # the bounded pool uses from_pool only in assertions (not instantiated in a release parse)
            rets = [e for _, _, e in F.all_elements() if e.get("k") == "ret" and "v" in e]
            r = F.strip(rets[0]["v"]) if rets else None
            ok = False
            if r is not None and r.get("k") == "bin" and r["op"] == "&&":
                l, rr = F.strip(r["lhs"]), F.strip(r["rhs"])
                def cmp(n, lo, op, hi):
                    return n.get("k") == "bin" and n["op"] == op and F.text(n["lhs"]).endswith(lo) and F.text(n["rhs"]).endswith(hi)
                pn = F.params[0]["n"]
                ok = (cmp(l, "m_pFirst", "<=", pn) and cmp(rr, pn, "<", "m_pLast")) or (cmp(rr, "m_pFirst", "<=", pn) and cmp(l, pn, "<", "m_pLast"))
            ctx.check(ok, "R24.3", F, "from_pool(p) tests m_pFirst <= p < m_pLast", rets[0] if rets else None, detail=F.text(r) if r else "", sig="from-pool")
r24_3.rule_id = "R24.3"


def r24_4(ctx):
    for name in ("allocate", "deallocate"):
        fs = ctx.need("cds::memory::pool_allocator::" + name, min_count=3)
        for F in fs:
            calls = [c for c in Q.calls_in(F, r"pool::%s$" % name)]
            ctx.check(len(calls) == 1, "R24.4", F, "pool_allocator::%s forwards to the pool's %s exactly once" % (name, name), calls[0] if calls else None,
                      sig="forward")
r24_4.rule_id = "R24.4"


RULES = [r24_1, r24_2, r24_3, r24_4]
FLOORS = {"R24.1": 8, "R24.2": 5, "R24.3": 8, "R24.4": 6}
