"""C28 - Feldman hash addressing (decided clauses: reader/writer cut-width agreement, node sizes, expansion protocol, DESIGN.md §4 C28)."""
import re

from sa import run as _run
from sa import q as Q
from sa.cfg import cfg_of
from sa.pathsim import PathSim, C, NULL
from sa.q import cond_atoms, path_end, strip_sv, sv_field_path, atomic_op, sv_mentions, sv_affine, noepoch
from . import bits

PROPERTY = "C28"
LEVEL = "other"
FILES = r"^%s/cds/(intrusive/details/feldman_hashset_base\.h|intrusive/impl/feldman_hashset\.h|intrusive/feldman_hashset_rcu\.h|algo/split_bitstring\.h)$" % _run.REPO
TUS = {"quick": ["test/unit/intrusive-set/intrusive_feldman_hashset_hp.cpp", "test/unit/intrusive-set/intrusive_feldman_hashset_rcu_gpb.cpp"],
       "thorough": ["test/unit/intrusive-set/intrusive_feldman_hashset_*.cpp", "test/unit/set/feldman_hashset_*.cpp", "test/unit/map/feldman_hashmap_*.cpp"]}
EXPLANATION = (
    "Agreement rules over the Feldman multi-level array: the head level is addressed with head_node_size_log bits and every deeper level with "
    "array_node_size_log bits, by traverse and by expand_slot alike (the displaced item is re-addressed from the traversal's current bit offset), "
    "head/array nodes are allocated with the sizes that metrics::make derives as 1 << the same widths; expand_slot publishes the new array node "
    "only after the displaced item was stored in it and always finishes a conversion it started; insertion reports 'hash bits exhausted' only "
    "under splitter.eos(); the splitter's mask arithmetic is covered by the C25 rules (same engine). NOT decided: that metrics::make's "
    "normalisation consumes all hash bits exactly (modular arithmetic over three runtime integers).")
ASSUMPTIONS = ["clang CFG (-DNDEBUG)", "necessary conditions only"]
R = "Otherwise two distinct hashes can be sent to the same slot forever, or a reader indexes past a node (C28)."


def _cut_calls(p):
    return [e for e in p.events if e.kind == "call" and e.q and re.search(r"(split_bitstring|byte_splitter|number_splitter)::cut$", e.q)]


def r28_1(ctx):
    """cut widths"""
    fs = [f for f in ctx.db.funcs.values() if f.q == "cds::intrusive::feldman_hashset::multilevel_array::traverse_data::reset"]
    if not fs:
        ctx.broken("traverse_data::reset not instantiated")
    for F in fs:
        for p in PathSim(F, bound=64).run():
            cuts = _cut_calls(p)
            ok = len(cuts) == 1 and sv_field_path(cuts[0].args[0])[-1:] == ["head_node_size_log"]
            ctx.check(ok, "R28.1", F, "the head level is addressed with head_node_size_log bits", cuts[0].node if cuts else None, detail=R, sig="head-cut")
            hd = [e for e in p.events if e.kind == "call" and e.q and e.q.endswith("multilevel_array::head")]
            st = [e for e in p.events if e.kind == "store" and sv_field_path(e.obj)[-1:] == ["pArr"]]
            ctx.check(bool(hd) and bool(st) and st[-1].val == hd[0].val, "R28.1", F, "a fresh traversal starts at the head node", None, sig="start-head")
            rs = [e for e in p.events if e.kind == "call" and e.q and e.q.endswith("::reset") and not e.q.endswith("traverse_data::reset")]
            ctx.check(bool(rs) and (not cuts or p.events.index(rs[0]) < p.events.index(cuts[0])), "R28.1", F,
                      "the splitter is rewound before the head bits are cut", None, sig="splitter-reset")
    for F in ctx.need("cds::intrusive::feldman_hashset::multilevel_array::traverse"):
        seen = 0
        for p in PathSim(F, bound=256).run():
            cuts = _cut_calls(p)
            for c in cuts:
                seen += 1
                ctx.check(sv_field_path(c.args[0])[-1:] == ["array_node_size_log"], "R28.1", F, "deeper levels are addressed with array_node_size_log bits",
                          c.node, detail=R, sig="array-cut")
                # only when the slot holds an array node
                ok = False
                for atom, tv, bev in cond_atoms(p):
                    if isinstance(atom, tuple) and atom[0] == "op" and atom[1] == "==" and tv and "flag_array_node" in F.text(bev.node):
                        ok = True
                ctx.check(ok, "R28.1", F, "a level is descended (and hash bits consumed) only through an array-node slot", c.node, sig="descend-array")
        ctx.check(seen >= 1, "R28.1", F, "traverse consumes hash bits", None, sig="has-cut")
    for F in ctx.need("cds::intrusive::feldman_hashset::multilevel_array::expand_slot"):
        if len(F.params) == 2:
            for p in PathSim(F, bound=16).run():
                inner = [e for e in p.events if e.kind == "call" and e.q and e.q.endswith("::expand_slot")]
                bo = [e for e in p.events if e.kind == "call" and e.q and e.q.endswith("::bit_offset")]
                ok = len(inner) == 1 and bo and inner[0].args[-1] == bo[0].val and sv_field_path(bo[0].obj)[-1:] == ["splitter"] and \
                    sv_field_path(inner[0].args[0])[-1:] == ["pArr"] and sv_field_path(inner[0].args[1])[-1:] == ["nSlot"]
                ctx.check(bool(ok), "R28.1", F, "the displaced item is re-addressed from the traversal's current bit offset, in the traversal's slot", 
                          inner[0].node if inner else None, detail=R, sig="expand-offset")
            continue
        for p in PathSim(F, bound=256).run():
            cuts = _cut_calls(p)
            for c in cuts:
                ctx.check(sv_field_path(c.args[0])[-1:] == ["array_node_size_log"], "R28.1", F,
                          "expand_slot addresses the new array node with array_node_size_log bits (same width as traverse)", c.node, detail=R, sig="expand-cut")
                ctor = [e for e in p.events if e.kind == "ctor" and e.q and re.search(r"(split_bitstring|byte_splitter|number_splitter)::\w+$", e.q) and len(e.args) == 2]
                ctx.check(bool(ctor) and ctor[-1].args[1] == ("p", F.params[3]["d"], F.params[3]["n"]), "R28.1", F,
                          "the displaced item's splitter starts at the given bit offset", c.node, sig="expand-splitter-offset")
r28_1.rule_id = "R28.1"


def r28_2(ctx):
    """node sizes agree with the widths"""
    for name, fld in (("head_size", "head_node_size"), ("array_node_size", "array_node_size")):
        for F in ctx.need("cds::intrusive::feldman_hashset::multilevel_array::" + name):
            for p in PathSim(F, bound=8).run():
                ctx.check(sv_field_path(p.ret)[-1:] == [fld], "R28.2", F, "%s() is the metric %s" % (name, fld), None, sig="size-getter")
    for F in ctx.need("cds::intrusive::feldman_hashset::multilevel_array::alloc_head_node"):
        c = Q.calls_in(F, r"::alloc_array_node$")
        ok = len(c) == 1 and F.strip(c[0]["args"][0]).get("q", "").endswith("::head_size")
        ctx.check(ok, "R28.2", F, "the head node is allocated with head_size() slots", c[0] if c else None, detail=R, sig="alloc-head")
    for F in ctx.need("cds::intrusive::feldman_hashset::multilevel_array::alloc_array_node"):
        if len(F.params) == 2:
            c = Q.calls_in(F, r"::alloc_array_node$")
            ok = len(c) == 1 and F.strip(c[0]["args"][0]).get("q", "").endswith("::array_node_size")
            ctx.check(ok, "R28.2", F, "array nodes are allocated with array_node_size() slots", c[0] if c else None, detail=R, sig="alloc-array")
        else:
            news = [e for _, _, e in F.all_elements() if e.get("k") == "new" and e.get("array")]
            ok = len(news) == 1 and F.strip(news[0].get("asize")).get("d") == F.params[0]["d"]
            ctx.check(ok, "R28.2", F, "a node constructs exactly nSize slots", news[0] if news else None, sig="alloc-construct")
            blk = Q.calls_in(F, r"::NewBlock$")
            ok2 = False
            if blk:
                from sa.affine import Affine, NotAffine
                try:
                    a = Affine(ctx.db).norm(F, blk[0]["args"][0])
                    # sizeof(array_node) + sizeof(slot) * (nSize - 1): coefficient of nSize == slot size, constant >= 0
                    coef = a.get("param." + F.params[0]["n"])
                    ok2 = coef is not None and coef >= 8 and a.get(1, 0) >= 0
                except NotAffine:
                    ok2 = False
            ctx.check(ok2, "R28.2", F, "the node's memory block holds nSize slots", blk[0] if blk else None, sig="alloc-bytes")
    for F in ctx.need("cds::intrusive::feldman_hashset::details::metrics::make"):
        n = 0
        for p in PathSim(F, bound=256).run():
            if p.outcome != "return":
                continue
            st = {}
            for e in p.events:
                if e.kind == "store" and e.obj and e.obj[0] == "fld":
                    st[e.obj[2]] = e.val
            n += 1
            for log, size in (("head_node_size_log", "head_node_size"), ("array_node_size_log", "array_node_size")):
                ok = log in st and size in st and (st[size] == ("op", "<<", C(1), st[log]) or
                                                   (st[log][0] == "c" and st[size] == C(1 << st[log][1])))
                ctx.check(ok, "R28.2", F, "%s = 1 << %s" % (size, log), None, detail="%r vs %r. %s" % (st.get(size), st.get(log), R), sig="size-is-pow-of-log")
        ctx.check(n >= 1, "R28.2", F, "metrics::make paths", None, sig="make-paths")
    bits.rule_no_widening_shift(ctx, "R28.2", r"/cds/intrusive/details/feldman_hashset_base\.h$", min_functions=1)
r28_2.rule_id = "R28.2"


def r28_3(ctx):
    """expand_slot protocol (also serves C14): a started conversion is always finished; the displaced item is stored before publication"""
    for F in ctx.need("cds::intrusive::feldman_hashset::multilevel_array::expand_slot"):
        if len(F.params) != 4:
            continue
        for p in PathSim(F, bound=256).run():
            if p.outcome != "return":
                continue
            ev = p.events
            cas = [i for i, e in enumerate(ev) if e.kind == "call" and (atomic_op(e) or "").startswith("compare_exchange")]
            if not cas:
                ctx.bad("R28.3", F, "expand_slot path without the converting CAS", None, sig="no-cas")
                continue
            won = None
            for atom, tv, bev in cond_atoms(p):
                if atom == ev[cas[0]].val:
                    won = tv
            alloc = [i for i, e in enumerate(ev) if e.kind == "call" and e.q and e.q.endswith("::alloc_array_node")]
            free = [i for i, e in enumerate(ev) if e.kind == "call" and e.q and e.q.endswith("::free_array_node")]
            if won is False:
                ok = len(cas) == 1 and len(free) == 1 and alloc and strip_sv(ev[free[0]].args[0]) == ev[alloc[0]].val and p.ret == C(0)
                ctx.check(bool(ok), "R28.3", F, "a lost conversion race frees the unused array node and reports failure", ev[cas[0]].node, detail=R, sig="expand-lost")
            elif won is True:
                st = [i for i, e in enumerate(ev) if e.kind == "call" and atomic_op(e) == "store" and alloc and strip_sv(e.obj) == ev[alloc[0]].val]
                ok = len(cas) == 2 and st and cas[0] < st[0] < cas[1] and not free and p.ret == C(1)
                ctx.check(bool(ok), "R28.3", F, "after winning the conversion the displaced item is stored in the new node, then the node is published", 
                          ev[cas[0]].node, detail="cas=%s store=%s free=%s. %s" % (cas, st, free, R), sig="expand-won")
                if ok:
                    cur = ("p", F.params[2]["d"], F.params[2]["n"])
                    ctx.check(ev[st[0]].args[0] == cur, "R28.3", F, "the item stored in the new node is the displaced one", ev[st[0]].node, sig="expand-item")
                    idx = [e for e in ev if e.kind == "call" and e.q and e.q.endswith("::cut")]
                    ctx.check(bool(idx) and sv_mentions(ev[st[0]].obj, idx[-1].val), "R28.3", F, "it is stored at the slot its own hash selects", ev[st[0]].node, sig="expand-index")
                    pub = ev[cas[1]]
                    derived = [ev[alloc[0]].val]
                    for x in ev:
                        if x.kind in ("call", "ctor") and x.val is not None and any(any(sv_mentions(a, d) for d in derived) for a in x.args):
                            derived.append(x.val)
                    ctx.check(any(sv_mentions(pub.args[1], d) for d in derived) and noepoch(pub.obj) == noepoch(ev[cas[0]].obj), "R28.3", F,
                              "the parent slot that was marked converting receives the new array node", pub.node, sig="expand-publish")
            else:
                ctx.bad("R28.3", F, "the result of the converting CAS is not examined", ev[cas[0]].node, detail=R, sig="expand-unchecked")
r28_3.rule_id = "R28.3"


def _bits_meaning(sv, tv, ev, db, depth=0):
    """what a decision says about the hash bits left in the splitter: 'remain' (at least one more index can be cut), 'exhausted', or None"""
    callmap = {e.val: e for e in ev if e.kind == "call"}
    if isinstance(sv, tuple) and sv[:1] == ("call",):
        e = callmap.get(sv)
        q = str(sv[1])
        if q.endswith("::eos"):
            return "exhausted" if tv else "remain"
        if q.endswith("::rest_count"):
            return "remain" if tv else "exhausted"       # used as a truth value: != 0
        # a helper of the library: its return expression decides
        if e is not None and e.node is not None and depth < 2:
            G = db.get(e.node.get("m"))
            if G is not None:
                res = set()
                for gp in PathSim(G, bound=256).run():
                    if gp.outcome != "return":
                        continue
                    from sa.pathsim import norm_cond
                    atom, pol = norm_cond(gp.ret)
                    res.add(_bits_meaning(atom, tv == pol, gp.events, db, depth + 1))
                if len(res) == 1:
                    return res.pop()
        return None
    if isinstance(sv, tuple) and sv[:1] == ("op",) and len(sv) == 4 and sv[1] in ("==", "!=", ">", "<", ">=", "<="):
        a, b = sv[2], sv[3]
        ra = isinstance(a, tuple) and a[:1] == ("call",) and str(a[1]).endswith("::rest_count")
        rb = isinstance(b, tuple) and b[:1] == ("call",) and str(b[1]).endswith("::rest_count")
        if ra and b == C(0):
            if sv[1] in ("!=", ">"):
                return "remain" if tv else "exhausted"
            if sv[1] in ("==", "<="):
                return "exhausted" if tv else "remain"
        if rb and a == C(0):
            if sv[1] in ("!=", "<"):
                return "remain" if tv else "exhausted"
            if sv[1] in ("==", ">="):
                return "exhausted" if tv else "remain"
        if ra or rb:
            # compared with something else (e.g. 'rest_count() > array_bits'): true proves bits remain, false proves nothing
            k = b if ra else a
            gt = (sv[1] in (">", ">=")) if ra else (sv[1] in ("<", "<="))
            if gt and tv:
                return "remain"
            return None
    return None


def r28_4(ctx):
    """insert / update paths: a colliding slot is expanded only while hash bits remain (HP/DHP; RCU where it consults the splitter at all), and the operation gives up ('exhausted') only when the path
    proved that no bits remain (eos(), rest_count() == 0, or a helper whose return expression means exactly that)"""
    n = 0
    for F in ctx.db.funcs.values():
        if not re.match(r"cds::intrusive::FeldmanHashSet::(insert|do_update)$", F.q):
            continue
        if not Q.calls_in(F, r"::expand_slot$"):
            continue
        # the RCU specialisation does not consult eos() before expanding: it relies on distinct hashes diverging before the bits run out, which
        # is what the property itself states - an unguarded expansion is not reported there.  Every decision that *does* consult the splitter
        # is judged the same way for all three schemes.
        strict = F.gc_kind() in ("HP", "DHP")
        ps = PathSim(F, bound=4096).run()
        ctx.paths += len(ps)
        for p in ps:
            ev = p.events
            ex = [e for e in ev if e.kind == "call" and e.q and e.q.endswith("::expand_slot")]
            callmap = {e.val: e for e in ev if e.kind == "call"}

            def about_splitter(atom):
                """the decision consults the hash splitter: eos() / rest_count() directly, or a library helper whose body does"""
                found = []

                def walk(x, d=0):
                    if isinstance(x, tuple) and d < 8:
                        if x[:1] == ("call",) and x in callmap:
                            e = callmap[x]
                            q = e.q or ""
                            if re.search(r"::(eos|rest_count)$", q):
                                found.append(x)
                            elif e.node is not None and e.node.get("m"):
                                G = ctx.db.get(e.node.get("m"))
                                if G is not None and Q.calls_in(G, r"::(eos|rest_count)$"):
                                    found.append(x)
                        for y in x:
                            if isinstance(y, tuple):
                                walk(y, d + 1)
                walk(atom)
                return bool(found)
            meaning = None
            guard_node = None
            for atom, tv, bev in cond_atoms(p):
                if about_splitter(atom):
                    meaning = _bits_meaning(atom, tv, ev, ctx.db)
                    guard_node = bev.node
                    guarded = True
            has_guard = guard_node is not None
            for e in ex:
                if not strict and not has_guard:
                    continue
                n += 1
                ctx.check(meaning == "remain", "R28.4", F, "a colliding slot is expanded only on a path that established that hash bits remain", e.node,
                          detail="the guarding decision means %r. %s" % (meaning, R), sig="expand-not-eos")
            if has_guard and not ex and p.outcome == "return" and meaning != "remain":
                r = p.ret
                fail = r == C(0) or (isinstance(r, tuple) and r[0] == "pair" and r[1] == C(0) and r[2] == C(0))
                if fail:
                    n += 1
                    ctx.check(meaning == "exhausted", "R28.4", F, "the operation gives up on a colliding slot only when the path proved that no hash bits remain", guard_node,
                              detail="the guarding decision does not prove exhaustion (it means %r): two hashes that differ only in the bits still left would be treated "
                              "as equal - the second one is refused although absent. %s" % (meaning, R), sig="fail-only-exhausted")
    if n < 4:
        ctx.broken("FeldmanHashSet insert/do_update expand/give-up decisions not found (%d sites)" % n)
r28_4.rule_id = "R28.4"


RULES = [r28_1, r28_2, r28_3, r28_4]
FLOORS = {"R28.1": 8, "R28.2": 8, "R28.3": 4, "R28.4": 4}


def r28_5(ctx):
    """metrics::make: the head width that is published satisfies, as the last thing established about it on the path, the divisibility
    '(hash_bits - head) % array == 0' for the array width that is published - either because that test came out false for exactly these
    values, or because it is the rounded value head + (hash_bits - head) % array (for which the identity holds)."""
    for F in ctx.need("cds::intrusive::feldman_hashset::details::metrics::make"):
        n = 0
        for p in PathSim(F, bound=512).run():
            if p.outcome != "return":
                continue
            st = {}
            for e in p.events:
                if e.kind == "store" and e.obj and e.obj[0] == "fld":
                    st[e.obj[2]] = e.val
            V, A = st.get("head_node_size_log"), st.get("array_node_size_log")
            if V is None or A is None:
                ctx.bad("R28.5", F, "metrics::make does not publish both widths", None, sig="no-widths")
                continue
            n += 1
            ok = False
            why = ""
            # (i) the divisibility test on exactly (V, A) came out 'divisible'
            for atom, tv, bev in cond_atoms(p):
                # atom is ((H - v) % a) with truth False meaning == 0   (x != 0 normalises to atom x)
                if isinstance(atom, tuple) and len(atom) == 4 and atom[0] == "op" and atom[1] == "%" and atom[3] == A and tv is False:
                    d = atom[2]
                    if isinstance(d, tuple) and d[0] == "op" and d[1] == "-" and d[3] == V:
                        ok, why = True, "tested"
            # (ii) V is the rounded value  v + (H - v) % A
            if isinstance(V, tuple) and V[0] == "op" and V[1] == "+":
                v0, r = V[2], V[3]
                if isinstance(r, tuple) and r[0] == "op" and r[1] == "%" and r[3] == A and isinstance(r[2], tuple) and r[2][0] == "op" and r[2][1] == "-" and r[2][3] == v0:
                    ok, why = True, "rounded"
            # constants on both sides: fold
            if not ok and isinstance(V, tuple) and V[0] == "c" and isinstance(A, tuple) and A[0] == "c":
                why = "constant widths %s/%s without an established divisibility" % (V[1], A[1])
            ctx.check(ok, "R28.5", F, "the published head width leaves a multiple of the published array width of hash bits", None,
                      detail="head=%r array=%r (%s): a later adjustment of either width invalidates the normalisation, the last level then cuts more "
                      "bits than remain. %s" % (V, A, why, R), sig="normalised")
        ctx.check(n >= 4, "R28.5", F, "metrics::make paths analysed", None, sig="make-paths")
r28_5.rule_id = "R28.5"

RULES.append(r28_5)
FLOORS["R28.5"] = 4
