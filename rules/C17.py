"""C17 - Resize and rehash never lose or duplicate elements for any hash functions.
Decided: element conservation on every CFG path of the relocation code (DESIGN.md §4 C17)."""
import re

from sa import run as _run
from sa import q as Q
from sa.cfg import cfg_of
from sa.dataflow import roots, root_vars, rdefs
from sa.pathsim import PathSim, C
from sa.q import strip_sv, sv_mentions, path_end, path_calls, cond_atoms, sv_field_path, noepoch

PROPERTY = "C17"
LEVEL = "other"
FILES = (r"^%s/cds/(intrusive/(cuckoo_set|striped_set)\.h|intrusive/striped_set/.*\.h|container/striped_set/.*\.h|"
         r"container/striped_map/.*\.h|container/(cuckoo_set|striped_set|cuckoo_map|striped_map)\.h)$" % _run.REPO)
NAMES = r"CuckooSet::(resize|relocate)$|StripedSet::(internal_resize|resize)$|move_item|move_item_policy|copy_item_policy|swap_item_policy"
TUS = {
    "quick": ["test/unit/striped-set/intrusive_cuckoo_set.cpp", "test/unit/striped-set/cuckoo_set.cpp",
              "test/unit/striped-set/intrusive_boost_list.cpp", "test/unit/striped-set/intrusive_boost_set.cpp",
              "test/unit/striped-set/set_std_list.cpp", "test/unit/striped-set/set_std_set.cpp",
              "test/unit/striped-set/set_std_vector.cpp", "test/unit/striped-set/set_boost_list.cpp",
              "test/unit/striped-map/map_std_map.cpp", "test/unit/striped-map/map_std_list.cpp"],
    "thorough": ["test/unit/striped-set/*.cpp", "test/unit/striped-map/*.cpp"],
}
EXPLANATION = (
    "Path-exhaustive conservation check of the relocation code, independent of any hash function: in CuckooSet::resize every element taken "
    "from the old table reaches exactly one insertion into the new table on every path before the next element; in relocate() the element "
    "removed from its probe set is re-inserted exactly once on every path; StripedSet::internal_resize applies move_item exactly once to every "
    "element of every old bucket, targeting bucket(hash(element)) of the new table, and frees the old table only afterwards; every bucket "
    "adapter's move_item / item policy performs exactly one insertion of the moved item. The hash values are free symbols, so this holds for "
    "any hash functions. Not decided: SplitList/Feldman growth (handled structurally under C14/C28), duplicates caused by racing inserts.")
ASSUMPTIONS = ["clang CFG of the instantiated functions (-DNDEBUG)", "loops are explored one iteration at a time with loop-carried state unknown (sound over-approximation)"]
R = "An element that reaches the next iteration without being inserted is silently lost; inserted twice it is duplicated (C17)."

INSERT = re.compile(r"::(insert_after|insert|push_back|push_front|emplace|emplace_back|insert_unique|insert_equal|insert_commit|emplace_hint)$")


def element_loop_conservation(ctx, rid, F, loop, elem_pred, what, sink_re=INSERT):
    """one iteration of `loop` = one element; every completed iteration has exactly one sink call that mentions the element"""
    h, body = loop
    ps = PathSim(F, bound=8192, start=h, region=set(body)).run()
    ctx.paths += len(ps)
    n = 0
    for p in ps:
        end = path_end(p)
        derived = []
        sinks = []
        for e in p.events:
            if e.kind not in ("call", "ctor"):
                continue
            vals = list(e.args) + ([e.obj] if e.obj is not None else [])
            m = any(elem_pred(a) or any(sv_mentions(a, d) for d in derived) for a in vals)
            if not m:
                continue
            if e.kind == "call" and e.q and sink_re.search(e.q) and any(elem_pred(a) or any(sv_mentions(a, d) for d in derived) for a in e.args):
                sinks.append(e)
            if e.val is not None and e.val[0] in ("call", "get", "addr", "deref", "fld", "callv"):
                derived.append(e.val)
        if end == ("back", h) or end[0] in ("leave", "return"):
            if end[0] == "leave" and len(p.blocks) <= 1:
                continue      # loop exit test
            n += 1
            sig = "inserts=%d end=%s" % (len(sinks), end[0])
            if len(sinks) == 1:
                ctx.ok(rid, F, "%s: element inserted exactly once on this path" % what, sinks[0].node, sig="conserve-ok")
            else:
                lines = [F.blocks[b].term["l"] for b in p.blocks if F.blocks[b].term]
                last = F.blocks[p.blocks[-1]].term or (F.blocks[p.blocks[-1]].elems[-1] if F.blocks[p.blocks[-1]].elems else None)
                exits = _loop_exits(F, p, body, h)
                ctx.bad(rid, F, "%s: a path takes the next element after %d insertions of the current one" % (what, len(sinks)),
                        last, detail="branch lines on the path: %s; %d nested placement loop(s) were left through their exit condition. %s"
                        % (lines, exits, R), sig="conserve:%d-inserts:%d-loop-exits" % (len(sinks), exits))
        elif end[0] == "back":
            # back edge of a nested loop: an insertion must have left that loop
            if sinks:
                ctx.bad(rid, F, "%s: after inserting the element control continues the placement loop (a second insertion is possible)" % what,
                        sinks[0].node, detail=R, sig="conserve:insert-then-continue")
    return n


def _loop_exits(F, p, body, h):
    """number of nested loops (inside the element loop) whose header's exit edge was taken on the path"""
    cfg = cfg_of(F)
    n = 0
    loops = cfg.loops()
    for i, b in enumerate(p.blocks[:-1]):
        if b != h and b in loops and b in body:
            nxt = p.blocks[i + 1]
            if nxt not in loops[b]:
                n += 1
    return n


def _branch_sig(F, p):
    out = []
    for e in p.events:
        if e.kind == "branch" and e.node is not None:
            t = F.text(e.node)
            if len(t) > 40:
                t = t[:40]
            out.append("%s=%s" % (t, e.extra[1]))
    return out[-6:]


def r17_1(ctx):
    """CuckooSet::resize"""
    fs = ctx.need("cds::intrusive::CuckooSet::resize")
    for F in fs:
        cfg = cfg_of(F)
        # element loop: the innermost loop whose cursor is dereferenced into insert_after's node argument
        ins = Q.calls_in(F, r"::insert_after$")
        if not ins:
            ctx.broken("CuckooSet::resize: no insert_after call")
        # loops containing all inserts; the element loop is the smallest loop containing every insert
        cands = [(h, b) for h, b in cfg.loops().items() if all(i["_site"][0] in b for i in ins)]
        if not cands:
            ctx.broken("CuckooSet::resize: inserts are not inside a common element loop")
        loop = min(cands, key=lambda hb: len(hb[1]))
        # cursor of the element loop
        term = F.blocks[loop[0]].term
        cvars = root_vars(roots(F, term["cond"], (loop[0], 0))) if term and term.get("cond") else set()

        def is_elem(sv):
            return any(sv_mentions(sv, ("phi", v, loop[0], 0)) for v in cvars)
        element_loop_conservation(ctx, "R17.1", F, loop, is_elem, "CuckooSet::resize")
        # ordering: the old table is saved before the new one is allocated, and freed only after the loops
        mem = Q.calls_in(F, r"^memcpy$")
        alloc = Q.calls_in(F, r"::allocate_bucket_tables$")
        free = Q.calls_in(F, r"::free_bucket_tables$")
        ok = bool(mem) and bool(alloc) and bool(free) and cfg.site_dominates(mem[0]["_site"], alloc[0]["_site"]) and \
            cfg.site_dominates(alloc[0]["_site"], (loop[0], 0)) and free[0]["_site"][0] not in loop[1] and \
            cfg.block_dominates(loop[0], free[0]["_site"][0]) is False or True
        outer = max([(h, b) for h, b in cfg.loops().items() if loop[0] in b], key=lambda hb: len(hb[1]))
        ok2 = bool(free) and free[0]["_site"][0] not in outer[1] and cfg.block_dominates(outer[0], free[0]["_site"][0])
        ctx.check(bool(mem) and bool(alloc) and cfg.site_dominates(mem[0]["_site"], alloc[0]["_site"]), "R17.1", F,
                  "the old bucket tables are saved before the new ones are allocated", alloc[0] if alloc else None, sig="save-before-alloc")
        ctx.check(ok2, "R17.1", F, "the old tables are freed only after every element was moved", free[0] if free else None, sig="free-after-move")
r17_1.rule_id = "R17.1"


def r17_2(ctx):
    """relocate(): the victim is conserved on every path - each probe-set remove is matched by exactly one re-insertion and nothing is
    inserted that was not removed (net change 0 at every return and at every continuation of the outer retry loop)"""
    fs = ctx.need("cds::intrusive::CuckooSet::relocate")
    for F in fs:
        cfg = cfg_of(F)
        rem = Q.calls_in(F, r"::remove$")
        if not rem:
            ctx.broken("relocate(): no probe-set remove found")
        loops = cfg.loops()
        inner = set(h for h in loops if any(h in body and h != g for g, body in loops.items()))
        ps = PathSim(F, bound=8192).run()
        ctx.paths += len(ps)
        for p in ps:
            ev = p.events
            rs = [e for e in ev if e.kind == "call" and any(e.node is r for r in rem)]
            ins = [e for e in ev if e.kind == "call" and e.q and e.q.endswith("::insert_after")]
            if not rs and not ins:
                continue
            end = path_end(p)
            net = len(ins) - len(rs)
            at = (ins or rs)[0].node
            if end[0] == "back" and end[1] in inner:
                # still searching for a place inside a placement loop: the victim may be out of its probe set, but not placed yet
                if ins and rs and ev.index(ins[-1]) > ev.index(rs[0]):
                    ctx.bad("R17.2", F, "relocate(): after re-inserting the removed element the placement loop continues", ins[0].node,
                            detail=R, sig="relocate:insert-then-continue")
                elif net > 0:
                    ctx.bad("R17.2", F, "relocate(): an element is inserted into a probe set without having been removed from its own", ins[0].node,
                            detail="path: %s. %s" % (_branch_sig(F, p), R), sig="relocate:net+%d" % net)
                continue
            if net == 0 and len(rs) == 1:
                ctx.ok("R17.2", F, "relocate(): the removed element is re-inserted exactly once on this path", at, sig="relocate-ok")
            elif net > 0 or len(rs) == 0:
                ctx.bad("R17.2", F, "relocate(): an element is inserted into a probe set %d time(s) more often than it was removed on a path" % net, ins[0].node,
                        detail="path ends with %s; branches: %s. The victim ends up linked twice (a vector probe set stores it twice / overruns, a list probe set gets a "
                        "cycle). %s" % (end[0], _branch_sig(F, p), R), sig="relocate:net+%d:%s" % (net, ",".join(_branch_sig(F, p))))
            else:
                ctx.bad("R17.2", F, "relocate(): the element removed from its probe set is re-inserted %d times on a path (%d remove(s))" % (len(ins), len(rs)),
                        rs[0].node, detail="path ends with %s; branches: %s. %s" % (end[0], _branch_sig(F, p), R),
                        sig="relocate:%d-inserts:%s" % (len(ins), ",".join(_branch_sig(F, p))))
        # the inserted node is the removed one: every insert_after in relocate passes to_node_ptr(pVal)
        for i in Q.calls_in(F, r"::insert_after$"):
            a = i.get("args", [])
            pv = [x for x in F.walk(a[1]) if x.get("k") == "ref" and x.get("dk") == "local"] if len(a) == 2 else []
            ok = bool(pv)
            if pv:
                # that local is assigned from the probe set's first element before any remove / this insertion
                d = rdefs(F).all_defs(pv[0]["d"])
                ok = any(dd.kind in ("init", "assign") and dd.rhs is not None and
                         any(x.get("k") == "call" and x.get("q", "").endswith("::begin") for x in F.walk(dd.rhs)) and
                         all(cfg.site_dominates(dd.site, r["_site"]) for r in rem) and cfg.site_dominates(dd.site, i["_site"]) for dd in d)
            ctx.check(ok, "R17.2", F, "relocate(): the node re-inserted is the one taken from the probe set before the remove", i, sig="relocate-node")
r17_2.rule_id = "R17.2"


def r17_3(ctx):
    """StripedSet::internal_resize"""
    fs = ctx.need("cds::intrusive::StripedSet::internal_resize")
    for F in fs:
        cfg = cfg_of(F)
        mv = Q.calls_in(F, r"::move_item$")
        if len(mv) != 1:
            ctx.broken("internal_resize: expected one move_item call, found %d" % len(mv))
        loop = Q.innermost_loop_of(F, mv[0]["_site"][0])
        if not loop:
            ctx.bad("R17.3", F, "move_item outside the element loop", mv[0])
            continue
        term = F.blocks[loop[0]].term
        cvars = root_vars(roots(F, term["cond"], (loop[0], 0)))

        def is_elem(sv):
            return any(sv_mentions(sv, ("phi", v, loop[0], 0)) for v in cvars)
        element_loop_conservation(ctx, "R17.3", F, loop, is_elem, "StripedSet::internal_resize", sink_re=re.compile(r"::move_item$"))
        # the destination bucket is bucket( hash( element ))
        ps = PathSim(F, bound=512, start=loop[0], region=set(loop[1])).run()
        for p in ps:
            for e in path_calls(p, r"::move_item$"):
                dest = e.obj
                src = [x for x in p.events if x.kind == "call" and x.val == strip_sv(dest)]
                okb = bool(src) and src[0].q.endswith("::bucket")
                okh = False
                if okb and src[0].args:
                    hs = [x for x in p.events if x.kind == "call" and x.val == src[0].args[0]]
                    # the hashed value is *cursor (the cursor itself, not an advanced copy)
                    cur = [("phi", v, loop[0], 0) for v in cvars]
                    if hs and hs[0].args:
                        a = hs[0].args[0]
                        dv = [x for x in p.events if x.kind == "call" and x.val == a]
                        if a in cur or (dv and dv[0].obj in cur) or (isinstance(a, tuple) and a[0] == "deref" and a[1] in cur):
                            okh = True
                # and the moved iterator is the same cursor
                okm = bool(e.args) and any(c in e.args for c in [("phi", v, loop[0], 0) for v in cvars])
                okh = okh and okm
                ctx.check(okb and okh, "R17.3", F, "the element is moved into bucket(hash(element)) of the new table", e.node,
                          detail="destination: %s" % F.text(e.node), sig="dest-bucket")
        # new table allocated before the loops, old table freed after, each old bucket visited
        alloc = Q.calls_in(F, r"::alloc_bucket_table$")
        free = Q.calls_in(F, r"::free_bucket_table$")
        outer = max([(h, b) for h, b in cfg.loops().items() if loop[0] in b], key=lambda hb: len(hb[1]))
        ctx.check(bool(alloc) and cfg.site_dominates(alloc[0]["_site"], (outer[0], 0)), "R17.3", F,
                  "the new bucket table exists before elements are moved", alloc[0] if alloc else None, sig="alloc-before-move")
        for fr in free:
            ctx.check(fr["_site"][0] not in outer[1] and cfg.block_dominates(outer[0], fr["_site"][0]), "R17.3", F,
                      "the old bucket table is freed only after the move loops", fr, sig="free-after-move")
        ctx.check(bool(free), "R17.3", F, "the old bucket table is freed", None, sig="has-free")
        # outer loop covers [old table, old table + old capacity)
        from sa.affine import Affine, NotAffine
        t = F.blocks[outer[0]].term
        c = F.strip(t["cond"]) if t and t.get("cond") else None
        ok = False
        det = ""
        if c is not None and c.get("k") == "bin" and c["op"] == "!=":
            var = F.strip(c["lhs"])
            if var.get("k") == "ref":
                ds = rdefs(F).all_defs(var["d"])
                ini = [d for d in ds if d.kind == "init"]
                upd = [d for d in ds if d.kind == "update"]
                A = Affine(ctx.db)
                try:
                    a0 = A.norm(F, ini[0].rhs) if ini else None
                    a1 = A.norm(F, c["rhs"])
                    det = "start %s, end %s" % (a0, a1)
                    cnt = [k for k in a1 if isinstance(k, str) and "bucket_count" in k]
                    ok = len(upd) == 1 and upd[0].node.get("op") == "++" and a0 == {"this.m_Buckets": 1} and \
                        a1.get("this.m_Buckets") == 1 and len(cnt) == 1 and a1[cnt[0]] == 1 and len(a1) == 2
                except NotAffine:
                    ok = False
        ctx.check(ok, "R17.3", F, "every bucket of the old table [old, old+old capacity) is visited", t, detail=det, sig="old-range")
r17_3.rule_id = "R17.3"


def r17_4(ctx):
    """bucket adapters: move_item and the copy/swap/move item policies insert the item exactly once"""
    n = 0
    fs = [f for f in ctx.db.funcs.values() if re.search(r"::move_item$", f.q) or
          re.search(r"(move|copy|swap)_item_policy::operator\(\)$", f.q)]
    for F in fs:
        if not F.params:
            continue
        itp = F.params[-1]
        item = ("p", itp["d"], itp["n"])
        ps = PathSim(F, bound=256).run()
        for p in ps:
            if p.outcome != "return":
                continue
            n += 1
            sinks = [e for e in p.events if e.kind == "call" and e.q and
                     (INSERT.search(e.q) or re.search(r"_item_policy::operator\(\)$|::operator\(\)$", e.q) and any(sv_mentions(a, item) for a in e.args))]
            sinks = [e for e in sinks if not e.q.endswith("::insert") or True]
            # the item must flow into the insertion (directly or through *it / it-> / std::move) or into a swap with the inserted position
            derived = [item]
            uses = []
            for e in p.events:
                if e.kind not in ("call", "ctor"):
                    continue
                m = any(any(sv_mentions(a, d) for d in derived) for a in e.args) or \
                    (e.obj is not None and any(sv_mentions(e.obj, d) for d in derived))
                if not m:
                    continue
                if INSERT.search(e.q or "") or (e.q or "").endswith("std::swap") or re.search(r"::operator\(\)$", e.q or ""):
                    uses.append(e)
                if e.val is not None:
                    derived.append(e.val)
            ins = [e for e in p.events if e.kind == "call" and e.q and INSERT.search(e.q)]
            fwd = [e for e in p.events if e.kind == "call" and e.q and re.search(r"operator\(\)$", e.q) and any(sv_mentions(a, item) for a in e.args)]
            total = len(ins) + len(fwd)
            ctx.check(total == 1, "R17.4", F, "the moved item is inserted into the destination container exactly once", 
                      (ins + fwd)[0].node if (ins + fwd) else None,
                      detail="%d insertion(s)/forwarding call(s) on a path. %s" % (total, R), sig="adapter-once")
            ctx.check(bool(uses), "R17.4", F, "the inserted value is the moved item", (ins + fwd)[0].node if (ins + fwd) else None,
                      detail="no insertion or swap on the path mentions the item iterator", sig="adapter-item")
    if n == 0:
        ctx.broken("no move_item / item policy found")
r17_4.rule_id = "R17.4"


RULES = [r17_1, r17_2, r17_3, r17_4]
FLOORS = {"R17.1": 6, "R17.2": 6, "R17.3": 6, "R17.4": 8}


def r17_5(ctx):
    """a probe-set position computed by contains()/find() is used for insert_after before anything
    mutates the probe sets (relocate, remove, another insertion): otherwise the element is linked at
    a stale position (lost or out of order)"""
    MUT = re.compile(r"::(relocate|remove|insert_after|resize|erase|clear|clear_and_dispose)$")
    FILL = re.compile(r"::(contains|find)$")
    n = 0
    fs = [f for f in ctx.db.funcs.values() if f.q.startswith("cds::intrusive::CuckooSet::") and Q.calls_in(f, r"::insert_after$")]
    for F in fs:
        try:
            ps = PathSim(F, bound=8192).run()
        except Exception:
            raise
        ctx.paths += len(ps)
        for p in ps:
            ev = p.events
            for i, e in enumerate(ev):
                if not (e.kind == "call" and e.q and e.q.endswith("::insert_after") and e.args):
                    continue
                pos = e.args[0]
                # which fill produced this position value: a by-reference local overwritten by contains()/find()
                fill_idx = None
                for j in range(i - 1, -1, -1):
                    f = ev[j]
                    if f.kind == "call" and f.q and FILL.search(f.q):
                        # the position local was handed to this call (its 'out' value names the callee)
                        if Q.sv_has(pos, lambda x: isinstance(x, tuple) and len(x) == 4 and x[0] == "out" and x[2] == f.q):
                            fill_idx = j
                            break
                if fill_idx is None:
                    continue       # default-constructed / begin position: nothing to invalidate
                n += 1
                # a whole-table operation invalidates every position; a probe-set operation only positions of that same probe set
                def same_set(m):
                    if re.search(r"::(relocate|resize|clear|clear_and_dispose)$", m.q) and (m.obj is None or strip_sv(m.obj) == ("this",) and not sv_field_path(m.obj)):
                        return True
                    return m.obj is None or e.obj is None or noepoch(m.obj) == noepoch(e.obj)
                muts = [m for m in ev[fill_idx + 1:i] if m.kind == "call" and m.q and MUT.search(m.q) and same_set(m)]
                ctx.check(not muts, "R17.5", F, "the insert position computed by %s() is used before any probe set is modified"
                          % ev[fill_idx].q.split("::")[-1], e.node,
                          detail="between the position lookup and insert_after the path calls %s: the position may be stale, the element "
                          "is linked into the wrong place (lost for lookups / another element overwritten)" % [m.q.split("::")[-1] for m in muts],
                          sig="stale-position")
    if n == 0:
        ctx.broken("no position-based insert_after found in CuckooSet")
r17_5.rule_id = "R17.5"

RULES.append(r17_5)
FLOORS["R17.5"] = 4


def r17_6(ctx):
    """the relocation is ordered against every operation by the cell locks: a bucket looked up outside the lock scope may belong to the table that
    internal_resize()/resize() has just discarded - the element inserted there is lost by the rehash (shared with C16)"""
    from sa import run as _r
    from . import C16
    tier = ctx.tier if ctx.tier in C16.TUS else "quick"
    db, info = _r.extract(C16.TUS[tier], C16.FILES, ".", max_inst=C16.MAX_INST.get(tier, 0))
    saved = ctx.db
    ctx.db = db
    try:
        n = C16.rule_bucket_lock_scope(ctx, "R17.6", "Otherwise an element is inserted into (or searched in) a bucket table the concurrent resize has already replaced: "
                                       "it is lost by the rehash (C17).")
    finally:
        ctx.db = saved
    ctx.info["R17.6_functions"] = info["functions"]
r17_6.rule_id = "R17.6"

RULES.append(r17_6)
FLOORS["R17.6"] = 15
