"""Bit-level rules shared by C25 / C27 / C28 (engines E5, E6, E7)."""
import re

from sa import q as Q
from sa.bitdom import BitInterp, Undecided, inp, const, fmt, T, X, top
from sa.cfg import cfg_of
from sa.pathsim import PathSim

WIDTH = {"unsigned int": 32, "unsigned long": 64, "unsigned char": 8, "unsigned short": 16, "unsigned long long": 64,
         "int": 32, "long": 64, "short": 16, "long long": 64}


def param_width(F, i=0):
    t = F.params[i]["t"].replace("const ", "").strip()
    return WIDTH.get(t)


def check_vector(ctx, rid, F, got, want, what, sig):
    """got/want: bit vectors; want entries None = don't care"""
    bad = []
    und = []
    for i, (g, w) in enumerate(zip(got, want)):
        if w is None:
            continue
        if g == w:
            continue
        if g == T or (isinstance(g, tuple) and g[0] == 'q'):
            und.append(i)
        else:
            bad.append(i)
    if bad:
        ctx.bad(rid, F, what, None, detail="differs from the specification at result bits %s; computed %s" % (bad[:16], fmt(got)), sig=sig)
    elif und:
        ctx.broken("%s: %s undecided at bits %s (construct outside the bit-provenance domain): %s" % (F.q, what, und[:8], fmt(got)))
    else:
        ctx.ok(rid, F, what, None, sig=sig)


def rule_reversal(ctx, rid, names):
    """each listed function equals the reference bit reversal of its width, for every input"""
    n = 0
    for q in names:
        fs = ctx.need(q)
        for F in fs:
            if len(F.params) != 1:
                continue
            w = param_width(F)
            if w is None:
                continue
            n += 1
            try:
                r = BitInterp(ctx.db).run(F, [inp(w)])
            except Undecided as e:
                ctx.broken("%s(%s): undecided: %s" % (q, F.params[0]["t"], e))
            want = [('i', w - 1 - i) for i in range(w)]
            if len(r) != w:
                ctx.bad(rid, F, "result width %d differs from the argument width %d" % (len(r), w), None, sig="width")
                continue
            check_vector(ctx, rid, F, r, want, "%s(%s) is the %d-bit reversal for all inputs" % (q.split("::", 2)[-1], F.params[0]["t"], w),
                         "reversal-%d" % w)
    return n


def rule_split_order_hash(ctx, rid):
    """regular_hash: bit 0 = 1, bit i = in[N-1-i]; dummy_hash: bit 0 = 0, rest the same - for every reversal algorithm"""
    n = 0
    for name, b0 in (("regular_hash", 1), ("dummy_hash", 0)):
        fs = ctx.need("cds::intrusive::split_list::" + name, min_count=3)
        algos = set()
        for F in fs:
            w = param_width(F)
            try:
                r = BitInterp(ctx.db).run(F, [inp(w)])
            except Undecided as e:
                ctx.broken("%s<%s>: undecided: %s" % (name, F.fta, e))
            want = [b0] + [('i', w - 1 - i) for i in range(1, w)]
            check_vector(ctx, rid, F, r, want, "%s%s: bit0=%d and bit i = hash bit %d-i for all hashes" % (name, F.fta, b0, w - 1),
                         "%s-%s" % (name, F.fta))
            algos.add(F.fta)
            n += 1
        if len(algos) < 3:
            ctx.broken("%s instantiated for %s only (need swar, lookup, muldiv)" % (name, sorted(algos)))
    return n


def _stub_hook(value_for):
    def hook(F, n, args):
        q = n.get("q") or ""
        for rx, fn in value_for:
            if re.search(rx, q):
                return fn(n)
        return None
    return hook


def rule_bucket_masks(ctx, rid):
    """bucket_no(h) keeps exactly the low k bits of h when the table has 2^k buckets
    (k = 0..63); parent_bucket(b) clears exactly the most significant set bit of b
    (for every position 0..63 of that bit) - all three split-list implementations"""
    n = 0
    for cls_file in ("split_list.h", "split_list_rcu.h", "split_list_nogc.h"):
        bn = [f for f in ctx.db.find(q="cds::intrusive::SplitListSet::bucket_no") if f.file.endswith("/" + cls_file)]
        pb = [f for f in ctx.db.find(q="cds::intrusive::SplitListSet::parent_bucket") if f.file.endswith("/" + cls_file)]
        if not bn or not pb:
            ctx.broken("bucket_no/parent_bucket of %s not instantiated in the parsed units" % cls_file)
        F = bn[0]
        w = param_width(F)
        bad_k = []
        for k in range(0, w):
            hook = _stub_hook([(r"std::(atomic|__atomic_base)::load$", lambda node, k=k: const(node.get("iw") or 64, k))])
            try:
                r = BitInterp(ctx.db, hook=hook).run(F, [inp(w)])
            except Undecided as e:
                ctx.broken("bucket_no (%s): undecided: %s" % (cls_file, e))
            want = [('i', i) if i < k else 0 for i in range(w)]
            if any(g != x for g, x in zip(r, want)):
                if any(g == T or (isinstance(g, tuple) and g[0] == 'q') for g in r):
                    ctx.broken("bucket_no (%s): undecided for log2 = %d: %s" % (cls_file, k, fmt(r)))
                bad_k.append(k)
        n += 1
        ctx.check(not bad_k, rid, F, "bucket_no(hash) = hash mod 2^k for every table size 2^k, k=0..%d, and every hash (%s)" % (w - 1, cls_file), None,
                  detail="wrong mask for k in %s (e.g. the mask is built in a type narrower than size_t)" % bad_k[:8], sig="bucket_no-mask")
        F = pb[0]
        bad_k = []
        for k in range(0, w):
            for j in range(0, k + 1):
                # b has its most significant set bit at k and its least significant set bit at j
                def stub(node, k=k, j=j):
                    name = node.get("q", "").split("::")[-1]
                    val = {"MSBnz": k, "MSB": k + 1, "LSBnz": j, "LSB": j + 1}[name]
                    return const(node.get("iw") or 32, val)
                hook = _stub_hook([(r"cds::bitop::(MSBnz|MSB|LSBnz|LSB)$", stub)])
                arg = [0] * w
                for i in range(j + 1, k):
                    arg[i] = ('i', i)
                arg[j] = 1
                arg[k] = 1
                try:
                    r = BitInterp(ctx.db, hook=hook).run(F, [arg])
                except Undecided as e:
                    ctx.broken("parent_bucket (%s): undecided: %s" % (cls_file, e))
                want = list(arg)
                want[k] = 0
                if r != want:
                    if any(g == T or (isinstance(g, tuple) and g[0] == 'q') for g in r):
                        ctx.broken("parent_bucket (%s): undecided for msb = %d: %s" % (cls_file, k, fmt(r)))
                    bad_k.append((k, j))
        n += 1
        ctx.check(not bad_k, rid, F, "parent_bucket(b) clears exactly the most significant set bit of b, for every bit position 0..%d (%s)" % (w - 1, cls_file),
                  None, detail="wrong for (msb, lsb) positions %s" % bad_k[:8], sig="parent_bucket-mask")
    return n


def rule_no_widening_shift(ctx, rid, file_re, min_functions=1):
    """E7: no shift evaluated in a narrow type whose value is implicitly widened, in the given files"""
    rx = re.compile(file_re)
    nf = 0
    seen = set()
    for F in ctx.db.funcs.values():
        if not rx.search(F.file):
            continue
        has_shift = False
        for _, _, e in F.all_elements():
            if e.get("k") == "bin" and e.get("op") == "<<":
                has_shift = True
        if not has_shift:
            continue
        nf += 1
        hits = Q.widening_shifts(F)
        for (e, L, W, c, lc, amt) in hits:
            key = (F.q, e.get("l"))
            ctx.bad(rid, F, "shift '%s' is evaluated in a %d-bit type but its value is implicitly converted to %d bits: "
                    "for shift counts >= %d the mask is wrong" % (F.text(e), L, W, L - 1), e, sig="narrow-shift:%s" % F.text(e))
        if not hits:
            key = (F.q, F.line)
            if key not in seen:
                seen.add(key)
                ctx.ok(rid, F, "no narrow shift is implicitly widened", None, sig="no-narrow-shift")
    if nf < min_functions:
        ctx.broken("widening-shift lint: only %d functions with shifts found in %s" % (nf, file_re))
    return nf


def rule_number_splitter_cut(ctx, rid):
    """number_splitter<Int>::cut(count): for every offset and every admissible
    count the result is exactly bits [offset, offset+count) of the number and
    the offset advances by count - decided for all numbers at once"""
    fs = ctx.need("cds::algo::number_splitter::cut")
    n = 0
    for F in fs:
        m = re.search(r"number_splitter<([^>]+)>", F.ct or F.qt)
        ty = m.group(1).strip() if m else None
        w = WIDTH.get(ty)
        if w is None:
            continue
        bad = []
        for shift in range(0, w):
            for count in range(1, w - shift + 1):
                if count >= w:
                    continue          # is_correct(count) requires count < width
                fields = {"number_": inp(w), "shift_": const(32, shift)}
                bi = BitInterp(ctx.db, fields=fields)
                try:
                    r = bi.run(F, [const(32, count)])
                except Undecided as e:
                    ctx.broken("number_splitter<%s>::cut undecided: %s" % (ty, e))
                want = [('i', shift + i) if i < count else 0 for i in range(w)]
                signed = not ty.startswith("unsigned")
                if r != want:
                    if any(x == T for x in r):
                        ctx.broken("number_splitter<%s>::cut undecided for shift=%d count=%d: %s" % (ty, shift, count, fmt(r)))
                    bad.append((shift, count))
                elif bi.fields.get("shift_") != const(32, shift + count):
                    bad.append((shift, count, "offset"))
        n += 1
        ctx.check(not bad, rid, F, "number_splitter<%s>::cut returns bits [offset, offset+count) for every offset/count and every number" % ty,
                  None, detail="wrong for (offset,count) in %s ..." % (bad[:6],), sig="number-cut-%s" % ty)
    return n


# ---------------------------------------------------------------------------
# splitters: safe_cut clamps to exactly the remaining bits (E6) and never calls
# cut() past the end (path rule)
# ---------------------------------------------------------------------------
from sa.affine import Affine, NotAffine, add, fmt as afmt
from sa.pathsim import C, NULL, is_const
from sa.q import cond_atoms, path_calls


def _ctor_invariant(ctx, rid, cls):
    """last_ - first_ as established by every constructor of the class (affine)"""
    diffs = set()
    ctors = [f for f in ctx.db.funcs.values() if f.cls == cls and f.kind == "ctor"]
    by_ct = {}
    for F in ctors:
        by_ct.setdefault(F.ct, []).append(F)
    res = {}
    for ct, fs in by_ct.items():
        vals = set()
        for F in fs:
            A = Affine(ctx.db)
            for _, _, e in sorted(F.all_elements(), key=lambda t: (-t[0], t[1])):
                if e.get("k") == "init" and e.get("field") and e.get("init") is not None:
                    try:
                        v = A.norm(F, e["init"])
                    except NotAffine:
                        v = {"?%s" % e["field"]: 1}
                    A.subst["this." + e["field"]] = v
            if "this.last_" in A.subst and "this.first_" in A.subst:
                d = add(A.subst["this.last_"], A.subst["this.first_"], -1)
                vals.add(tuple(sorted(d.items(), key=str)))
        res[ct] = vals
    return res


def rule_safe_cut(ctx, rid):
    n = 0
    for cls in ("cds::algo::split_bitstring", "cds::algo::byte_splitter", "cds::algo::number_splitter"):
        fs = ctx.need(cls + "::safe_cut")
        inv = _ctor_invariant(ctx, rid, cls) if cls != "cds::algo::number_splitter" else {}
        for F in fs:
            n += 1
            count = F.params[0]
            # the clamp: a comparison  X < count  (or count > X)
            clamp = None
            for _, _, e in F.all_elements():
                if e.get("k") == "bin" and e.get("op") in ("<", ">"):
                    l, r = F.strip(e["lhs"]), F.strip(e["rhs"])
                    if e["op"] == ">":
                        l, r = r, l
                    if r.get("k") == "ref" and r.get("d") == count["d"]:
                        clamp = (e, l)
            if clamp is None:
                ctx.bad(rid, F, "safe_cut does not clamp the request to the remaining bits", None, sig="no-clamp")
                continue
            subst = {}
            if cls != "cds::algo::number_splitter":
                vals = inv.get(F.ct, set())
                if not vals:
                    ctx.broken("%s: no constructor found to derive the last_-first_ invariant" % F.ct)
                consts = [dict(v) for v in vals if not (set(dict(v)) - {1})]
                if len(vals) != 1 or len(consts) != 1:
                    ctx.bad(rid, F, "the constructors of %s do not all establish last_ = first_ + <size of the bit string>" % F.ct[:80], None,
                            detail="last_-first_ per constructor: %s; a splitter built by the deviating constructor reads past (or stops before) "
                            "the end of its bit string" % [afmt(dict(v)) for v in vals], sig="ctor-invariant")
                    continue
                d = consts[0]
                subst["this.last_"] = add({"this.first_": 1}, {1: d.get(1, 0)})
            A = Affine(ctx.db, subst=subst)
            try:
                rest = A.norm(F, clamp[1])
            except NotAffine as ex:
                ctx.broken("%s::safe_cut: remaining-bits expression is not affine: %s" % (cls, ex))
            RC = ctx.db.find(q=cls + "::rest_count")
            RC = [g for g in RC if g.ct == F.ct]
            if not RC:
                ctx.broken("rest_count() of %s not instantiated" % F.ct)
            rets = [e for _, _, e in RC[0].all_elements() if e.get("k") == "ret" and "v" in e]
            rc = A.norm(RC[0], rets[0]["v"])
            ctx.check(rest == rc, rid, F, "safe_cut clamps to exactly rest_count() bits (%s)" % F.ct[:80], clamp[0],
                      detail="safe_cut uses %s but rest_count() is %s" % (afmt(rest), afmt(rc)), sig="rest-agrees")
            # path structure
            ps = PathSim(F, bound=256).run()
            for p in ps:
                if p.outcome != "return":
                    continue
                cuts = path_calls(p, r"::cut$")
                eos = [e for e in p.events if e.kind == "call" and e.q and e.q.endswith("::eos")]
                eos_true = False
                for atom, tv, bev in cond_atoms(p):
                    if eos and atom == eos[0].val and tv:
                        eos_true = True
                if eos_true or not eos:
                    ctx.check(not cuts and (p.ret == C(0)), rid, F, "at end of stream safe_cut returns 0 without reading", None,
                              sig="eos-returns-0")
                    if not eos:
                        ctx.bad(rid, F, "safe_cut does not test eos() first", None, sig="no-eos-test")
                    continue
                if not cuts:
                    ctx.check(p.ret == C(0), rid, F, "safe_cut returns 0 when nothing is cut", None, sig="zero-count")
                    continue
                arg = cuts[0].args[0]
                # which side of the clamp are we on
                ok = False
                for atom, tv, bev in cond_atoms(p):
                    if bev.node is not None and F.deref(bev.node) is clamp[0]:
                        ok = (arg == ("p", count["d"], count["n"])) if not tv else (arg != ("p", count["d"], count["n"]))
                ctx.check(ok and len(cuts) == 1, rid, F, "cut() is called once with min(count, remaining bits)", cuts[0].node,
                          sig="cut-arg")
    return n


def rule_cursor_reads(ctx, rid):
    """split_bitstring / byte_splitter: a byte is read through the cursor only at
    the cursor itself, unless the extra offset k is justified on every path by
    (i) a comparison against last_, (ii) a condition implying that the contract
    (offset_+count bits requested and available) covers byte k, or (iii) a loop
    bounded by the requested count."""
    n = 0
    for cls in ("cds::algo::split_bitstring", "cds::algo::byte_splitter"):
        fs = [f for f in ctx.db.funcs.values() if f.cls == cls and f.kind == "fn"]
        if not fs:
            ctx.broken("no member functions of %s in the parsed units" % cls)
        for F in fs:
            A = Affine(ctx.db)
            for _, _, e in F.all_elements():
                ptr = None
                off = {}
                if e.get("k") == "un" and e.get("op") == "*":
                    ptr = e["sub"]
                elif e.get("k") == "subscript":
                    ptr = e["base"]
                    try:
                        off = A.norm(F, e["idx"])
                    except NotAffine:
                        off = {"?": 1}
                else:
                    continue
                try:
                    p = A.norm(F, ptr)
                except NotAffine:
                    continue
                p = add(p, off)
                if not any(str(k).startswith("this.") and k in ("this.cur_", "this.first_", "this.last_") for k in p):
                    continue
                n += 1
                base_ok = p.get("this.cur_") == 1 and not any(k in p for k in ("this.first_", "this.last_"))
                rest = {k: v for k, v in p.items() if k != "this.cur_"}
                if base_ok and not rest:
                    ctx.ok(rid, F, "byte read at the cursor itself", e, sig="read-at-cursor")
                    continue
                k_off = rest.get(1) if set(rest) <= {1} else None
                site = e["_site"]
                justified = False
                why = ""
                if Q.innermost_loop_of(F, site[0]) is not None:
                    justified, why = True, "inside a loop"
                for cond, outcome, text, b in Q.guard_conditions(F, site):
                    if "last_" in text:
                        justified, why = True, "guarded by a comparison with last_"
                    c = F.strip(cond)
                    if k_off and c is not None and c.get("k") == "bin" and c["op"] in (">", ">=", "<", "<="):
                        try:
                            l = A.norm(F, c["lhs"])
                            r = A.norm(F, c["rhs"])
                        except NotAffine:
                            continue
                        op = c["op"]
                        if not outcome:
                            op = {">": "<=", ">=": "<", "<": ">=", "<=": ">"}[op]
                        if op in ("<", "<="):
                            l, r, op = r, l, {"<": ">", "<=": ">="}[op]
                        d = add(l, r, -1)      # d > 0  or d >= 0
                        want = {"param.count": 1}
                        if cls.endswith("split_bitstring"):
                            want["this.offset_"] = 1
                        body = {x: v for x, v in d.items() if x != 1}
                        if body == want:
                            bound = -d.get(1, 0) + (1 if op == ">" else 0)   # offset_+count >= bound
                            if bound > 8 * k_off:
                                justified, why = True, "contract condition %s" % text
                if base_ok and justified:
                    ctx.ok(rid, F, "byte read at cursor+%s is justified (%s)" % (k_off, why), e, sig="read-offset-justified")
                else:
                    ctx.bad(rid, F, "byte read through the splitter cursor at %s without a bounds justification: it can lie past the end "
                            "of the bit string" % afmt(p), e,
                            detail="neither a comparison with last_, nor a condition implying the requested bits cover that byte, nor a "
                            "count-bounded loop dominates this read", sig="read-past-cursor")
    return n


def rule_popcount(ctx, rid):
    """SBC / ZBC (SWAR population count and its complement) equal the number of set / clear bits of the argument for every input
    (lane domain: exact affine forms over the input bits per field; a mask that cuts the reachable high bits of a field is a definite loss)"""
    from sa import lanedom as L
    n = 0
    for q, kind in (("cds::bitop::platform::sbc32", "set"), ("cds::bitop::platform::sbc64", "set"),
                    ("cds::bitop::platform::zbc32", "clear"), ("cds::bitop::platform::zbc64", "clear"),
                    ("cds::bitop::details::BitOps::SBC", "set"), ("cds::bitop::details::BitOps::ZBC", "clear")):
        for F in ctx.need(q):
            if len(F.params) != 1:
                continue
            w = param_width(F)
            if w is None:
                continue
            n += 1
            what = "%s(%s) is the number of %s bits of its argument for all inputs" % (q.split("::", 2)[-1], F.params[0]["t"], kind)
            sig = "popcount-%s-%d" % (kind, w)
            try:
                r = L.LaneInterp(ctx.db).run(F, [L.inp(w)])
            except L.LaneOverflow as e:
                ctx.bad(rid, F, what, None, detail="SWAR field overflow: %s" % e, sig=sig)
                continue
            except Undecided as e:
                ctx.broken("%s(%s): undecided in the lane domain: %s" % (q, F.params[0]["t"], e))
                continue
            want = L.Form(0, dict((i, 1) for i in range(w))) if kind == "set" else L.Form(w, dict((i, -1) for i in range(w)))
            got = r.lanes if isinstance(r, L.LV) else None
            ok = got is not None and len(got) == 1 and got[0][0] == 0 and got[0][1].key() == want.key()
            ctx.check(ok, rid, F, what, None, detail="computed %r, specification is %r at bit 0" % (r, want), sig=sig)
    return n
