"""C10 - FCDeque: a push at one end is collided with a pop at the other end only when the deque is empty
(the 'in particular' clause), decided as a path table over fc_process (DESIGN.md §4 C10)."""
import re

from sa import run as _run
from sa import q as Q
from sa.cfg import cfg_of
from sa.pathsim import PathSim
from sa.q import path_end
from . import fc

PROPERTY = "C10"
LEVEL = "other"
FILES = r"^%s/cds/container/fcdeque\.h$" % _run.REPO
TUS = {"quick": ["test/unit/deque/fcdeque.cpp"], "thorough": ["test/unit/deque/*.cpp", "test/stress/*/*fcdeque*.cpp"]}
EXPLANATION = (
    "Decision table over every path of one iteration of FCDeque::fc_process: for each path that reaches collide()/collide_move() the "
    "op-codes of the two records are recovered from the switch labels / equality tests on the path, their deque end and kind are derived "
    "from what fc_apply does for that op-code, and the row must satisfy: first argument is the push record, second the pop record, and "
    "either both act on the same end or the path has established m_Deque.empty(). After a collision the remembered record is reset, and "
    "collide() completes both records exactly once and hands the pushed value to the popper. Not decided: linearizability of the deque as "
    "a whole (flat-combining kernel obligations are under C23).")
ASSUMPTIONS = ["clang CFG of the instantiated FCDeque members (-DNDEBUG)"]
R = ("A push at one end collided with a pop at the other end while the deque holds items returns the pushed item instead of the item at the "
     "far end: not a deque (C10).")


def r10_1(ctx):
    fs = ctx.need("cds::container::FCDeque::fc_process")
    for F in fs:
        apply_ = [g for g in ctx.need("cds::container::FCDeque::fc_apply") if g.ct == F.ct]
        if not apply_:
            ctx.broken("fc_apply of %s not found" % F.ct)
        table = fc.opcode_table(ctx, apply_[0], r"^std::deque::|::deque::|::(push_front|push_back|pop_front|pop_back)$")
        kinds = {op: fc.classify(m) for op, m in table.items()}
        if sum(1 for k in kinds.values() if k[0] == "push") < 2 or sum(1 for k in kinds.values() if k[0] == "pop") < 2:
            ctx.broken("could not derive the op-code table from fc_apply: %s" % table)
        cfg = cfg_of(F)
        loops = cfg.loops()
        if not loops:
            ctx.broken("fc_process has no loop")
        h, body = max(loops.items(), key=lambda hb: len(hb[1]))
        ps = PathSim(F, bound=4096, start=h, region=set(body)).run()
        ctx.paths += len(ps)
        rows = 0
        for p in ps:
            known, root = fc.opcodes_on_path(p)
            empty = fc.empty_truth(p, "m_Deque")
            cols = [e for e in p.events if e.kind == "call" and e.q and re.search(r"::collide(_move)?$", e.q)]
            ctx.check(len(cols) <= 1, "R10.1", F, "at most one collision per processed record", cols[0].node if cols else None, sig="one-collision")
            for e in cols:
                rows += 1
                push_it = root.get(e.args[0])
                pop_it = root.get(e.args[1])
                op_push = known.get(push_it)
                op_pop = known.get(pop_it)
                kp = kinds.get(op_push, (None, None))
                kq = kinds.get(op_pop, (None, None))
                row = "collide(op %s, op %s) with empty()=%s" % (op_push, op_pop, empty)
                if op_push is None or op_pop is None:
                    ctx.bad("R10.1", F, "a collision is reached without both op-codes being established on the path", e.node,
                            detail="%s. %s" % (row, R), sig="collide-unknown-op")
                    continue
                ok_kind = kp[0] == "push" and kq[0] == "pop"
                ctx.check(ok_kind, "R10.1", F, "collide(push record, pop record): argument kinds", e.node,
                          detail="%s: first is %s, second is %s" % (row, kp, kq), sig="collide-kinds:%s/%s" % (kp[0], kq[0]))
                if not ok_kind:
                    continue
                ok = kp[1] == kq[1] or empty is True
                ctx.check(ok, "R10.1", F, "same-end collision, or cross-end collision only with an empty deque", e.node,
                          detail="%s: push at %s, pop at %s. %s" % (row, kp[1], kq[1], R),
                          sig="collide-row:%s-%s-empty=%s" % (kp[1], kq[1], empty))
                # the remembered record is forgotten after the collision
                itprev = push_it if push_it != ("phi",) and pop_it is not None else None
                other = [v for v in (push_it, pop_it) if isinstance(v, tuple) and v[0] == "phi"]
                reset_ok = False
                for var, val in p.env.items():
                    if isinstance(val, tuple) and val[0] == "p" and val[2] in ("itEnd",):
                        reset_ok = True
                # generic: some loop-carried iterator local now holds the end iterator parameter
                endp = [("p", pr["d"], pr["n"]) for pr in F.params]
                reset_ok = any(p.env.get(v[1]) in endp for v in other)
                ctx.check(reset_ok, "R10.1", F, "after a collision the remembered record is reset (it cannot collide twice)", e.node,
                          sig="reset-after-collide")
        ctx.check(rows >= 8, "R10.1", F, "collision rows found in fc_process", None, detail="%d rows" % rows, sig="rows")
r10_1.rule_id = "R10.1"


def r10_2(ctx):
    """collide()/collide_move(): value handed from the push record to the pop record, pop not empty, both records completed once"""
    for name in ("collide", "collide_move"):
        for F in ctx.need("cds::container::FCDeque::" + name):
            ps = PathSim(F, bound=64).run()
            for p in ps:
                if p.outcome != "return":
                    continue
                done = [e for e in p.events if e.kind == "call" and e.q and e.q.endswith("::operation_done")]
                recs = [e.args[0] for e in done if e.args]
                params = [("p", pr["d"], pr["n"]) for pr in F.params]
                ok = len(done) == 2 and set(recs) == set(params)
                ctx.check(ok, "R10.2", F, "%s completes both records exactly once" % name, done[0].node if done else None,
                          detail="operation_done called on %s" % (recs,), sig="done-both")
                # assignment *(recPop.pValPop) = [move] *(recPush.pValPush)
                stores = [e for e in p.events if (e.kind == "store" or (e.kind == "call" and e.q and e.q.endswith("operator=")))]
                flow = False
                for e in p.events:
                    tgt = e.obj if e.kind in ("store", "call") else None
                    val = e.val if e.kind == "store" else (e.args[0] if e.kind == "call" and e.args else None)
                    if tgt is not None and val is not None and Q.sv_has(tgt, lambda x: x == params[1]) and \
                            "pValPop" in str(tgt) and Q.sv_has(val, lambda x: x == params[0]) and "pValPush" in str(val):
                        flow = True
                ctx.check(flow, "R10.2", F, "%s hands the pushed value to the popper" % name, None, sig="value-flow")
                be = [e for e in p.events if e.kind == "store" and Q.sv_field_path(e.obj)[-1:] == ["bEmpty"]]
                ctx.check(len(be) == 1 and be[0].val == ("c", 0) and Q.strip_sv(be[0].obj) == params[1], "R10.2", F,
                          "%s marks the pop as successful (bEmpty = false)" % name, be[0].node if be else None, sig="not-empty")
                # result visible before completion: stores precede operation_done
                if done and be:
                    idx_done = min(p.events.index(d) for d in done)
                    ctx.check(p.events.index(be[0]) < idx_done, "R10.2", F, "the popper's result is written before it is released", be[0].node,
                              sig="write-before-done")
r10_2.rule_id = "R10.2"


RULES = [r10_1, r10_2]
FLOORS = {"R10.1": 20, "R10.2": 8}


def r10_3(ctx):
    """API agreement: the op-code a public method publishes is executed by fc_apply as the same-named container operation"""
    n = 0
    for name in ("push_front", "push_back", "pop_front", "pop_back"):
        for F in ctx.db.find(q="cds::container::FCDeque::" + name):
            apply_ = [g for g in ctx.need("cds::container::FCDeque::fc_apply") if g.ct == F.ct]
            if not apply_:
                continue
            table = fc.opcode_table(ctx, apply_[0], r"::(push_front|push_back|pop_front|pop_back|front|back|empty)$")
            calls = Q.calls_in(F, r"::(combine|batch_combine)$")
            for c in calls:
                a = c.get("args", [])
                if not a:
                    continue
                op = None
                x = F.deref(a[0])
                for _ in range(6):
                    if "cv" in x:
                        op = x["cv"]
                        break
                    if x.get("k") in ("cast", "w"):
                        x = F.deref(x["sub"])
                    else:
                        break
                n += 1
                ctx.check(op in table and name in table[op], "R10.3", F,
                          "FCDeque::%s publishes an op-code that fc_apply executes as %s on the underlying deque" % (name, name), c,
                          detail="op-code %s is executed as %s" % (op, sorted(table.get(op, []))), sig="api-op:%s" % name)
    if n < 4:
        ctx.broken("FCDeque public push/pop methods not instantiated (%d combine calls seen)" % n)
r10_3.rule_id = "R10.3"

RULES.append(r10_3)
FLOORS["R10.3"] = 4
