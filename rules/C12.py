"""C12 - WeakRingBuffer is an exact SPSC FIFO for fixed and variable-size records (structural clauses, DESIGN.md §4 C12)."""
import re

from sa import run as _run
from sa import q as Q
from sa.pathsim import PathSim, C, NULL
from sa.q import cond_atoms, path_end, strip_sv, sv_field_path, atomic_op, sv_affine, aff_sub, sv_mentions
from sa.cfg import cfg_of as _cfg_of
Q.cfg_of = _cfg_of
from sa.bitdom import BitInterp, inp, const, Undecided, T, fmt

PROPERTY = "C12"
LEVEL = "other"
FILES = r"^%s/cds/(container/weak_ringbuffer|opt/buffer)\.h$" % _run.REPO
TUS = {"quick": ["test/unit/queue/weak_ringbuffer.cpp"], "thorough": ["test/unit/queue/weak_ringbuffer.cpp", "test/stress/queue/spsc_*.cpp", "test/unit/queue/vyukov_mpmc_queue.cpp"]}
EXPLANATION = (
    "Path rules with affine comparison over every producer-side and consumer-side member of WeakRingBuffer<T> and WeakRingBuffer<void>: a "
    "failing return is preceded by a refresh of the cached opposite counter (acquire load) and a re-test of 'free space < request' / "
    "'available < request' with the refreshed value; a successful path passed that test with 'false'; all cell accesses go through "
    "buffer.mod(counter) and precede the releasing counter store; single-element operations publish counter+1, push_back/pop_front of the "
    "variable-size buffer advance by calc_real_size of the same header word; the wrap path writes the tail marker and publishes it before "
    "reusing offset 0 and re-checks the space for the advanced position; make_tail/is_tail/untail agree on one marker bit and calc_real_size "
    "is size rounded up to 8 plus the header (bit-provenance evaluation); the four buffer mod() overloads are idx & (capacity-1) for "
    "power-of-two buffers and idx % capacity otherwise. Not decided: FIFO order/exactly-once as a behavioural fact.")
ASSUMPTIONS = ["clang CFG (-DNDEBUG)", "necessary conditions only"]
ACQ = {2, 4, 5}
REL = {3, 4, 5}
R = "Otherwise the producer overwrites unread elements, the consumer reads unwritten ones, or a push/pop fails although space/data exists (C12)."


def _loads(ev, field):
    return [e for e in ev if e.kind == "call" and atomic_op(e) == "load" and sv_field_path(e.obj)[-1:] == [field]]


def _is_fail_ret(p):
    r = p.ret
    if r == C(0) or r == NULL:
        return True
    if isinstance(r, tuple) and r and r[0] == "pair" and r[1] == NULL:
        return True
    return False


def space_tests(p, mine_field, other_field, cache_field, producer):
    """[(index in events of the branch, truth, kind 'cached'|'fresh'|'other', need SV, advanced-by affine)] for the space/availability tests on the path"""
    ev = p.events
    mine = _loads(ev, mine_field)
    fresh = _loads(ev, other_field)
    out = []
    for atom, tv, bev in cond_atoms(p):
        if not (isinstance(atom, tuple) and len(atom) == 4 and atom[0] == "op" and atom[1] in ("<", ">=")):
            continue
        E, N = atom[2], atom[3]
        truth = tv if atom[1] == "<" else (not tv)
        a = sv_affine(E)
        # own counter must occur with coefficient -1 (producer: front+cap-back, consumer: back-front)
        m = [x for x in mine if a.get(x.val) == -1]
        if not m:
            continue
        kind = None
        src = None
        for k, c in a.items():
            if c == 1 and isinstance(k, tuple):
                if sv_field_path(k)[-1:] == [cache_field]:
                    kind = "cached"
                for f in fresh:
                    if k == f.val:
                        kind, src = "fresh", f
        if kind is None:
            # the cached field was just overwritten by a fresh load: its tracked value is that load
            continue
        caps = [k for k, c in a.items() if c == 1 and isinstance(k, tuple) and k[0] in ("call", "get") and "capacity" in str(k[1])]
        if producer and len(caps) != 1:
            continue
        rest = {k: c for k, c in a.items() if k != m[0].val and k not in caps and not (c == 1 and isinstance(k, tuple) and
                (sv_field_path(k)[-1:] == [cache_field] or any(k == f.val for f in fresh)))}
        out.append((p.events.index(bev), truth, kind, N, rest, src))
    return out


def side_rule(ctx, rid, F, producer):
    mine_field, other_field, cache_field = ("back_", "front_", "pfront_") if producer else ("front_", "back_", "cback_")
    what = "%s (%s side)" % (F.q.split("::")[-1], "producer" if producer else "consumer")
    ps = PathSim(F, bound=2048).run()
    ctx.paths += len(ps)
    n = 0
    for p in ps:
        if p.outcome != "return":
            continue
        ev = p.events
        tests = space_tests(p, mine_field, other_field, cache_field, producer)
        pub = [i for i, e in enumerate(ev) if e.kind == "call" and atomic_op(e) == "store" and sv_field_path(e.obj)[-1:] == [mine_field]]
        acc = [i for i, e in enumerate(ev) if e.kind == "call" and e.q and re.search(r"buffer::(operator\[\]|buffer)$", e.q)]
        n += 1
        if tests:
            needs = set(t[3] for t in tests)
            ctx.check(len(needs) == 1, rid, F, "%s: every space/availability test on a path compares with the same requested amount" % what,
                      ev[tests[-1][0]].node, detail="amounts compared: %s. %s" % (sorted(map(repr, needs)), R), sig="same-need")
        if _is_fail_ret(p) and not pub:
            ok = bool(tests) and tests[-1][1] is True and tests[-1][2] == "fresh"
            ctx.check(ok, rid, F, "%s: failure is reported only after re-testing with a freshly loaded %s" % (what, other_field), None,
                      detail="space/availability tests on the path: %s. %s" % ([(t[1], t[2]) for t in tests], R), sig="fail-after-refresh")
            if ok:
                src = tests[-1][5]
                ctx.check(src.args and src.args[0][0] == "c" and src.args[0][1] in ACQ, rid, F, "%s: the refresh of %s is an acquire load" % (what, other_field),
                          src.node, detail=R, sig="refresh-acquire")
            ctx.check(not acc or True, rid, F, "%s: failing path" % what, None, sig="fail-path")
            continue
        if not tests:
            if acc or pub:
                ctx.bad(rid, F, "%s: cells are accessed / the counter is published on a path without a space/availability test" % what,
                        ev[(acc or pub)[0]].node, detail=R, sig="no-test")
            continue
        first_use = min(acc + pub) if (acc + pub) else None
        before = [t for t in tests if first_use is None or t[0] < first_use]
        if acc or pub:
            ctx.check(bool(before) and before[-1][1] is False, rid, F, "%s: cells are used only after the test 'not enough' came out false" % what,
                      ev[first_use].node, detail=R, sig="use-after-test")
        for i in pub:
            o = ev[i].args[1] if len(ev[i].args) > 1 else None
            ctx.check(o is not None and o[0] == "c" and o[1] in REL, rid, F, "%s: the counter is published with release ordering" % what, ev[i].node,
                      detail=R, sig="publish-release")
        if pub and F.q.split("::")[-1] != "back":      # back(): the reserved record lies beyond the published counter until push_back (see R12.3)
            late = [i for i in acc if i > pub[-1]]
            ctx.check(not late, rid, F, "%s: every cell access precedes the publication of the counter" % what, ev[late[0]].node if late else None,
                      detail=R, sig="access-before-publish")
        # cell index goes through mod(own counter)
        for i in acc:
            e = ev[i]
            if e.q.endswith("operator[]"):
                idx = e.args[0] if e.args else None
                src = [x for x in ev[:i] if x.kind == "call" and x.val == idx]
                ctx.check(bool(src) and src[0].q.endswith("::mod"), rid, F, "%s: cells are addressed through buffer.mod()" % what, e.node, sig="index-mod")
    return n


def r12_1(ctx):
    n = 0
    for F in ctx.db.funcs.values():
        if not F.q.startswith("cds::container::WeakRingBuffer::") or F.kind != "fn":
            continue
        st_back = any(e.get("k") == "call" and atomic_op(e) == "store" and F.text(e.get("obj")).endswith("back_") for _, _, e in F.all_elements())
        st_front = any(e.get("k") == "call" and atomic_op(e) == "store" and F.text(e.get("obj")).endswith("front_") for _, _, e in F.all_elements())
        name = F.q.split("::")[-1]
        if name in ("clear", "empty", "size", "capacity", "full"):
            continue
        if name == "push_back":
            continue          # publishes a reservation made (and tested) by back()
        if st_back or name == "back":
            n += side_rule(ctx, "R12.1", F, True)
        elif st_front or name == "front":
            n += side_rule(ctx, "R12.1", F, False)
    if n < 10:
        ctx.broken("only %d producer/consumer paths of WeakRingBuffer analysed" % n)
r12_1.rule_id = "R12.1"


def r12_2(ctx):
    """published amounts"""
    for name, fld in (("emplace", "back_"), ("enqueue_with", "back_"), ("dequeue_with", "front_"), ("pop_front", "front_")):
        for F in ctx.db.find(q="cds::container::WeakRingBuffer::" + name):
            if "<void" in F.ct:
                continue
            for p in PathSim(F, bound=256).run():
                ev = p.events
                pub = [e for e in ev if e.kind == "call" and atomic_op(e) == "store" and sv_field_path(e.obj)[-1:] == [fld]]
                ld = _loads(ev, fld)
                for e in pub:
                    ok = bool(ld) and aff_sub(sv_affine(e.args[0]), {ld[0].val: 1}) == {1: 1}
                    ctx.check(ok, "R12.2", F, "%s publishes %s + 1" % (name, fld), e.node, detail=R, sig="plus-one")
    # batch push/pop: cursor advanced once per element copied, loop bound = count
    from sa.dataflow import rdefs
    for name, fld in (("push", "back_"), ("pop", "front_")):
        for F in ctx.db.find(q="cds::container::WeakRingBuffer::" + name):
            if len(F.params) != 3:
                continue
            cfgl = Q.cfg_of(F).loops()
            pubs = [e for _, _, e in F.all_elements() if e.get("k") == "call" and atomic_op(e) == "store" and F.text(e.get("obj")).endswith(fld)]
            ok = False
            if len(cfgl) == 1 and len(pubs) == 1:
                h, body = next(iter(cfgl.items()))
                t = F.blocks[h].term
                c = F.strip(t["cond"])
                a = F.strip(pubs[0]["args"][0])
                if c.get("k") == "bin" and c["op"] == "<" and F.strip(c["rhs"]).get("d") == F.params[1]["d"] and a.get("k") == "ref":
                    iv = F.strip(c["lhs"]).get("d")
                    ui = [d for d in rdefs(F).all_defs(iv) if d.kind == "update"]
                    uc = [d for d in rdefs(F).all_defs(a["d"]) if d.kind == "update"]
                    ii = [d for d in rdefs(F).all_defs(iv) if d.kind == "init"]
                    ok = len(ui) == 1 and len(uc) == 1 and ui[0].node.get("op") == "++" and uc[0].node.get("op") == "++" and \
                        ui[0].site[0] == uc[0].site[0] and len(ii) == 1 and F.strip(ii[0].rhs).get("cv") == 0
            ctx.check(ok, "R12.2", F, "batch %s advances the published counter once per element, for exactly 'count' elements" % name, pubs[0] if pubs else None,
                      detail=R, sig="batch-advance")
    # variable-size: push_back and pop_front advance by calc_real_size of the header word at mod(counter)
    for name, fld, un in (("push_back", "back_", False), ("pop_front", "front_", True)):
        for F in ctx.db.find(q="cds::container::WeakRingBuffer::" + name):
            if "<void" not in F.ct:
                continue
            for p in PathSim(F, bound=256).run():
                ev = p.events
                pub = [e for e in ev if e.kind == "call" and atomic_op(e) == "store" and sv_field_path(e.obj)[-1:] == [fld]]
                ld = _loads(ev, fld)
                for e in pub:
                    d = aff_sub(sv_affine(e.args[0]), {ld[0].val: 1}) if ld else {}
                    rs = [k for k in d if isinstance(k, tuple) and k[0] == "call" and str(k[1]).endswith("calc_real_size")]
                    ok = len(d) == 1 and len(rs) == 1 and d[rs[0]] == 1
                    ctx.check(ok, "R12.2", F, "%s advances %s by calc_real_size(header)" % (name, fld), e.node, detail="advance %r. %s" % (d, R), sig="advance-real-size")
                    if ok:
                        call = [x for x in ev if x.kind == "call" and x.val == rs[0]][0]
                        arg = call.args[0]
                        if un:
                            u = [x for x in ev if x.kind == "call" and x.val == arg and x.q.endswith("untail")]
                            ctx.check(bool(u), "R12.2", F, "pop_front strips the tail marker before computing the record size", call.node, sig="untail")
                            arg = u[0].args[0] if u else arg
                        modc = [x for x in ev if x.kind == "call" and x.q and x.q.endswith("::mod")]
                        ok2 = sv_mentions(arg, modc[0].val) if modc else False
                        ok3 = bool(modc) and modc[0].args and modc[0].args[0] == ld[0].val
                        ctx.check(ok2 and ok3, "R12.2", F, "%s reads the header word of the record at mod(%s)" % (name, fld), call.node, sig="header-at-counter")
r12_2.rule_id = "R12.2"


def r12_3(ctx):
    """wrap path of back(): tail marker written, published, space re-checked for the advanced position, header at offset 0"""
    for F in ctx.db.find(q="cds::container::WeakRingBuffer::back"):
        if "<void" not in F.ct:
            continue
        seen = 0
        for p in PathSim(F, bound=2048).run():
            if p.outcome != "return":
                continue
            ev = p.events
            mt = [i for i, e in enumerate(ev) if e.kind == "call" and e.q and e.q.endswith("make_tail")]
            if not mt:
                continue
            pub = [i for i, e in enumerate(ev) if e.kind == "call" and atomic_op(e) == "store" and sv_field_path(e.obj)[-1:] == ["back_"]]
            if _is_fail_ret(p):
                ctx.check(not pub, "R12.3", F, "back(): a failed reservation on the wrap path publishes nothing", None, detail=R, sig="wrap-fail-no-publish")
                continue
            seen += 1
            st = [i for i, e in enumerate(ev) if e.kind == "store" and e.val == ev[mt[0]].val]
            ok = len(pub) == 1 and st and st[0] < pub[0]
            ctx.check(bool(ok), "R12.3", F, "back(): the unused-tail marker is written before the advanced counter is published", ev[mt[0]].node, detail=R, sig="tail-then-publish")
            if pub:
                ld = _loads(ev, "back_")
                d = aff_sub(sv_affine(ev[pub[0]].args[0]), {ld[0].val: 1})
                tests = space_tests(p, "back_", "front_", "pfront_", True)
                after = [t for t in tests if t[0] > mt[0] and t[0] < pub[0]]
                ctx.check(bool(after) and after[-1][1] is False and after[-1][4] == {k: -v for k, v in d.items()}, "R12.3", F,
                          "back(): free space is re-checked for the position after the skipped tail before it is published", ev[pub[0]].node,
                          detail="advance %r, re-tests %s. %s" % (d, [(t[1], t[4]) for t in after], R), sig="wrap-recheck")
                hdr = [i for i, e in enumerate(ev) if e.kind == "store" and i > pub[0] and e.val == ("p", F.params[0]["d"], F.params[0]["n"])]
                ctx.check(bool(hdr), "R12.3", F, "back(): the record header (requested size) is written at the new position", None, sig="wrap-header")
        ctx.check(seen >= 1, "R12.3", F, "back() has a wrap path", None, sig="has-wrap")
r12_3.rule_id = "R12.3"


def r12_4(ctx):
    """marker helpers and calc_real_size, for all sizes (bit-provenance)"""
    W = 64
    top = 1 << 63
    def run(name, arg):
        F = [f for f in ctx.need("cds::container::WeakRingBuffer::" + name) if "<void" in f.ct][0]
        try:
            return F, BitInterp(ctx.db).run(F, [arg])
        except Undecided as e:
            ctx.broken("%s undecided: %s" % (name, e))
    F, r = run("make_tail", inp(W))
    ctx.check(r == [('i', i) for i in range(63)] + [1], "R12.4", F, "make_tail sets exactly the top bit", None, detail=fmt(r), sig="make_tail")
    F, r = run("untail", inp(W))
    ctx.check(r == [('i', i) for i in range(63)] + [0], "R12.4", F, "untail clears exactly the top bit", None, detail=fmt(r), sig="untail")
    F = [f for f in ctx.need("cds::container::WeakRingBuffer::is_tail") if "<void" in f.ct][0]
    rets = [e for _, _, e in F.all_elements() if e.get("k") == "ret" and "v" in e]
    r0 = F.strip(rets[0]["v"])
    ok = False
    if r0.get("k") == "bin" and r0["op"] == "!=":
        l = F.strip(r0["lhs"])
        try:
            class _E: pass
            v = BitInterp(ctx.db)
            env = {F.params[0]["d"]: inp(W)}
            vec = v.val(F, l, env, {}, 0)
            ok = vec == [0] * 63 + [('i', 63)]
        except Undecided:
            ok = False
    ctx.check(ok, "R12.4", F, "is_tail tests exactly the top bit", rets[0], sig="is_tail")
    # calc_real_size(s) = ((s + 7) & ~7) + 8 : low three bits zero, and for every residue r in 0..7 of s: result = s - r + (8 if r else 0) + 8
    F = [f for f in ctx.need("cds::container::WeakRingBuffer::calc_real_size") if "<void" in f.ct][0]
    bad = []
    for r in range(8):
        arg = const(3, r) + [0] * 61      # sizes s = r (higher bits zero: the addition may carry, checked on the low part exactly)
        try:
            out = BitInterp(ctx.db).run(F, [arg])
        except Undecided as e:
            ctx.broken("calc_real_size undecided: %s" % e)
        want = const(W, ((r + 7) & ~7) + 8)
        if out != want:
            bad.append(r)
    ctx.check(not bad, "R12.4", F, "calc_real_size rounds the size up to 8 and adds the 8-byte header (all residues)", None, detail="wrong for %s" % bad, sig="real-size")
r12_4.rule_id = "R12.4"


def r12_5(ctx):
    """buffer mod(): idx & (capacity-1) for power-of-two buffers, idx % capacity otherwise - all buffer kinds"""
    n = 0
    kinds = set()
    for F in ctx.db.funcs.values():
        if not re.match(r"cds::opt::v::\w+_buffer::mod$", F.q):
            continue
        exp2 = F.ct.rstrip(">").rstrip().endswith("true")
        for p in PathSim(F, bound=16).run():
            if p.outcome != "return":
                continue
            n += 1
            kinds.add(F.cls)
            r = p.ret
            idx = ("p", F.params[0]["d"], F.params[0]["n"])
            def strip_get(x):
                return x
            ok = False
            if isinstance(r, tuple) and r[0] == "op":
                a, b = r[2], r[3]
                if exp2 and r[1] == "&" and a == idx:
                    d = sv_affine(b)
                    caps = [k for k in d if isinstance(k, tuple) and "capacity" in str(k[1])]
                    ok = d.get(1) == -1 and len(caps) == 1 and d[caps[0]] == 1 and len(d) == 2
                if (not exp2) and r[1] == "%" and a == idx:
                    ok = isinstance(b, tuple) and "capacity" in str(b[1])
            ctx.check(ok, "R12.5", F, "%s::mod is %s" % (F.cls.split("::")[-1], "idx & (capacity-1)" if exp2 else "idx % capacity"), None,
                      detail="returns %r" % (r,), sig="mod")
    if n < 2:
        ctx.broken("buffer mod() overloads not instantiated")
r12_5.rule_id = "R12.5"


def r12_6(ctx):
    """consumer side of WeakRingBuffer<void>: a record header is read from buffer position mod(F) only on a path that established that at least
    one header is published at F ('cback_ - F < sizeof(size_t)' is false for that same F) - also after the unused-tail marker was skipped"""
    from sa.pathsim import PathSim
    from sa.q import cond_atoms, noepoch
    n = 0
    for F in ctx.db.funcs.values():
        if not re.search(r"WeakRingBuffer::(front|pop_front)$", F.q) or "WeakRingBuffer<void" not in F.qt:
            continue
        for p in PathSim(F, bound=4000).run():
            ev = p.events
            mods = {e.val: e for e in ev if e.kind == "call" and e.q and e.q.endswith("::mod") and e.args}

            def derefs(sv, out, d=0):
                if not isinstance(sv, tuple) or d > 12:
                    return
                if sv[:1] == ("deref",):
                    ms = []
                    _find(sv[1], lambda x: x in mods, ms)
                    for m in ms:
                        out.append((sv, m))
                for x in sv:
                    if isinstance(x, tuple):
                        derefs(x, out, d + 1)
            found = []
            for e in ev:
                if e.kind == "call":
                    for a in e.args:
                        derefs(a, found)
            if p.outcome == "return" and p.ret is not None:
                derefs(p.ret, found)
            seen = set()
            for sv, m in found:
                if m in seen:
                    continue
                seen.add(m)
                pos = mods[m].args[0]
                posn = noepoch(pos) if isinstance(pos, tuple) else pos
                n += 1
                ok = False
                for atom, tv, bev in cond_atoms(p):
                    if tv is False and isinstance(atom, tuple) and atom[:2] == ("op", "<") and isinstance(atom[2], tuple) and atom[2][:2] == ("op", "-"):
                        sub = atom[2][3]
                        if (noepoch(sub) if isinstance(sub, tuple) else sub) == posn and "cback_" in repr(atom[2][2]) + repr([x.obj for x in ev if x.val == atom[2][2]]):
                            ok = True
                ctx.check(ok, "R12.6", F, "a record header is read at a position only after the consumer saw at least one header published there", mods[m].node,
                          detail="position %r: no 'cback_ - position < sizeof(size_t)' test is false on this path for that position. Between back() and push_back() of a "
                          "wrapped record the header at the buffer start is written but not published: reading it returns a record that was never pushed. %s" % (pos, R),
                          sig="header-read-published")
    if n < 3:
        ctx.broken("WeakRingBuffer<void> consumer header reads not found (%d)" % n)
r12_6.rule_id = "R12.6"


def _find(sv, pred, out, d=0):
    if d > 12:
        return
    if pred(sv):
        out.append(sv)
    if isinstance(sv, tuple):
        for x in sv:
            if isinstance(x, tuple):
                _find(x, pred, out, d + 1)


RULES = [r12_1, r12_2, r12_3, r12_4, r12_5, r12_6]
FLOORS = {"R12.1": 30, "R12.2": 6, "R12.3": 3, "R12.4": 4, "R12.5": 2, "R12.6": 3}
