"""C11 - Priority queues (structural clauses only: MSPriorityQueue lock discipline - size lock around the slot counter, hand-over-hand slot
locks, node fields written only under that node's lock, locks balanced on every path and across loop iterations, parent-before-child lock
order, full/empty results decided under the size lock; FCPriorityQueue op-code table; DESIGN.md §4 C11).  Linearizability / priority order under
interleavings is NOT decided."""
import re

from sa import run as _run
from sa import q as Q
from sa.cfg import cfg_of, PathBoundExceeded
from sa.pathsim import PathSim, C, NULL
from sa.q import cond_atoms, strip_sv, sv_field_path, atomic_op, noepoch, sv_mentions
from . import fc

PROPERTY = "C11"
LEVEL = "other"
FILES = r"^%s/cds/(intrusive/mspriority_queue|container/(mspriority_queue|fcpriority_queue))\.h$" % _run.REPO
TUS = {"quick": ["test/unit/pqueue/intrusive_mspqueue.cpp", "test/unit/pqueue/mspqueue.cpp", "test/unit/pqueue/fcpqueue_vector.cpp"],
       "thorough": ["test/unit/pqueue/*.cpp"]}
EXPLANATION = (
    "Structural clauses only. intrusive::MSPriorityQueue (container::MSPriorityQueue forwards to it): the item counter is read / changed and the "
    "full / empty result is decided only while the size lock m_Lock is held; the slot node obtained from the counter is locked before m_Lock "
    "is released (hand-over-hand); a heap node's m_nTag / m_pVal are read-modified (assignment, std::swap) only while that node's lock is held; "
    "every lock taken is released on every path, per loop iteration as well, and heapify_after_pop keeps exactly the current parent locked "
    "across iterations and is entered with it locked (checked at the call site in pop); two node locks are taken parent first. push stores the "
    "pushed value into the slot the counter returned, pop returns the value taken from the bottom slot / top slot. FCPriorityQueue: fc_apply's "
    "op-codes agree with push / pop, pop reads top() before pop() and only when not empty. heapify_after_push changes tags only while its item carries its own id and settles / swaps only against a parent whose tag is the stable "
    "Available value. NOT decided: linearizability, priority order under interleavings, bit_reverse_counter (C26).")
ASSUMPTIONS = ["clang CFG (-DNDEBUG)", "necessary conditions only"]
R = "Otherwise two threads modify one heap node, an item is lost / duplicated, or a lock is leaked (C11)."

MS = "cds::intrusive::MSPriorityQueue::"


def _nid(sv, F=None):
    """identity of a heap node: pointer and reference forms agree; a loop variable is named by its declaration"""
    if isinstance(sv, tuple):
        sv = noepoch(sv)
        if sv[:1] == ("addr",):
            return _nid(sv[1])
        if sv[:1] == ("deref",):
            return _nid(sv[1])
        if sv[:1] == ("phi",):
            return ("var", sv[1])
        if sv[:1] == ("p",) and len(sv) == 3:
            return ("var", sv[1])
    return sv


def simulate(F, p, held0=()):
    """per event: (held node locks in acquisition order, size lock held?) *before* the event; plus the final state"""
    held = list(held0)
    size = False
    snap = []
    for e in p.events:
        snap.append((tuple(held), size))
        if e.kind != "call" or not e.q:
            continue
        name = e.q.split("::")[-1]
        if name in ("lock", "unlock") and e.obj is not None:
            if sv_field_path(e.obj)[-1:] == ["m_Lock"] and strip_sv(e.obj) == ("this",):
                size = (name == "lock")
            elif e.q.endswith("node::lock"):
                held.append(_nid(e.obj))
            elif e.q.endswith("node::unlock"):
                k = _nid(e.obj)
                if k in held:
                    held.remove(k)
                else:
                    held.append(("UNLOCK-OF-UNHELD", k))
    snap.append((tuple(held), size))
    return snap


def node_writes(F, e):
    """node ids whose m_nTag / m_pVal this event writes"""
    out = []
    if e.kind == "store" and sv_field_path(e.obj)[-1:] and sv_field_path(e.obj)[-1] in ("m_nTag", "m_pVal") and isinstance(e.obj, tuple) and e.obj[:1] == ("fld",):
        out.append(_nid(e.obj[1]))
    if e.kind == "call" and e.q and e.q.endswith("std::swap") and e.node is not None:
        for an, a in zip(e.node.get("args", []), e.args):
            x = F.deref(an)
            for _ in range(6):
                if isinstance(x, dict) and x.get("k") in ("w", "cast"):
                    x = F.deref(x["sub"])
                else:
                    break
            # only a member expression names the node field itself (a local that happens to hold a value read from a field does not)
            if isinstance(x, dict) and x.get("k") == "member" and x.get("n") in ("m_nTag", "m_pVal") and isinstance(a, tuple) and a[:1] == ("fld",):
                out.append(_nid(a[1]))
    return out


def r11_1(ctx):
    """node fields under the node lock; counter under the size lock; balance; hand-over"""
    n = 0
    for name in ("push", "pop", "heapify_after_push", "heapify_after_pop"):
        for F in ctx.need(MS + name):
            cfg = cfg_of(F)
            entry_held = ()
            parent_decl = None
            if name == "heapify_after_pop":
                parent_decl = F.params[0]["d"]
                entry_held = (("var", F.params[0]["d"]),)
            try:
                ps = PathSim(F, bound=6000).run()
            except PathBoundExceeded:
                ctx.broken("path bound exceeded in %s" % F.q)
                continue
            loops = cfg.loops()
            # paths from the loop headers with the loop invariant as the starting lockset
            starts = [(ps, entry_held, "entry")]
            for h, body in loops.items():
                inv = (("var", parent_decl),) if parent_decl is not None else ()
                try:
                    starts.append((PathSim(F, bound=6000, start=h).run(), inv, "loop@%d" % h))
                except PathBoundExceeded:
                    ctx.broken("path bound exceeded in %s" % F.q)
            for paths, held0, tag in starts:
                for p in paths:
                    ev = p.events
                    snap = simulate(F, p, held0)
                    for i, e in enumerate(ev):
                        held, size = snap[i]
                        for nd in node_writes(F, e):
                            n += 1
                            ctx.check(nd in held, "R11.1", F, "a heap node's tag / value is written only while that node's lock is held", e.node,
                                      detail="node %r, locks held %r (%s). %s" % (nd, held, tag, R), sig="node-write-locked")
                        if e.kind == "call" and e.q and re.search(r"(bit_reverse_counter|item_counter)::(value|inc|dec|operator\+\+|operator--|reset)$", e.q) and name in ("push", "pop"):
                            n += 1
                            ctx.check(size, "R11.1", F, "the slot counter is read / changed only while the size lock is held", e.node, detail=R, sig="counter-under-size-lock")
                        if e.kind == "call" and e.q and e.q.endswith("spin_lock::unlock") and sv_field_path(e.obj)[-1:] == ["m_Lock"] and name in ("push", "pop") and tag == "entry":
                            # hand-over-hand: when the size lock is dropped after a slot was taken, that slot's node is already locked
                            took = [x for x in ev[:i] if x.kind == "call" and x.q and re.search(r"::(inc|dec)$", x.q)]
                            later = any(node_writes(F, x) for x in ev[i + 1:])
                            if took and later:
                                n += 1
                                ctx.check(len(held) >= 1, "R11.1", F, "the slot node is locked before the size lock is released (hand-over-hand)", e.node, detail=R, sig="hand-over")
                                # ... and it is the node of the slot just taken: every node written later whose index is the counter's result
                                # (m_Heap[i] with i = inc()/dec()) is already locked here - otherwise a concurrent push/pop can be handed the same slot
                                res = [noepoch(x.val) for x in took if x.val is not None]
                                # a node id is the result of m_Heap[idx]: find that call's index argument
                                idx_of = dict((noepoch(x.val), [noepoch(a) for a in x.args]) for x in ev
                                              if x.kind == "call" and x.q and x.q.endswith("operator[]") and x.val is not None)
                                for x in ev[i + 1:]:
                                    for nd in node_writes(F, x):
                                        idx = idx_of.get(noepoch(nd), [])
                                        if any(sv_mentions(a, r) for a in idx for r in res):
                                            n += 1
                                            ctx.check(nd in held, "R11.1", F, "the node of the slot taken from the counter is locked before the size lock is released", e.node,
                                                      detail="slot node %r is written later but is not among the locks held when m_Lock is released: %r. %s" % (nd, held, R), sig="hand-over-slot")
                    fin, fsize = snap[-1]
                    bad_unlock = [h for h in fin if isinstance(h, tuple) and h[:1] == ("UNLOCK-OF-UNHELD",)]
                    n += 1
                    ctx.check(not bad_unlock, "R11.1", F, "only held node locks are released", None, detail="%r (%s). %s" % (bad_unlock, tag, R), sig="unlock-held")
                    if bad_unlock:
                        continue
                    if p.outcome == "return":
                        expect = ()
                        if name == "pop" and any(e.kind == "call" and e.q and e.q.endswith("heapify_after_pop") for e in ev):
                            # the top node stays locked and is handed to heapify_after_pop, which releases it
                            hp = [i for i, e in enumerate(ev) if e.kind == "call" and e.q and e.q.endswith("heapify_after_pop")][0]
                            held_at, _ = snap[hp]
                            arg = _nid(ev[hp].args[0]) if ev[hp].args else None
                            ctx.check(arg in held_at and len(held_at) == 1, "R11.1", F, "heapify_after_pop is entered with exactly its parent node locked", ev[hp].node, detail=R, sig="callee-entry-lock")
                            expect = (arg,)
                        ctx.check(tuple(fin) == expect and not fsize, "R11.1", F, "every lock taken is released before returning", None,
                                  detail="still held at return: %r, size lock: %s (%s). %s" % (fin, fsize, tag, R), sig="balanced-return")
                    elif p.outcome == "back":
                        if parent_decl is not None:
                            newp = _nid(p.env.get(parent_decl)) if hasattr(p, "env") and p.env else None
                            ok = len(fin) == 1 and fin[0] == newp
                            ctx.check(ok, "R11.1", F, "across iterations heapify_after_pop keeps exactly the current parent node locked", None,
                                      detail="held at the back edge: %r, parent variable: %r (%s). %s" % (fin, newp, tag, R), sig="loop-invariant")
                        else:
                            ctx.check(tuple(fin) == tuple(held0) and not fsize, "R11.1", F, "every lock taken in a loop iteration is released in that iteration", None,
                                      detail="held at the back edge: %r (%s). %s" % (fin, tag, R), sig="balanced-iteration")
    if n < 40:
        ctx.broken("MSPriorityQueue lock discipline sites not found (%d)" % n)
r11_1.rule_id = "R11.1"


def r11_2(ctx):
    """results and data flow of push / pop; lock order"""
    n = 0
    for F in ctx.need(MS + "push"):
        val = ("p", F.params[0]["d"], F.params[0]["n"])
        for p in PathSim(F, bound=2000).run():
            if p.outcome != "return":
                continue
            ev = p.events
            n += 1
            if p.ret == C(0):
                full = any(isinstance(a, tuple) and a[:1] == ("op",) and a[1] in (">=", ">", "<", "<=", "==") and "capacity" in repr(a) and "value" in repr(a) for a, tv, b in cond_atoms(p))
                ctx.check(full and not any(e.kind == "call" and e.q and e.q.endswith("::inc") for e in ev), "R11.2", F,
                          "push fails only after comparing the item count with the capacity, without taking a slot", None, detail=R, sig="push-fail-full")
            else:
                inc = [e for e in ev if e.kind == "call" and e.q and e.q.endswith("::inc")]
                idx = [e for e in ev if e.kind == "call" and e.q and e.q.endswith("operator[]") and inc and e.args and e.args[0] == inc[0].val]
                st = [e for e in ev if e.kind == "store" and sv_field_path(e.obj)[-1:] == ["m_pVal"] and idx and _nid(e.obj[1]) == _nid(idx[0].val)
                      and isinstance(e.val, tuple) and e.val == ("addr", val)]
                hp = [e for e in ev if e.kind == "call" and e.q and e.q.endswith("heapify_after_push") and inc and e.args and e.args[0] == inc[0].val]
                ctx.check(len(inc) == 1 and bool(st) and bool(hp), "R11.2", F, "push stores the pushed item into the slot the counter returned and heapifies from that slot", None,
                          detail="counter increments: %d, store into that slot: %s, heapify from it: %s. %s" % (len(inc), bool(st), bool(hp), R), sig="push-slot")
    for F in ctx.need(MS + "pop"):
        for p in PathSim(F, bound=2000).run():
            if p.outcome != "return":
                continue
            ev = p.events
            n += 1
            dec = [e for e in ev if e.kind == "call" and e.q and e.q.endswith("::dec")]
            if p.ret == NULL:
                emp = any("value" in repr(a) for a, tv, b in cond_atoms(p))
                ctx.check(emp and not dec, "R11.2", F, "pop reports empty only after testing the item count, without releasing a slot", None, detail=R, sig="pop-empty")
            else:
                ctx.check(len(dec) == 1, "R11.2", F, "a successful pop releases exactly one slot", None, detail=R, sig="pop-slot")
                nulls = [e for e in ev if e.kind == "store" and sv_field_path(e.obj)[-1:] == ["m_pVal"] and e.val == NULL]
                ctx.check(len(nulls) == 1, "R11.2", F, "the slot given up is emptied exactly once", None, detail=R, sig="pop-clears-slot")
    # lock order: a second node lock is taken only on a child (index 2k, 2k+1, or any index > 1 while the top is held) of a held node
    for name in ("heapify_after_push", "heapify_after_pop", "pop"):
        for F in ctx.need(MS + name):
            for start in [None] + list(cfg_of(F).loops()):
                try:
                    ps = PathSim(F, bound=6000, start=start).run() if start is not None else PathSim(F, bound=6000).run()
                except PathBoundExceeded:
                    continue
                for p in ps:
                    ev = p.events
                    idx_of = {}
                    for e in ev:
                        if e.kind == "call" and e.q and e.q.endswith("operator[]") and e.args:
                            idx_of[_nid(e.val)] = e.args[0]
                    held = []
                    for e in ev:
                        if e.kind == "call" and e.q and e.q.endswith("node::lock"):
                            k = _nid(e.obj)
                            if held and k in idx_of and held[-1] in idx_of:
                                n += 1
                                a, b = idx_of[held[-1]], idx_of[k]
                                ctx.check(_is_child(a, b), "R11.2", F, "while a heap node is locked, the next node lock is taken on a node below it (parent before child)", e.node,
                                          detail="holding index %r, locking index %r. Opposite orders in two threads deadlock / break the hand-over-hand protocol. %s" % (a, b, R), sig="lock-order")
                            held.append(k)
                        elif e.kind == "call" and e.q and e.q.endswith("node::unlock"):
                            k = _nid(e.obj)
                            if k in held:
                                held.remove(k)
    if n < 8:
        ctx.broken("push/pop result and lock-order sites not found (%d)" % n)
r11_2.rule_id = "R11.2"


def _is_child(a, b):
    """index b lies below index a in the heap: a == b/2, b in {2a, 2a+1}, b == a+1 with a even sibling order (left then right), or a == 1"""
    if a == C(1):
        return True
    if isinstance(a, tuple) and a[:2] == ("op", "/") and a[2] == b and a[3] == C(2):
        return True
    if isinstance(b, tuple) and b[:2] == ("op", "*") and (b[2] == a or b[3] == a):
        return True
    if isinstance(b, tuple) and b[:2] == ("op", "+") and b[2] == a and b[3] == C(1):
        return True      # right sibling after the left child (both below the held parent)
    return False


def r11_3(ctx):
    """FCPriorityQueue op-code table"""
    n = 0
    for F in ctx.need("cds::container::FCPriorityQueue::fc_apply"):
        table = fc.opcode_table(ctx, F, r"::(push|pop|top|empty|clear)$")
        n += 1
        kinds = {}
        for op, ms in table.items():
            kinds[op] = ms
        ctx.check(any("push" in ms for ms in table.values()) and any({"top", "pop"} <= ms or "pop" in ms for ms in table.values()), "R11.3", F,
                  "fc_apply maps one op-code to push and another to (top, pop)", None, detail="%r. %s" % ({k: sorted(v) for k, v in table.items()}, R), sig="fc-table")
        for p in PathSim(F, bound=2000).run():
            ev = p.events
            pops = [i for i, e in enumerate(ev) if e.kind == "call" and e.q and re.search(r"priority_queue::pop$", e.q)]
            tops = [j for j, e in enumerate(ev) if e.kind == "call" and e.q and re.search(r"priority_queue::top$", e.q)]
            for i in pops:
                n += 1
                emp = [a for a, tv, b in cond_atoms(p) if isinstance(a, tuple) and a[:1] == ("call",) and str(a[1]).endswith("::empty") and tv is False and ev.index(b) < i]
                ctx.check(bool(emp), "R11.3", F, "the underlying queue is popped only when it was found non-empty", ev[i].node, detail=R, sig="fc-pop-nonempty")
            for j in tops:
                n += 1
                after = [i for i in pops if i > j]
                ctx.check(len(after) == 1, "R11.3", F, "a combined pop reads top() and then pops exactly once", ev[j].node, detail=R, sig="fc-top-then-pop")
    if n < 2:
        ctx.broken("FCPriorityQueue::fc_apply not found")
r11_3.rule_id = "R11.3"


def r11_4(ctx):
    """tag protocol of heapify_after_push (Hunt et al.): the pusher touches tags only while its own item still carries its id, and it settles
    (marks the item Available) or swaps with the parent only when the parent is stable (tag == Available, a non-empty constant) - a parent that is
    still being moved by another pusher must be waited for"""
    n = 0
    for F in ctx.need(MS + "heapify_after_push"):
        cur = [("p", pr["d"], pr["n"]) for pr in F.params if pr["n"] == "curId"]
        starts = [None] + list(cfg_of(F).loops())
        for st in starts:
            try:
                ps = PathSim(F, bound=6000, start=st).run() if st is not None else PathSim(F, bound=6000).run()
            except PathBoundExceeded:
                ctx.broken("path bound exceeded in %s" % F.q)
                continue
            for p in ps:
                ev = p.events
                snap = simulate(F, p, ())
                atoms = [(a, tv, ev.index(b)) for a, tv, b in cond_atoms(p)]
                for i, e in enumerate(ev):
                    ws = [w for w in node_writes(F, e)]
                    istag = (e.kind == "store" and sv_field_path(e.obj)[-1:] == ["m_nTag"]) or (e.kind == "call" and e.q and e.q.endswith("std::swap") and "m_nTag" in repr(e.args))
                    if not ws or not istag:
                        continue
                    held, _ = snap[i]
                    if not held:
                        continue
                    item = held[-1]

                    def tag_eq(node, want_cur):
                        for a, tv, j in atoms:
                            if j > i or not tv or not (isinstance(a, tuple) and a[:2] == ("op", "==")):
                                continue
                            x, y = a[2], a[3]
                            for f, k in ((x, y), (y, x)):
                                if isinstance(f, tuple) and f[:1] == ("fld",) and f[2] == "m_nTag" and _nid(f[1]) == node:
                                    if want_cur and cur and k == cur[0]:
                                        return True
                                    if not want_cur and isinstance(k, tuple) and k[:1] == ("c",) and k[1] != 0:
                                        return True
                        return False
                    n += 1
                    ctx.check(tag_eq(item, True), "R11.4", F, "a pusher changes tags only while its item still carries its own id", e.node, detail=R, sig="own-item")
                    if len(held) >= 2:
                        n += 1
                        ctx.check(tag_eq(held[0], False), "R11.4", F, "a pusher settles its item or swaps with the parent only when the parent's tag is the stable 'Available' value", e.node,
                                  detail="a parent that carries another pusher's id is still moving up: comparing with it and stopping leaves the heap order broken once the "
                                  "parent is swapped further up. " + R, sig="parent-stable")
    if n < 4:
        ctx.broken("heapify_after_push tag writes not found (%d)" % n)
r11_4.rule_id = "R11.4"


RULES = [r11_1, r11_2, r11_3, r11_4]
FLOORS = {"R11.1": 40, "R11.2": 8, "R11.3": 2, "R11.4": 4}
