"""C06 - Unbounded MPMC queues (structural clauses only: guard discipline, retire-after-unlink, RWQueue lock discipline, FCQueue collision
condition; DESIGN.md §4 C06).  Linearizability / FIFO order is NOT decided."""
import re

from sa import run as _run
from sa import q as Q
from sa.cfg import cfg_of, PathBoundExceeded
from sa.pathsim import PathSim, C, NULL
from sa.q import norm_cond, node_line, cond_atoms, path_end, strip_sv, sv_field_path, atomic_op, noepoch, lock_state, sv_mentions
from . import e2, fc
from .C09 import collide_rule

PROPERTY = "C06"
LEVEL = "other"
FILES = r"^%s/cds/(intrusive/(msqueue|moir_queue|basket_queue|optimistic_queue|fcqueue)|container/(msqueue|moir_queue|basket_queue|optimistic_queue|rwqueue|fcqueue))\.h$" % _run.REPO
TUS = {"quick": ["test/unit/queue/intrusive_msqueue_hp.cpp", "test/unit/queue/intrusive_moirqueue_dhp.cpp", "test/unit/queue/intrusive_basket_queue_hp.cpp",
                 "test/unit/queue/intrusive_optqueue_dhp.cpp", "test/unit/queue/rwqueue.cpp", "test/unit/queue/fcqueue.cpp"],
       "thorough": ["test/unit/queue/*msqueue*.cpp", "test/unit/queue/*moir*.cpp", "test/unit/queue/*basket*.cpp", "test/unit/queue/*opt*.cpp",
                    "test/unit/queue/rwqueue.cpp", "test/unit/queue/*fcqueue*.cpp"]}
EXPLANATION = (
    "Structural clauses only. MSQueue / MoirQueue / BasketQueue / OptimisticQueue (HP and DHP): on every path a node pointer read from a shared "
    "atomic is dereferenced only after hazard-pointer protection (typestate on paths); the old head is handed to the disposer only on a path "
    "where the head CAS (do_dequeue) succeeded, and the embedded dummy node is never retired. RWQueue: head/tail pointers are read and written "
    "only inside the scope of the corresponding lock. FCQueue: an enqueue is paired with a dequeue only when the underlying queue is empty, "
    "collide() pairs an enqueue with a dequeue, hands the value over and completes both records once; op-codes agree with fc_apply. "
    "'Empty' is reported from a double-collected snapshot. Once a re-read of m_pHead / m_pTail differed from the operation's hazard-protected snapshot, "
    "nothing is published (no CAS / store on another location, no chain freeing) before the snapshot is retaken (a self-validating CAS on that "
    "location is allowed). "
    "NOT decided: FIFO order, linearizability, lost/duplicated items under races.")
ASSUMPTIONS = ["clang CFG (-DNDEBUG)", "necessary conditions only"]
R = "Otherwise a dequeued node is read after being freed, an item is disposed while still linked, or a non-FIFO pairing is produced (C06)."


def r06_1(ctx):
    fs = [f for f in ctx.db.funcs.values() if re.match(r"cds::intrusive::(MSQueue|MoirQueue|BasketQueue|OptimisticQueue)::", f.q)]
    a, s = e2.rule_guard_discipline(ctx, "R06.1", fs, R)
    fam = set(f.cls for f in fs if f.gc_kind() in ("HP", "DHP"))
    if a < 12 or len(fam) < 4:
        ctx.broken("only %d queue members of %d queue classes analysed for guard discipline" % (a, len(fam)))
r06_1.rule_id = "R06.1"


def r06_2(ctx):
    """disposal of the old head only after winning the unlink; the dummy is never retired"""
    n = 0
    for F in ctx.db.funcs.values():
        if not re.match(r"cds::intrusive::(MSQueue|MoirQueue|BasketQueue|OptimisticQueue)::(dequeue|pop)$", F.q):
            continue
        for p in PathSim(F, bound=256).run():
            ev = p.events
            disp = [i for i, e in enumerate(ev) if e.kind == "call" and e.q and re.search(r"::(dispose_result|dispose_node|retire)$", e.q)]
            if not disp:
                continue
            n += 1
            dq = [e for e in ev[:disp[0]] if e.kind == "call" and e.q and e.q.endswith("::do_dequeue")]
            won = any(atom == e.val and tv for atom, tv, b in cond_atoms(p) for e in dq)
            ctx.check(won, "R06.2", F, "the removed head is disposed only when do_dequeue() reported that this thread unlinked it", ev[disp[0]].node, detail=R,
                      sig="dispose-after-unlink")
    for F in ctx.db.funcs.values():
        if not re.match(r"cds::intrusive::(MSQueue|MoirQueue|BasketQueue|OptimisticQueue)::do_dequeue$", F.q):
            continue
        for p in PathSim(F, bound=4000).run():
            if p.outcome != "return" or p.ret != C(1):
                continue
            n += 1
            ev = p.events
            cas = [e for e in ev if e.kind == "call" and (atomic_op(e) or "").startswith("compare_exchange") and sv_field_path(e.obj)[-1:] in (["m_pHead"], ["m_pNext"])]
            won = any(atom == e.val and tv for atom, tv, b in cond_atoms(p) for e in cas)
            gated = any(isinstance(atom, tuple) and atom and atom[0] == "p" and tv is False for atom, tv, b in cond_atoms(p))
            ctx.check(won or gated, "R06.2", F, "do_dequeue() reports success only after the CAS that takes the item (head swing / logical-delete mark) succeeded", None, detail=R, sig="success-after-cas")
    for F in ctx.db.funcs.values():
        if not re.match(r"cds::intrusive::(MSQueue|MoirQueue|BasketQueue|OptimisticQueue)::dispose_node$", F.q):
            continue
        for p in PathSim(F, bound=64).run():
            ret = [e for e in p.events if e.kind == "call" and e.q and e.q.endswith("::retire")]
            if not ret:
                continue
            n += 1
            ok = False
            for atom, tv, b in cond_atoms(p):
                if "m_Dummy" in repr(atom) and isinstance(atom, tuple) and atom[0] == "op" and atom[1] == "==" and tv is False:
                    ok = True
            ctx.check(ok, "R06.2", F, "the embedded dummy node is never handed to the garbage collector", ret[0].node, detail=R, sig="dummy-not-retired")
    if n < 8:
        ctx.broken("dispose/dequeue sites not found (%d)" % n)
r06_2.rule_id = "R06.2"


def r06_3(ctx):
    """RWQueue lock discipline"""
    n = 0
    for F in ctx.db.funcs.values():
        if not F.q.startswith("cds::container::RWQueue::") or F.kind in ("ctor", "dtor"):
            continue
        name = F.q.split("::")[-1]
        if name in ("clear",):
            pass
        ps = PathSim(F, bound=256, watch_reads=("ptr",)).run()
        for p in ps:
            ev = p.events
            for side in ("m_Head", "m_Tail"):
                held = lock_state(p, lambda o, side=side: sv_field_path(o)[-2:] == [side, "lock"])
                for i, e in enumerate(ev):
                    tgt = None
                    if e.kind == "read" and e.extra == "ptr":
                        tgt = e.obj
                    elif e.kind == "store" and sv_field_path(e.obj)[-1:] == ["ptr"]:
                        tgt = e.obj
                    if tgt is not None and sv_field_path(tgt)[-2:] == [side, "ptr"]:
                        n += 1
                        ctx.check(held[i] >= 1, "R06.3", F, "RWQueue %s.ptr is accessed only while %s.lock is held" % (side, side), e.node, detail=R, sig="rw-lock:%s" % side)
                if p.outcome == "return":
                    ctx.check(held[-1] == 0, "R06.3", F, "RWQueue locks are released on every exit", None, sig="rw-balanced")
    if n < 4:
        ctx.broken("RWQueue head/tail accesses not found (%d)" % n)
r06_3.rule_id = "R06.3"


def r06_4(ctx):
    """FCQueue"""
    for F in ctx.need("cds::container::FCQueue::fc_process"):
        cfg = cfg_of(F)
        h, body = max(cfg.loops().items(), key=lambda hb: len(hb[1]))
        for p in PathSim(F, bound=1024, start=h, region=set(body)).run():
            cols = [e for e in p.events if e.kind == "call" and e.q and e.q.endswith("::collide")]
            for c in cols:
                emp = fc.empty_truth(p, "m_Queue")
                ctx.check(emp is True, "R06.4", F, "an enqueue is eliminated against a dequeue only while the queue is empty", c.node,
                          detail="otherwise the dequeue would overtake older items (not FIFO). " + R, sig="collide-empty")
    for F in ctx.need("cds::container::FCQueue::collide"):
        ap = [g for g in ctx.need("cds::container::FCQueue::fc_apply") if g.ct == F.ct]
        if ap:
            collide_rule(ctx, "R06.4", F, "push", "pop", ap[0])
    n = 0
    for name, want in (("enqueue", {"push", "push_back"}), ("dequeue", {"pop", "pop_front"})):
        for F in ctx.db.find(q="cds::container::FCQueue::" + name):
            ap = [g for g in ctx.need("cds::container::FCQueue::fc_apply") if g.ct == F.ct]
            if not ap:
                continue
            table = fc.opcode_table(ctx, ap[0], r"::(push|pop|push_back|pop_front|front|empty)$")
            for c in Q.calls_in(F, r"::(combine|batch_combine)$"):
                a = c.get("args", [])
                op = None
                x = F.deref(a[0]) if a else None
                for _ in range(6):
                    if x is None:
                        break
                    if "cv" in x:
                        op = x["cv"]
                        break
                    if x.get("k") in ("cast", "w"):
                        x = F.deref(x["sub"])
                    else:
                        break
                n += 1
                ctx.check(op in table and bool(table[op] & want), "R06.4", F, "FCQueue::%s publishes an op-code that fc_apply executes as %s" % (name, sorted(want)), c,
                          detail="op-code %s -> %s" % (op, sorted(table.get(op, []))), sig="api-op:%s" % name)
    if n < 2:
        ctx.broken("FCQueue enqueue/dequeue not instantiated")
r06_4.rule_id = "R06.4"


def r06_5(ctx):
    """'empty' is reported from a consistent snapshot: when the decision rests on values read from two or more shared locations, the location
    read first is re-read after all the others and found unchanged (double collect), so that all values were simultaneously valid"""
    n = 0
    for F in ctx.db.funcs.values():
        if not re.match(r"cds::intrusive::(MSQueue|MoirQueue|BasketQueue|OptimisticQueue)::do_dequeue$", F.q):
            continue
        for p in PathSim(F, bound=4000).run():
            if p.outcome != "return" or p.ret != C(0):
                continue
            ev = p.events
            alias = {}
            for e in ev:
                if e.kind == "call" and e.q and e2.PROJ.search(e.q) and e.obj is not None:
                    alias[e.val] = e.obj
            reads = []
            for i, e in enumerate(ev):
                if e.kind != "call" or not e.q:
                    continue
                loc = None
                if e2.PROTECT.search(e.q):
                    locs = [a for a in e.args if isinstance(a, tuple) and a[:1] in (("fld",), ("deref",))]
                    loc = locs[0] if locs else None
                elif atomic_op(e) == "load" and e.node is not None and e2.is_ptr_type(e.node.get("t")):
                    loc = e.obj
                if loc is not None:
                    reads.append((i, noepoch(loc), e.val))
            atoms = cond_atoms(p)

            def mentions(atom, v, d=0):
                if atom == v:
                    return True
                if d < 6 and atom in alias and mentions(alias[atom], v, d + 1):
                    return True
                if isinstance(atom, tuple):
                    return any(mentions(x, v, d + 1) for x in atom if isinstance(x, tuple))
                return False
            part = [r for r in reads if any(mentions(a, r[2]) for a, tv, b in atoms)]
            # (a value read *through* a protected pointer - h->m_pNext == nullptr in MSQueue/MoirQueue - is a stable witness on its own: a node
            # leaves the head position only after it got a successor, so no address-dependency closure is applied here)
            if len(set(r[1] for r in part)) < 2:
                continue
            n += 1
            first = part[0]
            others_last = max(r[0] for r in part if r[1] != first[1])
            ok = False
            for r in part:
                if r[1] == first[1] and r[0] > others_last:
                    for a, tv, b in atoms:
                        if isinstance(a, tuple) and a[:2] == ("op", "==") and tv and mentions(a, first[2]) and mentions(a, r[2]):
                            ok = True
            ctx.check(ok, "R06.5", F, "'empty' is decided on a consistent snapshot: the location read first is re-read unchanged after the other reads", ev[first[0]].node,
                      detail="reads in order: %s. Without the re-validation of the first read the values compared may never have been simultaneously true - "
                      "dequeue can report empty for a queue that was never empty. %s" % ([sv_field_path(r[1])[-1:] for r in part], R), sig="empty-snapshot")
    if n < 3:
        ctx.broken("empty-result paths with a multi-location decision not found (%d)" % n)
r06_5.rule_id = "R06.5"


_SV_CACHE = {}


def _self_validating(ctx, F, q, fld):
    """callee q (same class instantiation as F): on every path the first publishing action is a CAS on this->fld whose expected value is the
    callee's first parameter, and nothing else is published on the paths where that CAS fails"""
    key = (q, F.ct, fld)
    if key in _SV_CACHE:
        return _SV_CACHE[key]
    res = False
    for G in ctx.db.find(q=q):
        if G.ct != F.ct or not G.params:
            continue
        res = True
        try:
            paths = PathSim(G, bound=4000).run()
        except PathBoundExceeded:
            res = False
            break
        for p in paths:
            cas = None
            failed = False
            for e in p.events:
                if e.kind == "branch" and cas is not None and noepoch(e.val) == noepoch(cas.val):
                    atom, pol = norm_cond(e.val)
                    failed = (e.extra[1] != pol) if isinstance(e.extra, tuple) else False
                if e.kind != "call" or not e.q:
                    continue
                op = atomic_op(e)
                pub = (op and op != "load") or re.search(r"::(dispose_node|dispose_result|retire)$", e.q)
                if not pub:
                    continue
                if cas is None:
                    tgt = noepoch(e.obj) if isinstance(e.obj, tuple) else None
                    exp = noepoch(e.args[0]) if e.args else None
                    if not (op and op.startswith("compare_exchange") and tgt == ("fld", ("this",), fld)
                            and isinstance(exp, tuple) and exp[:1] == ("p",) and exp[1] == G.params[0]["d"]):
                        res = False
                    cas = e
                elif failed:
                    res = False
        break
    _SV_CACHE[key] = res
    return res


def r06_6(ctx):
    """stale snapshot => restart: once a re-read of m_pHead / m_pTail was found to differ from the operation's snapshot of it, nothing is
    published (no CAS / store on another location, no chain freeing) until the snapshot is taken again.  The snapshot is hazard-protected, so
    the location never returns to that value (no ABA): a later 're-read equals snapshot' outcome on the same path is infeasible and pruned."""
    n = 0
    for F in ctx.db.funcs.values():
        if not re.match(r"cds::intrusive::(MSQueue|MoirQueue|BasketQueue|OptimisticQueue)::(do_dequeue|enqueue|fix_list)$", F.q):
            continue
        try:
            paths = PathSim(F, bound=20000).run()
        except PathBoundExceeded:
            ctx.broken("path bound exceeded in %s" % F.q)
            continue
        for p in paths:
            ev = p.events
            src = {}      # value -> (field name, event index, 'snap' | 'load')
            for i, e in enumerate(ev):
                if e.kind != "call" or not e.q or e.val is None:
                    continue
                if e2.PROTECT.search(e.q):
                    locs = [a for a in e.args if isinstance(a, tuple) and a[:1] == ("fld",) and noepoch(a)[1] == ("this",)]
                    if locs:
                        src[noepoch(e.val)] = (noepoch(locs[0])[2], i, "snap")
                elif atomic_op(e) == "load" and isinstance(e.obj, tuple) and noepoch(e.obj)[:2] == ("fld", ("this",)):
                    src[noepoch(e.val)] = (noepoch(e.obj)[2], i, "load")
            stale = {}    # (field, snapshot value) -> branch event that saw the difference
            feasible = True
            was_stale = None
            violated = False
            for i, e in enumerate(ev):
                if e.kind == "branch" and isinstance(e.extra, tuple) and e.extra[0] != "switch":
                    atom, pol = norm_cond(e.val)
                    atom = noepoch(atom)
                    if isinstance(atom, tuple) and atom[:1] == ("op",) and atom[1] in ("==", "!=") and len(atom) == 4:
                        a, b = atom[2], atom[3]
                        if a in src and b in src and src[a][0] == src[b][0] and src[a][1] != src[b][1]:
                            snap, fresh = (a, b) if src[a][1] < src[b][1] else (b, a)
                            equal = ((e.extra[1] == pol) == (atom[1] == "=="))
                            key = (src[snap][0], snap)
                            n += 1
                            if not equal:
                                stale.setdefault(key, e)
                                was_stale = was_stale or (key, e)
                            elif key in stale:
                                feasible = False
                                break
                elif e.kind == "call" and e.q and e2.PROTECT.search(e.q) and noepoch(e.val) in src and src[noepoch(e.val)][2] == "snap":
                    # the snapshot of that location is taken again
                    fld = src[noepoch(e.val)][0]
                    for k in [k for k in stale if k[0] == fld]:
                        del stale[k]
                elif stale and e.kind == "call" and e.q:
                    op = atomic_op(e)
                    eff = None
                    if op and op != "load":
                        tgt = noepoch(e.obj) if isinstance(e.obj, tuple) else None
                        if not (tgt is not None and tgt[:2] == ("fld", ("this",)) and any(k[0] == tgt[2] for k in stale)):
                            eff = "atomic %s on %s" % (op, "->".join(sv_field_path(e.obj)[-2:]) or "?")
                    elif re.search(r"::(free_chain|dispose_node|dispose_result|fix_list)$", e.q):
                        eff = "call of " + e.q.split("::")[-1]
                        # a helper whose every effect sits behind its own successful CAS 'stale location: snapshot -> new' validates for itself
                        if e.args and any(k[1] == noepoch(e.args[0]) and _self_validating(ctx, F, e.q, k[0]) for k in stale):
                            eff = None
                    if eff:
                        k = sorted(stale, key=repr)[0]
                        ctx.bad("R06.6", F, "after a re-read of the queue's %s differed from the operation's snapshot nothing is published before the snapshot is retaken" % k[0], e.node,
                                detail="%s after the validation at line %s failed (no later re-validation on this path). The values read through the stale snapshot "
                                "(next pointers, marks) may describe nodes that were already dequeued - an item is handed out twice or lost. %s"
                                % (eff, node_line(stale[k].node) if stale[k].node is not None else "?", R), sig="stale-snapshot:" + k[0])
                        violated = True
                        break
            if feasible and was_stale and not violated:
                ctx.ok("R06.6", F, "after a re-read of the queue's %s differed from the operation's snapshot nothing is published before the snapshot is retaken" % was_stale[0][0],
                       was_stale[1].node, sig="stale-snapshot:" + was_stale[0][0])
    if n < 6:
        ctx.broken("head / tail re-validation branches not found (%d)" % n)
r06_6.rule_id = "R06.6"


RULES = [r06_1, r06_2, r06_3, r06_4, r06_5, r06_6]
FLOORS = {"R06.1": 12, "R06.2": 8, "R06.3": 6, "R06.4": 6, "R06.5": 3, "R06.6": 6}
