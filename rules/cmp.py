"""Comparator-adapter orientation (shared by C20): a two-argument comparator functor of the library that forwards to another comparator, or
that orders two values derived from its parameters with a three-way result, must keep the orientation of its own parameters."""
import re

from sa.cfg import PathBoundExceeded
from sa.pathsim import PathSim, C, norm_cond
from sa.q import cond_atoms


def _has(sv, pred):
    if pred(sv):
        return True
    if isinstance(sv, (tuple, frozenset)):
        return any(_has(x, pred) for x in sv if isinstance(x, (tuple, frozenset)))
    return False


def _side(sv, p0, p1):
    a = _has(sv, lambda s: s == p0)
    b = _has(sv, lambda s: s == p1)
    if a and not b:
        return 0
    if b and not a:
        return 1
    return None


def comparator_functions(db, files_re):
    for F in db.funcs.values():
        if not F.q.endswith("::operator()") or len(F.params) != 2 or F.kind == "lambda":
            continue
        if not re.search(files_re, F.file):
            continue
        if not re.search(r"(?i)(compar|less|cmp|greater|equal)", F.q):
            continue
        yield F


def rule_orientation(ctx, rid, files_re, reason):
    """(i) 'return g(x, y)' where g is another comparator call and x, y each derive from exactly one parameter: x from the first, y from the
    second.  (ii) a constant negative/positive three-way result decided by 'X < Y' (or >) on values each derived from exactly one parameter
    has the sign of (first parameter) ? (second parameter)."""
    n = 0
    for F in comparator_functions(ctx.db, files_re):
        p0 = ("p", F.params[0]["d"], F.params[0]["n"])
        p1 = ("p", F.params[1]["d"], F.params[1]["n"])
        ret_int = (F.ret or "").strip() in ("int", "long", "short")
        from_less = re.search(r"(?i)less", F.q) is not None
        try:
            ps = PathSim(F, bound=512).run()
        except PathBoundExceeded:
            continue
        for p in ps:
            if p.outcome != "return" or p.ret is None:
                continue
            ev = p.events
            r = p.ret
            neg = False
            while isinstance(r, tuple) and r[:1] in (("bool",), ("cast",)):
                r = r[1]
            if isinstance(r, tuple) and r[:2] == ("un", "-"):
                neg = True
                r = r[2]
            # (i) forwarding
            fw = [e for e in ev if e.kind == "call" and e.val == r and len(e.args) == 2 and e.q and
                  (e.q.endswith("::operator()") or re.search(r"(?i)(compare|cmp|less)$", e.q.split("::")[-1]))]
            if fw:
                e = fw[-1]
                s0, s1 = _side(e.args[0], p0, p1), _side(e.args[1], p0, p1)
                if s0 is not None and s1 is not None and s0 != s1:
                    n += 1
                    ok = (s0 == 0) != neg
                    ctx.check(ok, rid, F, "a comparator adapter forwards its arguments in its own order (first, second)", e.node,
                              detail="forwards (%s, %s) of its parameters%s. A reversed comparison makes searches stop at the wrong position: %s"
                              % (F.params[s0]["n"], F.params[s1]["n"], " negated" if neg else "", reason), sig="forward-order")
                continue
            # (ii) three-way constant decided by a relational test
            if ret_int and isinstance(r, tuple) and r[:1] == ("c",) and isinstance(r[1], int) and r[1] != 0 and not neg:
                last = None
                for atom, tv, bev in cond_atoms(p):
                    if isinstance(atom, tuple) and atom[:1] == ("op",) and atom[1] in ("<", ">", "<=", ">="):
                        last = (atom, tv)
                    elif from_less and isinstance(atom, tuple) and atom[:1] == ("call",):
                        # an adapter built from a 'less' predicate: less(x, y) is the relational test
                        ce = [e for e in ev if e.kind == "call" and e.val == atom and len(e.args) == 2]
                        if ce:
                            last = (("op", "<", ce[-1].args[0], ce[-1].args[1]), tv)
                if last is None:
                    continue
                atom, tv = last
                op, x, y = atom[1], atom[2], atom[3]
                sx, sy = _side(x, p0, p1), _side(y, p0, p1)
                if sx is None or sy is None or sx == sy:
                    continue
                # normalise to 'first ? second'
                lt = op in ("<", "<=")
                if not tv:
                    lt = not lt          # !(x < y)  ~ x > y for distinct keys (the equal case is handled by an earlier test or returns 0)
                if sx == 1:
                    lt = not lt          # x is the second parameter
                n += 1
                want_neg = lt
                ctx.check((r[1] < 0) == want_neg, rid, F, "the three-way result has the sign of (first argument) compared with (second argument)", None,
                          detail="returns %d on a path where the %s argument is the smaller one. %s" % (r[1], "first" if lt else "second", reason), sig="sign:%s" % op)
    return n
