"""C20 - Single-threaded API behaviour (decided clause: counter / functor-flag / return-value consistency on every path, DESIGN.md §4 C20)."""
from sa import run as _run
from . import e9, cmp

PROPERTY = "C20"
LEVEL = "other"
FILES = r"^%s/cds/(intrusive|container|opt)/" % _run.REPO
NAMES = r"."
TUS = {
    "quick": ["test/unit/intrusive-list/intrusive_michael_hp.cpp", "test/unit/intrusive-list/intrusive_lazy_rcu_gpb.cpp",
              "test/unit/intrusive-list/intrusive_lazy_hp.cpp", "test/unit/intrusive-list/intrusive_michael_rcu_gpb.cpp",
              "test/unit/intrusive-list/intrusive_iterable_dhp.cpp", "test/unit/intrusive-set/intrusive_skiplist_hp.cpp",
              "test/unit/tree/intrusive_ellenbintree_hp.cpp", "test/unit/intrusive-set/intrusive_feldman_hashset_hp.cpp",
              "test/unit/queue/msqueue_hp.cpp", "test/unit/stack/treiber_stack_hp.cpp", "test/unit/striped-set/intrusive_cuckoo_set.cpp",
              "test/unit/striped-set/set_std_set.cpp", "test/unit/queue/basket_queue_hp.cpp", "test/unit/queue/optimistic_queue_hp.cpp", "test/unit/intrusive-set/intrusive_split_michael_hp.cpp",
              "test/unit/set/split_lazy_hp.cpp", "test/unit/set/split_iterable_hp.cpp", "test/unit/tree/bronson_avltree_map_rcu_gpb.cpp"],
    "thorough": ["test/unit/intrusive-list/*.cpp", "test/unit/intrusive-set/*.cpp", "test/unit/tree/intrusive_*.cpp", "test/unit/tree/bronson_*.cpp", "test/unit/queue/*.cpp",
                 "test/unit/stack/*.cpp", "test/unit/striped-set/*.cpp", "test/unit/pqueue/*.cpp"],
}
EXPLANATION = (
    "Path-effect consistency over every container member that touches the item counter (value numbering on all returning paths): the counter "
    "is incremented/decremented at most once and only on paths that report success; a path that reports a new item (true,true) - or, where the "
    "function has no elimination path, plain success - changes the counter; an update functor invoked with bNew=true is on a path returning "
    "(true,true) and counted, bNew=false on a path returning (true,false); no insert/update functor call and no counter change on failing "
    "paths ((false,false), false, null). Not decided: agreement with std:: reference containers over call sequences.")
ASSUMPTIONS = ["clang CFG (-DNDEBUG)", "functions whose path count exceeds the bound are skipped and reported (not claimed)"]
R = "Otherwise size()/empty() drift from the contents or the callback/return contract of insert/update/erase is broken (C20)."


def r20_1(ctx):
    analysed, skipped, fam = e9.rule_counter_return(ctx, "R20.1", r"/cds/(intrusive|container)/", reason=R)
    ctx.info["e9_functions"] = analysed
    ctx.info["e9_skipped_path_bound"] = skipped
    if analysed < 40 or len(fam) < 8:
        ctx.broken("only %d counter-changing functions of %d container classes analysed (%d skipped by the path bound)" % (analysed, len(fam), skipped))
r20_1.rule_id = "R20.1"


def r20_2(ctx):
    e9.rule_counter_reachability(ctx, "R20.2", r"/cds/(intrusive|container)/", reason=R)
r20_2.rule_id = "R20.2"


def r20_3(ctx):
    n = cmp.rule_orientation(ctx, "R20.3", r"/cds/(intrusive|container|opt)/", R)
    if n < 20:
        ctx.broken("only %d oriented comparator returns found" % n)
r20_3.rule_id = "R20.3"


def r20_4(ctx):
    """BronsonAVLTreeMap result codes (its internal operations return update_flags instead of bool / pair): a path that reports 'inserted'
    changed the counter exactly once upwards and was allowed to insert (allow_insert tested true on the path, or - for members without a flags
    parameter - at every call site); 'removed' decrements once; failed / retry / updated leave the counter alone"""
    import re as _re
    from sa.pathsim import PathSim, C
    from sa.cfg import PathBoundExceeded
    from sa.q import cond_atoms
    INS, UPD, REM = C(1), C(2), C(4)
    n = 0
    need_site_gate = set()
    fs = [F for F in ctx.db.funcs.values() if F.q.startswith("cds::container::BronsonAVLTreeMap::") and (F.ret or "").strip() == "int"]
    for F in fs:
        flags = [("p", pr["d"], pr["n"]) for pr in F.params if pr["n"] == "nFlags"]
        try:
            ps = PathSim(F, bound=6000).run()
        except PathBoundExceeded:
            continue
        for p in ps:
            if p.outcome != "return" or not (isinstance(p.ret, tuple) and p.ret[:1] == ("c",)):
                continue
            ev = p.events
            # correlated reads of one node's value: is_valued() true and value() == nullptr on the same path is infeasible (same field, node locked)
            valued = [tv for a, tv, b in cond_atoms(p) if isinstance(a, tuple) and a[:1] == ("call",) and str(a[1]).endswith("::is_valued")]
            isnull = [tv for a, tv, b in cond_atoms(p) if isinstance(a, tuple) and a[:1] == ("call",) and str(a[1]).endswith("::value") and tv is False]
            if valued and valued[-1] is True and isnull:
                continue
            inc = [e for e in ev if e.kind == "call" and e.q and _re.search(r"item_counter::operator\+\+$", e.q)]
            dec = [e for e in ev if e.kind == "call" and e.q and _re.search(r"item_counter::operator--$", e.q)]
            n += 1
            if p.ret == INS:
                ctx.check(len(inc) == 1 and not dec, "R20.4", F, "a path reporting 'inserted' increments the item counter exactly once", None,
                          detail="increments: %d, decrements: %d. %s" % (len(inc), len(dec), R), sig="inserted-counts")
                if flags:
                    gate = any(isinstance(a, tuple) and a[:2] == ("op", "&") and flags[0] in a[2:4] and C(1) in a[2:4] and tv for a, tv, b in cond_atoms(p))
                    ctx.check(gate, "R20.4", F, "a path reporting 'inserted' established that insertion is allowed (nFlags & allow_insert)", None,
                              detail="update( key, ..., bInsert = false ) must not add a key: a routing node (erased key that kept its place) counts as absent. " + R,
                              sig="inserted-allowed")
                else:
                    need_site_gate.add(F.m)
            elif p.ret == REM:
                ctx.check(len(dec) == 1 and not inc, "R20.4", F, "a path reporting 'removed' decrements the item counter exactly once", None, detail=R, sig="removed-counts")
            else:
                ctx.check(not inc and not dec, "R20.4", F, "a path reporting failed / retry / updated leaves the item counter alone", None, detail=R, sig="other-no-count")
    for G in fs:
        for p in PathSim(G, bound=6000).run() if any(e.get("k") == "call" and e.get("m") in need_site_gate for _, _, e in G.all_elements()) else []:
            flags = [("p", pr["d"], pr["n"]) for pr in G.params if pr["n"] == "nFlags"]
            for e in p.events:
                if e.kind == "call" and e.node is not None and e.node.get("m") in need_site_gate:
                    n += 1
                    i = p.events.index(e)
                    gate = bool(flags) and any(isinstance(a, tuple) and a[:2] == ("op", "&") and flags[0] in a[2:4] and C(1) in a[2:4] and tv and p.events.index(b) < i
                                               for a, tv, b in cond_atoms(p))
                    ctx.check(gate, "R20.4", G, "an inserting helper without a flags parameter is called only where insertion is allowed", e.node, detail=R, sig="insert-helper-gated")
    if n < 10:
        ctx.broken("Bronson result-code paths not found (%d)" % n)
r20_4.rule_id = "R20.4"


RULES = [r20_1, r20_2, r20_3, r20_4]
FLOORS = {"R20.1": 200, "R20.2": 100, "R20.3": 20, "R20.4": 10}
