"""C20 - Single-threaded API behaviour (decided clause: counter / functor-flag / return-value consistency on every path, DESIGN.md §4 C20)."""
from sa import run as _run
from . import e9, cmp

PROPERTY = "C20"
LEVEL = "other"
FILES = r"^%s/cds/(intrusive|container|opt)/" % _run.REPO
NAMES = r"."
TUS = {
    "quick": ["test/unit/intrusive-list/intrusive_michael_hp.cpp", "test/unit/intrusive-list/intrusive_lazy_rcu_gpb.cpp",
              "test/unit/intrusive-list/intrusive_lazy_hp.cpp", "test/unit/intrusive-list/intrusive_michael_rcu_gpb.cpp",
              "test/unit/intrusive-list/intrusive_iterable_dhp.cpp", "test/unit/intrusive-set/intrusive_skiplist_hp.cpp",
              "test/unit/tree/intrusive_ellenbintree_hp.cpp", "test/unit/intrusive-set/intrusive_feldman_hashset_hp.cpp",
              "test/unit/queue/msqueue_hp.cpp", "test/unit/stack/treiber_stack_hp.cpp", "test/unit/striped-set/intrusive_cuckoo_set.cpp",
              "test/unit/striped-set/set_std_set.cpp", "test/unit/queue/basket_queue_hp.cpp", "test/unit/queue/optimistic_queue_hp.cpp", "test/unit/intrusive-set/intrusive_split_michael_hp.cpp",
              "test/unit/set/split_lazy_hp.cpp", "test/unit/set/split_iterable_hp.cpp"],
    "thorough": ["test/unit/intrusive-list/*.cpp", "test/unit/intrusive-set/*.cpp", "test/unit/tree/intrusive_*.cpp", "test/unit/queue/*.cpp",
                 "test/unit/stack/*.cpp", "test/unit/striped-set/*.cpp", "test/unit/pqueue/*.cpp"],
}
EXPLANATION = (
    "Path-effect consistency over every container member that touches the item counter (value numbering on all returning paths): the counter "
    "is incremented/decremented at most once and only on paths that report success; a path that reports a new item (true,true) - or, where the "
    "function has no elimination path, plain success - changes the counter; an update functor invoked with bNew=true is on a path returning "
    "(true,true) and counted, bNew=false on a path returning (true,false); no insert/update functor call and no counter change on failing "
    "paths ((false,false), false, null). Not decided: agreement with std:: reference containers over call sequences.")
ASSUMPTIONS = ["clang CFG (-DNDEBUG)", "functions whose path count exceeds the bound are skipped and reported (not claimed)"]
R = "Otherwise size()/empty() drift from the contents or the callback/return contract of insert/update/erase is broken (C20)."


def r20_1(ctx):
    analysed, skipped, fam = e9.rule_counter_return(ctx, "R20.1", r"/cds/(intrusive|container)/", reason=R)
    ctx.info["e9_functions"] = analysed
    ctx.info["e9_skipped_path_bound"] = skipped
    if analysed < 40 or len(fam) < 8:
        ctx.broken("only %d counter-changing functions of %d container classes analysed (%d skipped by the path bound)" % (analysed, len(fam), skipped))
r20_1.rule_id = "R20.1"


def r20_2(ctx):
    e9.rule_counter_reachability(ctx, "R20.2", r"/cds/(intrusive|container)/", reason=R)
r20_2.rule_id = "R20.2"


def r20_3(ctx):
    n = cmp.rule_orientation(ctx, "R20.3", r"/cds/(intrusive|container|opt)/", R)
    if n < 20:
        ctx.broken("only %d oriented comparator returns found" % n)
r20_3.rule_id = "R20.3"


RULES = [r20_1, r20_2, r20_3]
FLOORS = {"R20.1": 200, "R20.2": 100, "R20.3": 20}
